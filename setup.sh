#!/bin/bash
# offline setup: syntax-check every TLA+ module (SANY), make sure the package imports
set -e
cd "$(dirname "$0")"
fail=0
for f in spec/*.tla; do
  m=$(basename "$f" .tla)
  out=$(cd spec && java -cp /opt/veriftools/tla/tla2tools.jar:/opt/veriftools/tla/CommunityModules-deps.jar tla2sany.SANY "$m.tla" 2>&1) || true
  if echo "$out" | grep -q -E "Semantic errors|Parse Error|Fatal errors|Could not"; then
     echo "SANY FAILED: $m"; echo "$out" | tail -20; fail=1
  fi
done
/venv/bin/python -c "import cell_type_mapper, h5py, anndata, numpy, scipy" || fail=1
mkdir -p evidence replays
[ $fail = 0 ] && echo "setup ok"
exit $fail
