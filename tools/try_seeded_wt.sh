#!/bin/bash
# usage: tools/try_seeded_wt.sh <mutation dir with patch.diff demo.py> <PID> [check args...]
# like try_seeded.sh, but leaves /repo alone: the patch is applied to a git worktree of /repo's HEAD
# (/var/tmp/mutrepo) that is put first on PYTHONPATH - used while long runs are using /repo itself.
D="$1"; PID="$2"; shift 2
W=${MUTW:-/var/tmp/mutrepo}
T=$(basename $W)
[ -d $W ] || git -C /repo worktree add --detach $W HEAD -q
git -C $W checkout -q --detach "$(git -C /repo rev-parse HEAD)" 2>/dev/null
git -C $W checkout -- . 
PYTHONPATH=$W/src /venv/bin/python "$D/demo.py" > /tmp/demo_clean_$T.out 2>&1; C=$?
git -C $W apply "$D/patch.diff" || { echo "patch does not apply"; exit 2; }
PYTHONPATH=$W/src /venv/bin/python "$D/demo.py" > /tmp/demo_mut_$T.out 2>&1; M=$?
cd /verif && VERIF_SCRATCH_EVIDENCE=1 PYTHONPATH=$W/src ./check "$PID" "$@" > /tmp/check_mut_$T.out 2>&1; RC=$?
git -C $W checkout -- .
NV=$(grep -c '^VIOLATION' /tmp/check_mut_$T.out)
echo "$(basename $D): demo clean=$C mutated=$M | check $PID $* -> exit $RC, $NV VIOLATION lines | $(grep 'tier=' /tmp/check_mut_$T.out | cut -c1-160)"
grep -A1 '^VIOLATION' /tmp/check_mut_$T.out | grep what | head -1 | cut -c1-260
grep 'MACHINERY' /tmp/check_mut_$T.out | head -2 | cut -c1-300
exit 0
