#!/bin/bash
# usage: tools/try_seeded.sh <mutation dir with patch.diff demo.py> <PID> [check args...]
# confirms the demo both ways, applies the patch to /repo, runs the check, undoes the patch.
D="$1"; PID="$2"; shift 2
cd /repo || exit 2
if [ -n "$(git status --porcelain --untracked-files=no)" ]; then echo "repo dirty"; exit 2; fi
PYTHONPATH=/repo/src /venv/bin/python "$D/demo.py" > /tmp/demo_clean.out 2>&1; C=$?
git apply "$D/patch.diff" || { echo "patch does not apply"; exit 2; }
PYTHONPATH=/repo/src /venv/bin/python "$D/demo.py" > /tmp/demo_mut.out 2>&1; M=$?
cd /verif && VERIF_SCRATCH_EVIDENCE=1 ./check "$PID" "$@" > /tmp/check_mut.out 2>&1; RC=$?
git -C /repo checkout -- .
NV=$(grep -c '^VIOLATION' /tmp/check_mut.out)
echo "$(basename $D): demo clean=$C mutated=$M | check $PID $* -> exit $RC, $NV VIOLATION lines | $(grep 'tier=' /tmp/check_mut.out | cut -c1-160)"
grep -A1 '^VIOLATION' /tmp/check_mut.out | grep what | head -1 | cut -c1-260
[ -n "$(git -C /repo status --porcelain --untracked-files=no)" ] && echo "REPO NOT CLEAN"
exit 0
