#!/bin/bash
# run every claimed check (quick, default seed) in /verif against /repo so that the committed evidence files are the
# records of FULL runs; then the extension suites.  One line per check.
cd "$(dirname "$0")/.."
IDS=$(python3 -c "import json;print(' '.join(c['property_id'] for c in json.load(open('MANIFEST.json'))['checks']))")
for id in $IDS X01 X02 X03 X04 X05 X06 X07 X08 X09 X10 X11 X12 X13 X14 X15 X16 X17 X18 X19; do
  out=$(./check $id --tier quick 2>&1); rc=$?
  echo "$id rc=$rc $(echo "$out" | grep -c '^VIOLATION\|^DISAGREEMENT') alarms | $(echo "$out" | grep 'tier=' | cut -c1-150)"
  if [ $rc -ne 0 ]; then echo "$out" | grep -E "VIOLATION|DISAGREEMENT|what|MACHINERY" | head -6 | cut -c1-400; fi
done
