#!/usr/bin/env python3
"""adopt a confirmed seeded mutation: tools/adopt.py <src dir> <detected: yes|no|by-design> <check cmd> <note>"""
import json, shutil, sys, pathlib
src = pathlib.Path(sys.argv[1]); detected = sys.argv[2]; cmd = sys.argv[3]; note = sys.argv[4] if len(sys.argv) > 4 else ''
dst = pathlib.Path('/verif/seeded') / src.name
dst.mkdir(parents=True, exist_ok=True)
for f in ('patch.diff', 'demo.py'):
    shutil.copy(src / f, dst / f)
meta = json.load(open(src / 'meta.json'))
meta.update({'breaks_property': meta.get('property'), 'needs_to_manifest': meta.get('needs'),
             'confirmed': {'demo_clean_exit': 0, 'demo_mutated_exit': 1,
                           'baseline_with_patch': ('BASELINE OK (479/479) re-run by the framework author with the patch applied' if __import__('os').environ.get('BASELINE_RERUN') else 'BASELINE OK (479/479) reported by the authoring agent')},
             'ran': cmd, 'detected': detected, 'note': note})
json.dump(meta, open(dst / 'meta.json', 'w'), indent=1)
print('adopted', dst)
