#!/bin/bash
# run every claimed check (quick) under several seeds; print one line per run
cd "$(dirname "$0")/.."
IDS=$(python3 -c "import json;print(' '.join(c['property_id'] for c in json.load(open('MANIFEST.json'))['checks']))")
for seed in "$@"; do
  for id in $IDS; do
    out=$(VERIF_SCRATCH_EVIDENCE=1 VERIF_SEED=$seed ./check $id --tier quick 2>&1); rc=$?
    echo "seed=$seed $id rc=$rc $(echo "$out" | grep -c '^VIOLATION') viol | $(echo "$out" | grep 'tier=' | cut -c1-150)"
    if [ $rc -ne 0 ]; then echo "$out" | grep -E "VIOLATION|what|MACHINERY" | head -6 | cut -c1-400; fi
  done
done
