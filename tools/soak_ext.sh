#!/bin/bash
# run every extension suite (quick) under several seeds; one line per run.  Records go to evidence_partial/.
cd "$(dirname "$0")/.."
for seed in "$@"; do
  for id in X01 X02 X03 X04 X05 X06 X07 X08 X09 X10 X11 X12 X13 X14 X15 X16 X17 X18 X19; do
    out=$(VERIF_SCRATCH_EVIDENCE=1 VERIF_SEED=$seed ./check $id --tier quick 2>&1); rc=$?
    echo "seed=$seed $id rc=$rc $(echo "$out" | grep -c '^DISAGREEMENT') disagreements | $(echo "$out" | grep 'tier=' | cut -c1-150)"
    if [ $rc -ne 0 ]; then echo "$out" | grep -E "DISAGREEMENT|what|MACHINERY" | head -6 | cut -c1-400; fi
  done
done
echo SOAK-EXT-DONE
