#!/usr/bin/env python3
"""usage: tools/design_tables.py [--write]   (--write replaces the generated block of DESIGN.md)
print the markdown tables of DESIGN.md section A that are derived from committed data
(seeded mutations, findings, spec modules)"""
import glob, io, json, os, re, sys
from contextlib import redirect_stdout


def main():
    R = '/verif'
    print('#### Seeded changes and the check that catches each\n')
    print('| id | change (summary of the authoring agent) | needs | caught by | how / note |')
    print('|---|---|---|---|---|')
    for d in sorted(glob.glob(f'{R}/seeded/*/meta.json'), key=lambda p: (p.split('/')[-2][:3], p)):
        m = json.load(open(d))
        sid = d.split('/')[-2]
        esc = lambda s: re.sub(r'\s+', ' ', str(s)).replace('|', '\\|')
        print(f"| {sid} | {esc(m.get('summary'))[:170]} | {esc(m.get('needs'))[:150]} | "
              f"{'**' + m['detected'] + '**' if m['detected'] != 'yes' else '`' + m['ran'] + '`'} | {esc(m.get('note') or 'caught as delivered')[:300]} |")
    print('\n#### Findings\n')
    print('| id | property | status | signature | what |')
    print('|---|---|---|---|---|')
    for f in json.load(open(f'{R}/known_findings.json'))['findings']:
        print(f"| {f['id']} | {f['property']} | {f['status']}{' ' + f.get('commit', '') if f['status'] == 'fixed' else ''} | "
              f"`{f['signature']}` | {re.sub(chr(10), ' ', f['description']).replace('|', chr(92) + '|')[:400]} |")


if __name__ == '__main__':
    if '--write' in sys.argv:
        buf = io.StringIO()
        with redirect_stdout(buf):
            main()
        t = open('/verif/DESIGN.md').read()
        a, b = '<!-- BEGIN GENERATED -->', '<!-- END GENERATED -->'
        t = t[:t.index(a) + len(a)] + '\n' + buf.getvalue() + t[t.index(b):]
        open('/verif/DESIGN.md', 'w').write(t)
    else:
        main()
