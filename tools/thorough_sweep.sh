#!/bin/bash
# run the thorough tier of every claimed check (or of the ids given) once; one line per check.  Records go to evidence_partial/.
cd "$(dirname "$0")/.."
IDS="$@"
[ -z "$IDS" ] && IDS=$(python3 -c "import json;print(' '.join(c['property_id'] for c in json.load(open('MANIFEST.json'))['checks']))")
for id in $IDS; do
  t0=$(date +%s)
  out=$(VERIF_SCRATCH_EVIDENCE=1 ./check $id --tier thorough 2>&1); rc=$?
  echo "$id rc=$rc $(echo "$out" | grep -c '^VIOLATION\|^DISAGREEMENT') alarms $(( $(date +%s) - t0 ))s | $(echo "$out" | grep 'tier=' | cut -c1-170)"
  if [ $rc -ne 0 ]; then echo "$out" | grep -E "VIOLATION|DISAGREEMENT|what|MACHINERY" | head -8 | cut -c1-500; fi
done
echo SWEEP-DONE
