"""Check context: evidence accumulation, verdict discipline, known findings, scratch."""
import hashlib
import json
import os
import pathlib
import random
import shutil
import sys
import tempfile
import time
import traceback

ROOT = pathlib.Path(__file__).resolve().parent.parent
EVIDENCE_DIR = ROOT / 'evidence'
REPLAY_DIR = ROOT / 'replays'
FINDINGS = ROOT / 'known_findings.json'


def canon(obj):
    return json.dumps(obj, sort_keys=True, default=str)


class Ctx(object):
    def __init__(self, pid, tier, seed, level='model_checking'):
        self.pid = pid
        self.tier = tier
        self.seed = seed
        self.level = level
        self.t0 = time.time()
        self.rng = random.Random(seed)
        self.cov = {
            'states': 0, 'transitions': 0, 'traces_validated_against_impl': 0,
            'evaluations': 0, 'distinct_nontrivial': 0, 'rule': '', 'samples': [],
            'exhaustive': False, 'trusted_base': [], 'tlc_runs': [], 'parts': {},
            'selftest': {}, 'known_findings_hit': [],
        }
        self._distinct = set()
        self.assumptions = []
        self.violations = 0
        self._known_printed = set()
        self._viol_printed = 0
        self.scratch = pathlib.Path(tempfile.mkdtemp(prefix=f'verif_{pid}_',
                                                      dir=os.environ.get('VERIF_SCRATCH_ROOT', '/var/tmp')))
        os.environ['VERIF_SCRATCH'] = str(self.scratch)
        with open(FINDINGS) as f:
            self.findings = json.load(f)['findings']

    # ------------------------------------------------------------------ evidence
    def add_tlc(self, name, res, impl_traces=0):
        self.cov['states'] += res.distinct
        self.cov['transitions'] += res.generated
        self.cov['traces_validated_against_impl'] += impl_traces
        self.cov['tlc_runs'].append({'run': name, 'distinct': res.distinct,
                                     'generated': res.generated, 'wall_s': round(res.wall, 2),
                                     'impl_traces': impl_traces})

    def count(self, case=None, nontrivial=True, n=1):
        """one evaluated case; `case` (json-able) is used for distinctness."""
        self.cov['evaluations'] += n
        if case is not None and nontrivial:
            h = hashlib.md5(canon(case).encode()).hexdigest()
            self._distinct.add(h)

    def sample(self, s, limit=6):
        if len(self.cov['samples']) < limit:
            self.cov['samples'].append(s)

    def part(self, name, **kw):
        d = self.cov['parts'].setdefault(name, {})
        for k, v in kw.items():
            if isinstance(v, (int, float)) and not isinstance(v, bool) and k in d:
                d[k] += v
            else:
                d[k] = v

    # ------------------------------------------------------------------ verdicts
    def report(self, signature, what, replay=None):
        """A real disagreement between code and spec.  `signature` identifies the failing
        input class / call site.  Listed known findings print KNOWN-FINDING, anything else
        is a VIOLATION with a replay directory."""
        for f in self.findings:
            if f['property'] == self.pid and f.get('status') == 'known' and \
                    f['signature'] == signature:
                if signature not in self._known_printed:
                    self._known_printed.add(signature)
                    print(f'KNOWN-FINDING: property={self.pid} {f["description"]} '
                          f'[{signature}]', flush=True)
                    self.cov['known_findings_hit'].append(signature)
                return False
        self.violations += 1
        if self._viol_printed < 10:
            self._viol_printed += 1
            rp = self.save_replay(signature, what, replay)
            # extension suites (X..: behaviour outside the 20 listed statements) report disagreements
            # under their own tag: they are not claims about a listed property
            tag = 'VIOLATION property' if not self.pid.startswith('X') else 'DISAGREEMENT suite'
            print(f'{tag}={self.pid} replay={rp}', flush=True)
            print(f'  what: {what}'[:2000], flush=True)
        return True

    def save_replay(self, signature, what, replay):
        d = REPLAY_DIR / self.pid / f'{int(time.time())}_{self.violations}'
        d.mkdir(parents=True, exist_ok=True)
        with open(d / 'replay.json', 'w') as f:
            json.dump({'property': self.pid, 'signature': signature, 'what': what,
                       'seed': self.seed, 'tier': self.tier, 'case': replay},
                      f, indent=1, default=str)
        return str(d)

    # ------------------------------------------------------------------ finish
    def finish(self):
        self.cov['distinct_nontrivial'] = len(self._distinct)
        ev = {
            'property_id': self.pid, 'tier': self.tier, 'seed': self.seed, 'level': self.level,
            'coverage': self.cov, 'assumptions': self.assumptions,
            'wall_s': round(time.time() - self.t0, 2), 'violations': self.violations,
        }
        edir = EVIDENCE_DIR if not self.pid.startswith('X') else ROOT / 'evidence_ext'
        if getattr(self, 'partial', False):
            # a --part / --replay run covers only a piece of the check: it must not replace the evidence
            # record of the last full run
            edir = ROOT / 'evidence_partial'
        edir.mkdir(exist_ok=True)
        with open(edir / f'{self.pid}.json', 'w') as f:
            json.dump(ev, f, indent=1, default=str)
        shutil.rmtree(self.scratch, ignore_errors=True)
        return 1 if self.violations else 0

    def tmpdir(self, prefix='d_'):
        return pathlib.Path(tempfile.mkdtemp(prefix=prefix, dir=self.scratch))
