"""launch harness.runone jobs as subprocesses, in parallel"""
import concurrent.futures as cf
import json
import os
import subprocess
import sys
import tempfile

ROOT = os.path.dirname(os.path.dirname(os.path.abspath(__file__)))


def _launch(args):
    job, env_extra, wrapper, timeout = args
    d = tempfile.mkdtemp(prefix='job_', dir=job['workdir'])
    jp, op = os.path.join(d, 'job.json'), os.path.join(d, 'out.json')
    json.dump(job, open(jp, 'w'))
    env = dict(os.environ)
    env['PYTHONPATH'] = ROOT + ':' + env.get('PYTHONPATH', '')
    env['CELL_TYPE_MAPPER_VERIF'] = '1'
    env.update(env_extra or {})
    cmd = list(wrapper or []) + ['/venv/bin/python', '-W', 'ignore', '-m', 'harness.runone', jp, op]
    try:
        pr = subprocess.run(cmd, env=env, capture_output=True, text=True, timeout=timeout, cwd=ROOT)
    except subprocess.TimeoutExpired:
        return {'harness_error': f'timeout after {timeout}s: {cmd}'}
    if not os.path.exists(op):
        return {'harness_error': f'runone produced no output: rc={pr.returncode}\n{pr.stderr[-2000:]}'}
    out = json.load(open(op))
    out['job_dir'] = d
    return out


def run_jobs(ctx, jobs, jobs_parallel=12, timeout=300):
    """jobs: list of dict(job=..., env=..., wrapper=[...]).  Returns outputs in order."""
    from harness.tlc import MachineryError
    args = []
    for j in jobs:
        job = dict(j['job'])
        job.setdefault('workdir', str(ctx.scratch))
        args.append((job, j.get('env'), j.get('wrapper'), timeout))
    with cf.ThreadPoolExecutor(max_workers=jobs_parallel) as ex:
        outs = list(ex.map(_launch, args))
    for o in outs:
        if 'harness_error' in o:
            raise MachineryError('subprocess job failed:\n' + o['harness_error'])
    return outs


def _launch_stage(args):
    job, env_extra, timeout = args
    d = tempfile.mkdtemp(prefix='sjob_', dir=job['workdir'])
    jp, op = os.path.join(d, 'job.json'), os.path.join(d, 'out.json')
    job = dict(job)
    job.setdefault('trace_dir', os.path.join(d, 'hooks'))
    json.dump(job, open(jp, 'w'))
    env = dict(os.environ)
    env['PYTHONPATH'] = ROOT + ':' + env.get('PYTHONPATH', '')
    env['CELL_TYPE_MAPPER_VERIF'] = '1'
    env.update(env_extra or {})
    cmd = ['/venv/bin/python', '-W', 'ignore', '-m', 'harness.stagejob', jp, op]
    try:
        pr = subprocess.run(cmd, env=env, capture_output=True, text=True, timeout=timeout, cwd=ROOT)
    except subprocess.TimeoutExpired:
        return {'harness_error': f'timeout after {timeout}s: stage {job.get("stage")}'}
    if not os.path.exists(op):
        return {'harness_error': f'stagejob produced no output: rc={pr.returncode}\n{pr.stderr[-2000:]}'}
    out = json.load(open(op))
    out['job_dir'] = d
    out['trace_dir'] = job['trace_dir']
    return out


def run_stage_jobs(ctx, jobs, jobs_parallel=10, timeout=300):
    """jobs: list of dict(job={stage, args, plan,...}, env={...}); returns outputs in order"""
    from harness.tlc import MachineryError
    args = []
    for j in jobs:
        job = dict(j['job'])
        job.setdefault('workdir', str(ctx.scratch))
        args.append((job, j.get('env'), timeout))
    with cf.ThreadPoolExecutor(max_workers=jobs_parallel) as ex:
        outs = list(ex.map(_launch_stage, args))
    for o in outs:
        if 'harness_error' in o:
            raise MachineryError('stage job failed to run:\n' + o['harness_error'])
    return outs
