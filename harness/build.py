"""Materialise abstract mapping scenarios as files, run the real mapping stage with the
guarded hooks on, and project outputs / hook traces back to the abstract vocabulary.

Abstract scenario (all integers):
  tree    : TreeJson (see taxo.py), stored taxonomy
  G       : number of reference genes (ids 1..G, reference column order = id order)
  means   : {leaf: [int]*G}   log2CPM cluster means (n_cells=ncell[leaf], sum = mean*n)
  qgenes  : [gene id]         query column order (ids > G are genes unknown to the reference)
  Q       : [[int]]           query matrix rows (log2CPM, or raw counts when norm='raw')
  cells   : [cell id]         obs order
  markers : {"0/0" | "lev/node": [gene id]}   marker table as given to the run
  cfg     : {B, fnum, fden, K, chunk, P, flatten, drop, minm, seed, norm, enc}
"""
import contextlib
import gc
import sys
import glob
import hashlib
import io
import json
import os
import pathlib
import shutil
import tempfile
import traceback

import anndata
import h5py
import numpy as np
import pandas as pd
import scipy.sparse as sp

from harness import taxo


@contextlib.contextmanager
def redirect_fds(path):
    """OS-level redirection of stdout/stderr (inherited by forked workers)."""
    sys.stdout.flush()
    sys.stderr.flush()
    saved = os.dup(1), os.dup(2)
    fd = os.open(str(path), os.O_WRONLY | os.O_CREAT | os.O_APPEND, 0o644)
    try:
        os.dup2(fd, 1)
        os.dup2(fd, 2)
        yield
    finally:
        sys.stdout.flush()
        sys.stderr.flush()
        os.dup2(saved[0], 1)
        os.dup2(saved[1], 2)
        os.close(fd)
        os.close(saved[0])
        os.close(saved[1])


_ENS = None


def ens_table():
    """60 (symbol, Ensembl id) pairs of the package's mouse table, one symbol per id (scheme 'ensembl')"""
    global _ENS
    if _ENS is None:
        from cell_type_mapper.data.mouse_gene_id_lookup import mouse_gene_id_lookup
        seen, out = set(), []
        for sym in sorted(mouse_gene_id_lookup):
            e = mouse_gene_id_lookup[sym]
            if e in seen or not sym[0].isalpha() or sym.startswith('ENS') or not e.startswith('ENSMUSG'):
                continue
            seen.add(e)
            out.append((sym, e))
            if len(out) == 60:
                break
        _ENS = out
    return _ENS


def gene_name(g, scheme='structural'):
    if scheme == 'reversed':
        return f'ENS{999 - g:03d}'
    if scheme == 'ensembl':
        return ens_table()[g - 1][1]
    return f'g{g}'


def gene_id(name, scheme='structural'):
    if scheme == 'reversed':
        return 999 - int(name[3:])
    if scheme == 'ensembl':
        return [e for _, e in ens_table()].index(name) + 1
    return int(name[1:])


def query_gene_name(g, scheme, G):
    """name under which gene g is written in the QUERY file.  Scheme 'ensembl' (map_to_ensembl runs): a gene
    symbol, the Ensembl id or a versioned Ensembl id for reference genes; for genes the reference does not
    know an unmappable name or the symbol of an unrelated gene"""
    if scheme != 'ensembl':
        return gene_name(g, scheme)
    if g <= G:
        sym, ens = ens_table()[g - 1]
        return [sym, ens, ens + '.5'][g % 3]
    return f'mystery-{g}' if g % 2 else ens_table()[30 + g][0]


def write_h5ad(path, X, cell_names, gene_names, enc='dense', obs_extra=None, layer=None,
               dtype=None):
    obs = pd.DataFrame(obs_extra or {}, index=pd.Index(cell_names, name='cell_id'))
    var = pd.DataFrame(index=pd.Index(gene_names, name='gene'))
    X = np.asarray(X)
    if dtype is not None:
        X = X.astype(dtype)
    if enc == 'csr':
        X = sp.csr_matrix(X)
    elif enc == 'csc':
        X = sp.csc_matrix(X)
    chunks = None
    if isinstance(enc, str) and enc.startswith('dense_chunked'):
        # dense matrix stored in HDF5 chunks that are wider than tall: 'dense_chunked' -> (2, 5)
        chunks = (2, 5)
    if layer is None:
        a = anndata.AnnData(X=X, obs=obs, var=var)
    else:
        a = anndata.AnnData(X=None, obs=obs, var=var, layers={layer: X})
    a.write_h5ad(path)
    if chunks is not None:
        key = 'X' if layer is None else f'layers/{layer}'
        with h5py.File(path, 'a') as f:
            ds = f[key]
            data = ds[()]
            attrs = dict(ds.attrs)
            del f[key]
            new = f.create_dataset(key, data=data, chunks=tuple(min(c, n) for c, n in zip(chunks, data.shape)))
            for k, v in attrs.items():
                new.attrs[k] = v


def write_stats(path, tree_dict, means, gene_names, n_cells=None, extra=False):
    """hand-written precomputed-stats file: what the mapper reads (metadata, cluster_to_row,
    col_names, taxonomy_tree, n_cells, sum).  means: leaf name -> vector."""
    names = sorted(means.keys())
    # the file addresses its rows through its own table: rows are stored in REVERSE name order while the table
    # lists the names in ascending order, so neither sorted order nor position in the table gives the row
    c2r = {l: len(names) - 1 - i for i, l in enumerate(names)}
    leaves = sorted(names, key=lambda l: c2r[l])          # leaves[r] = cluster stored in row r
    n = np.array([(n_cells or {}).get(l, 1) for l in leaves])
    S = np.array([np.array(means[l], dtype=float) * n[i] for i, l in enumerate(leaves)])
    if S.ndim == 1:
        S = S.reshape((len(leaves), len(gene_names)))
    with h5py.File(path, 'w') as f:
        f.create_dataset('metadata', data=json.dumps({}).encode())
        f.create_dataset('cluster_to_row', data=json.dumps(c2r).encode())
        f.create_dataset('col_names', data=json.dumps(list(gene_names)).encode())
        f.create_dataset('taxonomy_tree', data=json.dumps(tree_dict).encode())
        f.create_dataset('n_cells', data=n)
        f.create_dataset('sum', data=S)


def mapping_config(d, query, stats, markers, cfg):
    d = pathlib.Path(d)
    (d / 'scratch').mkdir(exist_ok=True)
    (d / 'out').mkdir(exist_ok=True)
    ta = {'bootstrap_iteration': cfg.get('B', 10),
          'bootstrap_factor': cfg.get('fnum', 9) / cfg.get('fden', 10),
          'bootstrap_factor_lookup': None, 'chunk_size': cfg.get('chunk', 4),
          'normalization': cfg.get('norm', 'log2CPM'), 'rng_seed': cfg.get('seed', 5),
          'n_runners_up': cfg.get('K', 2), 'min_markers': cfg.get('minm', 1),
          'n_processors': cfg.get('P', 2)}
    top = {'query_path': str(query), 'extended_result_path': str(d / 'out' / 'res.json'),
           'csv_result_path': str(d / 'out' / 'res.csv'),
           'hdf5_result_path': str(d / 'out' / 'res.h5'),
           'summary_metadata_path': None, 'obsm_key': None, 'obsm_clobber': False,
           'extended_result_dir': None, 'tmp_dir': str(d / 'scratch'),
           'log_path': str(d / 'out' / 'log.txt'), 'drop_level': None,
           'flatten': bool(cfg.get('flatten', False)), 'max_gb': cfg.get('max_gb', 1.0),
           'cloud_safe': cfg.get('cloud_safe', True), 'map_to_ensembl': False,
           'precomputed_stats': {'path': str(stats)},
           'query_markers': {'serialized_lookup': str(markers)},
           'type_assignment': ta}
    return top


def materialise(scn, d, scheme='structural', name_tables=False):
    """write stats / query / marker files for the abstract scenario; returns run config"""
    d = pathlib.Path(d)
    nm = taxo.Naming(scheme)
    tj = scn['tree']
    tree = taxo.dict_from_tree(tj, nm)
    leaf = tj['hier'][-1]
    if name_tables:
        tree['name_mapper'] = {
            # taxonomies with an odd number of leaves store their aliases as JSON numbers (the way cluster_alias is typed
            # in the ABC atlas tables) counted from 0, the others as text
            nm.level(l): {nm.node(l, n): {'name': f'nm{l} "{nm.node(l, n)}", x',
                                          'alias': (n - 1 if len(tj['nodes'][-1]) % 2 else f'a{l}{n}')}
                          for n in tj['nodes'][i]} for i, l in enumerate(tj['hier'])}
        tree['hierarchy_mapper'] = {nm.level(l): f'H{l}' for l in tj['hier']}
    G = scn['G']
    ref_genes = [gene_name(g, scheme) for g in range(1, G + 1)]
    means = {nm.node(leaf, int(k)): v for k, v in scn['means'].items()}
    ncell = {nm.node(leaf, int(k)): v for k, v in scn.get('ncell', {}).items()}
    write_stats(d / 'stats.h5', tree, means, ref_genes, n_cells=ncell)
    cfg = scn['cfg']
    Q = np.array(scn.get('Qf', scn['Q']), dtype=float).reshape((len(scn['cells']), len(scn['qgenes'])))
    write_h5ad(d / 'q.h5ad', Q, [nm.cell(c) for c in scn['cells']],
               [query_gene_name(g, scheme, G) for g in scn['qgenes']], cfg.get('enc', 'dense'), dtype=cfg.get('qdtype'))
    mk = {}
    for k, v in scn['markers'].items():
        l, n = [int(x) for x in k.split('/')]
        key = 'None' if (l, n) == (0, 0) else f'{nm.level(l)}/{nm.node(l, n)}'
        mk[key] = [gene_name(g, scheme) for g in v]
    json.dump(mk, open(d / 'm.json', 'w'))
    conf = mapping_config(d, d / 'q.h5ad', d / 'stats.h5', d / 'm.json', cfg)
    if cfg.get('drop') is not None:
        conf['drop_level'] = nm.level(cfg['drop'])
    if cfg.get('drop_name') == 'prefix-of-top':
        # a level name that is not in the hierarchy but is a proper prefix of one that is
        conf['drop_level'] = nm.level(tj['hier'][0])[:-1] or 'no_such_level'
    elif cfg.get('drop_name') == 'top-with-blank':
        conf['drop_level'] = nm.level(tj['hier'][0]) + ' '        # not a level: the blank belongs to the name
    elif cfg.get('drop_name') == 'blank-top':
        conf['drop_level'] = ' ' + nm.level(tj['hier'][0])
    elif cfg.get('drop_name'):
        conf['drop_level'] = cfg['drop_name']
    if scheme == 'ensembl':
        conf['map_to_ensembl'] = True
        conf['summary_metadata_path'] = str(d / 'out' / 'summary.json')
    if cfg.get('flookup'):
        # per-level bootstrap factors: list of [level name or 'None', factor]
        conf['type_assignment']['bootstrap_factor_lookup'] = [
            ['None' if int(k) == 0 else nm.level(int(k)), v[0] / v[1]] for k, v in sorted(cfg['flookup'].items())]
    return conf


def read_traces(trace_dir):
    """hook events grouped by pid, each list in seq order"""
    out = {}
    for p in glob.glob(os.path.join(trace_dir, 'trace.*.ndjson')):
        evs = [json.loads(l) for l in open(p) if l.strip()]
        evs.sort(key=lambda e: e['seq'])
        if evs:
            out[evs[0]['pid']] = evs
    return out


def run_mapping(conf, trace_dir=None, plan=None):
    """run the real mapping stage in this process (workers are forked by the package).
    returns dict(ok, error, stdout, traces)."""
    from cell_type_mapper.cli.from_specified_markers import run_mapping as real
    old = {k: os.environ.get(k) for k in ('CELL_TYPE_MAPPER_VERIF_DIR', 'CELL_TYPE_MAPPER_VERIF_PLAN')}
    if trace_dir is not None:
        os.makedirs(trace_dir, exist_ok=True)
        os.environ['CELL_TYPE_MAPPER_VERIF_DIR'] = str(trace_dir)
    if plan is not None:
        os.environ['CELL_TYPE_MAPPER_VERIF_PLAN'] = str(plan)
    else:
        os.environ.pop('CELL_TYPE_MAPPER_VERIF_PLAN', None)
    res = {'ok': True, 'error': None}
    capture = pathlib.Path(trace_dir or tempfile.mkdtemp()) / 'stdio.txt'
    try:
        with redirect_fds(capture):
            try:
                real(conf, output_path=conf['extended_result_path'], log_path=conf['log_path'],
                     hdf5_output_path=conf['hdf5_result_path'])
            except BaseException as e:       # noqa
                res['ok'] = False
                res['error'] = f'{type(e).__name__}: {e}'
                res['traceback'] = traceback.format_exc()
                del e
            gc.collect()
    finally:
        for k, v in old.items():
            if v is None:
                os.environ.pop(k, None)
            else:
                os.environ[k] = v
    try:
        res['stdout'] = open(capture).read()
    except OSError:
        res['stdout'] = ''
    res['traces'] = read_traces(trace_dir) if trace_dir else {}
    return res


def run_scenario(scn, workdir, scheme='structural', name_tables=False, plan=None, keep=False,
                 damage=None):
    """materialise + run + load outputs.  Returns dict with conf, ok, error, json (parsed
    extended output or None), traces, dir."""
    d = pathlib.Path(tempfile.mkdtemp(prefix='run_', dir=workdir))
    conf = materialise(scn, d, scheme, name_tables)
    extra = None
    if damage and '+' in damage:
        extra, damage = damage.split('+', 1)          # e.g. 'no_tmp_dir+missing_out_dir' (X15)
    if extra == 'no_tmp_dir':
        conf['tmp_dir'] = None
        conf['extended_result_dir'] = str(d / 'out')
    if damage == 'missing_out_dir':
        # the result file is asked for in a directory that does not exist: the run must stop - and tidy up
        conf['extended_result_path'] = str(d / 'out' / 'run_08' / 'res.json')
    if damage == 'missing_log_dir':
        conf['log_path'] = str(d / 'out' / 'run_09' / 'log.txt')
    if damage == 'missing_csv_dir':
        conf['csv_result_path'] = str(d / 'out' / 'run_07' / 'tables' / 'res.csv')
    if damage == 'long_csv_name':
        # a file name no file system accepts, inside the existing output directory
        conf['csv_result_path'] = str(d / 'out' / ('r' * 300 + '.csv'))
    if damage == 'stats_without_sum':
        with h5py.File(conf['precomputed_stats']['path'], 'a') as f:
            del f['sum']
    if damage == 'obsm_taken':
        a = anndata.read_h5ad(conf['query_path'])
        a.obsm['ctm'] = np.zeros((a.n_obs, 2))
        a.write_h5ad(conf['query_path'])
        conf['obsm_key'] = 'ctm'
        conf['obsm_clobber'] = False
    if damage == 'no_log_file':
        conf['log_path'] = None              # no separate log file: the log only travels inside the outputs
    if damage == 'no_tmp_dir':
        # no scratch directory configured: the result buffer is created in extended_result_dir
        conf['tmp_dir'] = None
        conf['extended_result_dir'] = str(d / 'out')
    if damage == 'odd_spelling':
        # the same files, spelled the way gluing '<dir>/' and '/sub/file' spells them ('//', '/./')
        def _odd(p):
            parent, base = os.path.split(str(p))
            pp, pb = os.path.split(parent)
            return pp + '//' + pb + '/./' + base
        for k in ('query_path', 'extended_result_path', 'csv_result_path', 'hdf5_result_path', 'log_path'):
            if conf.get(k):
                conf[k] = _odd(conf[k])
        conf['precomputed_stats']['path'] = _odd(conf['precomputed_stats']['path'])
        conf['query_markers']['serialized_lookup'] = _odd(conf['query_markers']['serialized_lookup'])
    toplevel = None
    if damage in ('toplevel', 'toplevel_missing_query'):
        # a container layout: results written straight below a top-level directory, which is also the scratch space
        import uuid
        toplevel = f'/tmp/ctmv_{uuid.uuid4().hex}'
        std = {'extended_result_path': 'res.json', 'csv_result_path': 'res.csv', 'hdf5_result_path': 'res.h5',
               'log_path': 'log.txt'}
        for k, nm in std.items():
            conf[k] = f'{toplevel}_{nm}'
        conf['tmp_dir'] = '/tmp'
        (d / 'toplevel_tag.txt').write_text(toplevel)
        if damage == 'toplevel_missing_query':
            conf['query_path'] = f'{toplevel}_query_not_there.h5ad'
    if damage == 'missing_query':
        os.unlink(conf['query_path'])
    elif damage == 'corrupt_query':
        with open(conf['query_path'], 'wb') as f:
            f.write(b'this is not an hdf5 file')
    r = run_mapping(conf, trace_dir=d / 'trace', plan=plan)
    if toplevel is not None:
        # bring the outputs to where every other run has them (the scanner is told the tag); nothing stays in /tmp
        import glob
        for k, nm in std.items():
            if os.path.exists(conf[k]):
                shutil.move(conf[k], str(d / 'out' / nm))
            conf[k] = str(d / 'out' / nm)
        for left in glob.glob(toplevel + '*'):
            os.unlink(left)
    r['conf'] = conf
    r['dir'] = str(d)
    r['scheme'] = scheme
    try:
        r['json'] = json.load(open(conf['extended_result_path']))
    except Exception:
        r['json'] = None
    r['scratch_left'] = sorted(str(p.relative_to(d / 'scratch')) for p in (d / 'scratch').rglob('*'))
    return r


# ---------------------------------------------------------------------------
# projection of outputs / hook traces to the abstract vocabulary
def parent_key(parent, nm, hier):
    """hook 'parent' field (None or [level, node]) -> [lev, node] ints"""
    if parent is None:
        return [0, 0]
    l = nm.inv_level(parent[0], hier)
    return [l, nm.inv_node(l, parent[1])]


def project_results(js, scn, scheme):
    """'results' of the extended JSON -> list of {id, levels: {lev: rec}} with abstract names.
    rec = {a, p, c, agg, direct, ru:[[node, p, c]...] or None}"""
    nm = taxo.Naming(scheme)
    hier = scn['tree']['hier']
    out = []
    for rec in js['results']:
        r = {'id': nm.inv_cell(rec['cell_id']), 'levels': {}, 'extra_keys': []}
        for k, v in rec.items():
            if k == 'cell_id':
                continue
            try:
                l = nm.inv_level(k, hier)
            except KeyError:
                r['extra_keys'].append(k)
                continue
            e = {'a': nm.inv_node(l, v['assignment']),
                 'p': v.get('bootstrapping_probability'),
                 'c': v.get('avg_correlation'),
                 'agg': v.get('aggregate_probability'),
                 'direct': v.get('directly_assigned'),
                 'ru': None}
            if 'runner_up_assignment' in v:
                ra = v['runner_up_assignment']
                rp = v.get('runner_up_probability', [])
                rc = v.get('runner_up_correlation', [])
                e['ru'] = [[nm.inv_node(l, a) for a in ra], list(rp), list(rc)]
            r['levels'][l] = e
        out.append(r)
    return out


def digest(obj):
    return hashlib.sha256(json.dumps(obj, sort_keys=True).encode()).hexdigest()
