"""argschema / marshmallow are installed in versions that do not fit together in this sandbox: marshmallow 3.12 calls
pre-load hooks with keyword arguments that argschema's DefaultSchema.make_object does not accept, so no ArgSchemaParser
can be constructed.  install() replaces that one hook by an equivalent that accepts them (the package's sources are not
touched); with it the command-line runner classes of cell_type_mapper/cli can be constructed and run from input_data."""
_done = False


def install():
    global _done
    if _done:
        return
    import marshmallow as mm
    import argschema.schemas as S
    orig = S.DefaultSchema.make_object

    def make_object(self, in_data, **kwargs):
        for name, field in self.fields.items():
            if name not in in_data:
                d = getattr(field, 'default', mm.missing)
                if d is mm.missing:
                    d = getattr(field, 'load_default', mm.missing)
                if d is not mm.missing:
                    in_data[name] = d
        return in_data
    for a in dir(orig):
        if 'marshmallow' in a:
            setattr(make_object, a, getattr(orig, a))
    S.DefaultSchema.make_object = make_object
    _done = True
