import argparse
import importlib
import os
import sys
import traceback

from harness.core import Ctx
from harness.tlc import MachineryError


def main():
    ap = argparse.ArgumentParser()
    ap.add_argument('pid')
    ap.add_argument('--tier', default=os.environ.get('VERIF_TIER', 'quick'),
                    choices=['quick', 'thorough'])
    ap.add_argument('--replay', default=None)
    ap.add_argument('--selftest', action='store_true')
    ap.add_argument('--part', default=None, help='run only one part of the check (debugging)')
    a = ap.parse_args()
    seed = int(os.environ.get('VERIF_SEED', '0'))
    pid = a.pid.upper()
    try:
        mod = importlib.import_module(f'harness.checks.{pid.lower()}')
    except ImportError:
        traceback.print_exc()
        print(f'no check for {pid}')
        sys.exit(2)
    ctx = Ctx(pid, a.tier, seed)
    ctx.only = a.part
    ctx.partial = bool(a.part or a.replay or os.environ.get('VERIF_SCRATCH_EVIDENCE'))
    ctx.selftest = a.selftest
    try:
        if a.replay:
            mod.replay(ctx, a.replay)
        else:
            mod.run(ctx)
    except MachineryError as e:
        print(f'MACHINERY-FAILURE {pid}: {e}', file=sys.stderr)
        import shutil
        shutil.rmtree(ctx.scratch, ignore_errors=True)
        sys.exit(2)
    except Exception:
        traceback.print_exc()
        print(f'MACHINERY-FAILURE {pid}: unexpected exception in harness', file=sys.stderr)
        import shutil
        shutil.rmtree(ctx.scratch, ignore_errors=True)
        sys.exit(2)
    rc = ctx.finish()
    c = ctx.cov
    print(f'{pid} tier={a.tier} seed={seed}: states={c["states"]} transitions={c["transitions"]} '
          f'impl_traces={c["traces_validated_against_impl"]} evaluations={c["evaluations"]} '
          f'distinct={c["distinct_nontrivial"]} violations={ctx.violations} '
          f'known={len(c["known_findings_hit"])} wall={ctx.cov and round(__import__("time").time()-ctx.t0,1)}s')
    sys.exit(rc)


if __name__ == '__main__':
    main()
