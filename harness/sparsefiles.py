"""C13 part 2: file-level sparse operations against the SparseOps.tla scenarios, and trace
validation of the transposition loop nest on larger matrices."""
import concurrent.futures as cf
import json
import os
import shutil
import tempfile
import warnings

import anndata
import h5py
import numpy as np
import pandas as pd
import scipy.sparse as sp

from harness.tlc import run_tlc, MachineryError


def _write(path, M, enc, layer=None):
    M = np.array(M, dtype=np.float32)
    obs = pd.DataFrame(index=pd.Index([f'c{i}' for i in range(M.shape[0])], name='cell_id'))
    var = pd.DataFrame(index=pd.Index([f'g{j}' for j in range(M.shape[1])], name='gene'))
    X = sp.csr_matrix(M) if enc == 'csr' else sp.csc_matrix(M) if enc == 'csc' else M
    if layer:
        a = anndata.AnnData(X=sp.csr_matrix(np.zeros_like(M)), obs=obs, var=var, layers={layer: X})
    else:
        a = anndata.AnnData(X=X, obs=obs, var=var)
    a.write_h5ad(path)
    return obs, var


def _dense(path):
    a = anndata.read_h5ad(path)
    X = a.X
    enc = type(X).__name__
    if sp.issparse(X):
        X = X.toarray()
    return np.asarray(X), list(a.obs.index), list(a.var.index), enc


def _sig(e, what, empty):
    chunk_err = isinstance(e, ValueError) and ('hunk' in str(e) or 'zero-size array' in str(e))
    if chunk_err and empty:
        return f'files:{what}:no-stored-entry'
    return f'files:{what}:unexpected-exception'


def _file_case(args):
    s, quick, wd, seed = args
    from cell_type_mapper.utils.anndata_utils import (
        pivot_csr_h5ad, shuffle_csr_h5ad_rows, subset_csc_h5ad_columns, amalgamate_h5ad, copy_layer_to_x)
    from harness.build import redirect_fds
    import random
    rng = random.Random(seed)
    out = []
    n = 0
    d = tempfile.mkdtemp(dir=wd)
    M = np.array(s['matrix'], dtype=np.float32)
    M2 = np.array(s['matrix2'], dtype=np.float32)
    A, B = M.shape
    try:
        with warnings.catch_warnings(), redirect_fds(os.path.join(d, 'stdio.txt')):
            warnings.simplefilter('ignore')
            src = os.path.join(d, 'src_csr.h5ad')
            obs, var = _write(src, M, 'csr')
            src2 = os.path.join(d, 'src2_csr.h5ad')
            _write(src2, M2, 'csr')
            # one file that holds the first matrix in X and the second in a layer
            import anndata as _ad
            both = os.path.join(d, 'both.h5ad')
            _ad.AnnData(X=sp.csr_matrix(M), obs=obs, var=var, layers={'alt': sp.csr_matrix(M2)}).write_h5ad(both)
            # ---- pivot CSR -> CSC
            for P in ((2,) if quick else (1, 2, 3)):
                n += 1
                dst = os.path.join(d, 'pivot.h5ad')
                try:
                    pivot_csr_h5ad(src_path=src, dst_path=dst, tmp_dir=d, n_processors=P, max_gb=1)
                    X, o, v, enc = _dense(dst)
                    if not np.array_equal(X, M) or o != list(obs.index) or v != list(var.index) or 'csc' not in enc.lower():
                        out.append(('files:pivot:wrong-result', f'P={P} matrix={s["matrix"]} got {X.tolist()} enc={enc}'))
                except Exception as e:
                    out.append((_sig(e, 'pivot', M.sum() == 0 or True), f'P={P} matrix={s["matrix"]}: {type(e).__name__}: {e}'))
            # ---- row shuffle
            sh = s['shuffles'] if not quick else rng.sample(s['shuffles'], 2)
            for c in sh:
                n += 1
                dst = os.path.join(d, 'shuf.h5ad')
                try:
                    shuffle_csr_h5ad_rows(src_path=src, dst_path=dst, new_row_order=np.array(c['perm']) - 1)
                    X, o, v, enc = _dense(dst)
                    want_obs = [f'c{i - 1}' for i in c['perm']]
                    if not np.array_equal(X, np.array(c['result'])) or o != want_obs or v != list(var.index):
                        out.append(('files:shuffle:wrong-result', f'perm={c["perm"]} matrix={s["matrix"]} got {X.tolist()} obs={o}'))
                except Exception as e:
                    out.append((_sig(e, 'shuffle', M.sum() == 0), f'perm={c["perm"]} matrix={s["matrix"]}: {type(e).__name__}: {e}'))
            # ---- column subset of a CSC file
            srcc = os.path.join(d, 'src_csc.h5ad')
            _write(srcc, M, 'csc')
            ss = s['subsets'] if not quick else rng.sample(s['subsets'], 3)
            for c in ss:
                n += 1
                dst = os.path.join(d, 'sub.h5ad')
                cols = list(c['cols'])
                rng.shuffle(cols)
                try:
                    subset_csc_h5ad_columns(src_path=srcc, dst_path=dst, chosen_columns=np.array(cols) - 1)
                    X, o, v, enc = _dense(dst)
                    want = np.array(c['result'], dtype=np.float32).reshape((A, len(c['cols'])))
                    want_var = [f'g{j - 1}' for j in sorted(c['cols'])]
                    # column order is not promised: compare by gene name
                    ok = sorted(v) == sorted(want_var) and o == list(obs.index)
                    if ok:
                        col_of = {g: i for i, g in enumerate(v)}
                        Xs = X[:, [col_of[g] for g in want_var]]
                        ok = np.array_equal(Xs, want)
                    if not ok:
                        out.append(('files:subset:wrong-result', f'cols={c["cols"]} matrix={s["matrix"]} got {X.tolist()} var={v}'))
                except Exception as e:
                    empty = np.array(c['result']).sum() == 0
                    out.append((_sig(e, 'subset', empty), f'cols={c["cols"]} matrix={s["matrix"]}: {type(e).__name__}: {e}'))
            # ---- stacking row selections from two files
            st = s['stacks'] if not quick else rng.sample(s['stacks'], 4)
            for c in st:
                for sparse_out, one_file in ((True, False), (False, False), (True, True), (False, True)):
                    n += 1
                    dst = os.path.join(d, 'amal.h5ad')
                    rows_spec, names = [], []
                    for fidx, rows in c['sel']:
                        if not rows:
                            continue
                        if one_file:
                            # both selections come from ONE file: X and the layer
                            rows_spec.append({'path': both, 'rows': [r - 1 for r in rows],
                                              'layer': 'X' if fidx == 1 else 'alt'})
                        else:
                            rows_spec.append({'path': src if fidx == 1 else src2, 'rows': [r - 1 for r in rows], 'layer': 'X'})
                        names += [f'f{fidx}_c{r - 1}_{len(names) + k}' for k, r in enumerate(rows)]
                    want = np.array(c['result'], dtype=np.float32).reshape((len(names), B))
                    try:
                        amalgamate_h5ad(src_rows=rows_spec, dst_path=dst,
                                        dst_obs=pd.DataFrame(index=pd.Index(names, name='cell_id')),
                                        dst_var=var, dst_sparse=sparse_out, tmp_dir=d)
                        X, o, v, enc = _dense(dst)
                        if not np.array_equal(X, want) or o != names or v != list(var.index):
                            out.append(('files:amalgamate:wrong-result',
                                        f'sel={c["sel"]} sparse={sparse_out} one_file={one_file} matrix={s["matrix"]} '
                                        f'matrix2={s["matrix2"]} got {X.tolist()}'))
                    except Exception as e:
                        # a selection (piece) without any stored value
                        empty = any((M if f == 1 else M2)[[r - 1 for r in rows]].sum() == 0
                                    for f, rows in c['sel'] if rows)
                        out.append((_sig(e, 'amalgamate', empty and sparse_out),
                                    f'sel={c["sel"]} sparse={sparse_out} matrix={s["matrix"]}: {type(e).__name__}: {e}'))
            # ---- copy a layer into X
            from harness.checks.c05 import write_matrix
            for enc, layout in (('csr', 'default'), ('csc', 'default'), ('dense', 'default'),
                                ('csr', 'tiny'), ('csc', 'tiny'), ('dense', 'tiny'),
                                ('csr', 'contiguous'), ('csc', 'contiguous'), ('dense', 'contiguous')):
                n += 1
                srcl = os.path.join(d, f'layer_{enc}_{layout}.h5ad')
                if layout == 'default':
                    _write(srcl, M, enc, layer='counts')
                else:
                    # every dataset of the layer stored in several one-element HDF5 chunks / without chunks
                    write_matrix(srcl, M, enc, 'counts', 'float32', layout)
                dst = os.path.join(d, 'copied.h5ad')
                try:
                    copy_layer_to_x(original_h5ad_path=srcl, new_h5ad_path=dst, layer='counts')
                    X, o, v, e2 = _dense(dst)
                    if not np.array_equal(X, M) or o != list(obs.index) or v != list(var.index):
                        out.append(('files:copy_layer:wrong-result', f'enc={enc} layout={layout} matrix={s["matrix"]} got {X.tolist()}'))
                except Exception as e:
                    out.append((_sig(e, 'copy_layer', M.sum() == 0 and enc != 'dense'),
                                f'enc={enc} matrix={s["matrix"]}: {type(e).__name__}: {e}'))
    finally:
        shutil.rmtree(d, ignore_errors=True)
    return out, n


def run_c13(ctx, quick, rng, wd):
    A, B = (3, 3) if quick else (3, 4)
    cfg = f'SPECIFICATION Spec\nCONSTANTS A = {A} B = {B}\nINVARIANT ShuffleIsPermutation\nINVARIANT SubsetKeepsRows\nCHECK_DEADLOCK FALSE\n'
    res = run_tlc('SparseOps', cfg_text=cfg, workers=1, timeout=3600)
    ctx.add_tlc(f'SparseOps_{A}x{B}', res)
    if res.violated:
        raise MachineryError(res.error_trace)
    scns = [json.loads(t[1]) for t in res.tuples('SCN')]
    # the corner patterns (no stored entry at all, every entry stored, a single entry) are always kept
    def corner(s_):
        k = sum(1 for r in s_['matrix'] for v in r if v)
        return k <= 1 or k == A * B
    keep = [s_ for s_ in scns if corner(s_)]
    rest = [s_ for s_ in scns if not corner(s_)]
    if quick:
        scns = keep + rng.sample(rest, 96 - min(96, len(keep)))
    elif len(scns) > 1200:
        scns = keep + rng.sample(rest, 1200 - len(keep))
    jobs = [(s, quick, wd, ctx.seed + i) for i, s in enumerate(scns)]
    with cf.ProcessPoolExecutor(max_workers=10) as ex:
        outs = list(ex.map(_file_case, jobs, chunksize=4))
    nbad = 0
    for s, (bad, n) in zip(scns, outs):
        ctx.count({'m': s['matrix']}, nontrivial=any(any(r) for r in s['matrix']))
        ctx.cov['evaluations'] += n - 1
        seen = set()
        for sig, msg in bad:
            if sig in seen:
                continue
            seen.add(sig)
            if ctx.report(sig, msg, {'scenario_matrix': s['matrix']}):
                nbad += 1
    # a layer large enough for anndata to store it in several HDF5 chunks by itself
    from cell_type_mapper.utils.anndata_utils import copy_layer_to_x
    for enc in ('csr', 'csc'):
        nr = np.random.default_rng(ctx.seed + 131)
        big = (nr.random((300, 120)) < 0.3) * nr.integers(1, 99, size=(300, 120))
        d = tempfile.mkdtemp(dir=wd)
        try:
            srcl = os.path.join(d, 'big.h5ad')
            _write(srcl, big, enc, layer='counts')
            dst = os.path.join(d, 'copied.h5ad')
            with warnings.catch_warnings():
                warnings.simplefilter('ignore')
                copy_layer_to_x(original_h5ad_path=srcl, new_h5ad_path=dst, layer='counts')
            X, o, v, e2 = _dense(dst)
            ctx.count({'big_layer': enc}, nontrivial=True)
            if not np.array_equal(X, big.astype(np.float32)):
                nbad += 1
                ctx.report('files:copy_layer:wrong-result', f'300x120 {enc} layer ({int((big != 0).sum())} stored '
                           f'values, natively chunked): copied X differs', {'big_layer': enc})
        finally:
            shutil.rmtree(d, ignore_errors=True)
    # two operations in a row on a matrix with more stored entries than rows: CSR -> CSC pivot, then a column subset of
    # the pivoted file (narrow index types chosen for the first file must not be inherited by counters of the second)
    from cell_type_mapper.utils.anndata_utils import pivot_csr_h5ad as _pivot, subset_csc_h5ad_columns as _subset
    for (A_, B_, P_) in ((60, 90, 2), (200, 40, 1), (10, 500, 3)):
        d = tempfile.mkdtemp(dir=wd)
        try:
            nr = np.random.default_rng(ctx.seed + A_)
            Mb = ((nr.random((A_, B_)) < 0.6) * nr.integers(1, 50, size=(A_, B_))).astype(np.float32)
            srcb = os.path.join(d, 'src.h5ad')
            _write(srcb, Mb, 'csr')
            piv, sub = os.path.join(d, 'pivoted.h5ad'), os.path.join(d, 'subset.h5ad')
            cols = sorted(nr.choice(B_, size=max(2, B_ // 2), replace=False).tolist())
            ctx.count({'pivot_then_subset': [A_, B_, P_]}, nontrivial=True)
            try:
                with warnings.catch_warnings():
                    warnings.simplefilter('ignore')
                    _pivot(src_path=srcb, dst_path=piv, tmp_dir=d, n_processors=P_, max_gb=1)
                    _subset(src_path=piv, dst_path=sub, chosen_columns=np.array(cols))
                X, o, v, enc = _dense(sub)
                col_of = {g: i for i, g in enumerate(v)}
                want_var = [f'g{j}' for j in cols]
                ok = sorted(v) == sorted(want_var) and X.shape == (A_, len(cols)) and \
                    np.array_equal(X[:, [col_of[g] for g in want_var]], Mb[:, cols])
                if not ok:
                    nbad += 1
                    ctx.report('files:subset:wrong-result', f'{A_}x{B_} matrix ({int((Mb != 0).sum())} stored values) pivoted to CSC '
                               f'and then cut down to {len(cols)} columns: the result differs from the same operations in memory',
                               {'pivot_then_subset': [A_, B_, P_]})
            except Exception as e:
                nbad += 1
                ctx.report('files:subset:unexpected-exception', f'{A_}x{B_} pivot then subset: {type(e).__name__}: {e}',
                           {'pivot_then_subset': [A_, B_, P_]})
        finally:
            shutil.rmtree(d, ignore_errors=True)
    # stacking sources of the same kind but different width (float32 + float64, int32 + int64), the narrower one first,
    # the wider one holding values the narrower type cannot represent: the stacked matrix is exact, or the call refuses
    from cell_type_mapper.utils.anndata_utils import amalgamate_h5ad
    for t1, t2, v2 in (('float32', 'float64', 1.0 + 2.0 ** -30), ('int32', 'int64', 2 ** 31 + 5),
                       ('float64', 'float32', 1.5), ('uint16', 'uint32', 70000)):
        for enc in ('csr', 'dense'):
            for sparse_out in (True, False):
                d = tempfile.mkdtemp(dir=wd)
                try:
                    A1 = np.array([[1, 0, 2], [0, 3, 0]], dtype=t1)
                    A2 = np.array([[0, v2, 0], [4, 0, v2]], dtype=t2)
                    obs1 = pd.DataFrame(index=pd.Index(['a0', 'a1'], name='cell_id'))
                    var = pd.DataFrame(index=pd.Index(['g0', 'g1', 'g2'], name='gene'))
                    p1, p2 = os.path.join(d, 's1.h5ad'), os.path.join(d, 's2.h5ad')
                    with warnings.catch_warnings():
                        warnings.simplefilter('ignore')
                        anndata.AnnData(X=sp.csr_matrix(A1) if enc == 'csr' else A1, obs=obs1, var=var).write_h5ad(p1)
                        anndata.AnnData(X=sp.csr_matrix(A2) if enc == 'csr' else A2, obs=obs1, var=var).write_h5ad(p2)
                    dst = os.path.join(d, 'stacked.h5ad')
                    ctx.count({'mixed_width': [t1, t2, enc, sparse_out]}, nontrivial=True)
                    try:
                        with warnings.catch_warnings():
                            warnings.simplefilter('ignore')
                            amalgamate_h5ad(src_rows=[{'path': p1, 'rows': [0, 1], 'layer': 'X'},
                                                      {'path': p2, 'rows': [1, 0], 'layer': 'X'}],
                                            dst_path=dst, dst_obs=pd.DataFrame(index=pd.Index(['r0', 'r1', 'r2', 'r3'],
                                                                                              name='cell_id')),
                                            dst_var=var, dst_sparse=sparse_out, tmp_dir=d)
                    except Exception:
                        continue                           # refused: nothing was promised
                    a = anndata.read_h5ad(dst)
                    X = a.X.toarray() if sp.issparse(a.X) else np.asarray(a.X)
                    want = np.vstack([A1.astype(np.float64), A2[[1, 0]].astype(np.float64)])
                    if X.shape != want.shape or not np.array_equal(X.astype(np.float64), want):
                        nbad += 1
                        ctx.report('files:amalgamate:wrong-result', f'stacking a {t1} file and a {t2} file ({enc}, sparse output '
                                   f'{sparse_out}) was accepted but the stacked matrix is {X.tolist()} instead of {want.tolist()}',
                                   {'mixed_width': [t1, t2, enc, sparse_out]})
                finally:
                    shutil.rmtree(d, ignore_errors=True)
    ctx.part('files', patterns=len(scns), disagreements=nbad)


def _trace_case(args):
    """one random matrix through the serial code with the hooks on; returns a Transpose_Trace line"""
    A, B, dens, sl, seed, wd = args
    import random
    from cell_type_mapper.utils.csc_to_csr import transpose_sparse_matrix_on_disk
    from harness import build
    from harness.checks.c13 import write_input
    rng = random.Random(seed)
    rows = [sorted(c for c in range(B) if rng.random() < dens) for _ in range(A)]
    d = tempfile.mkdtemp(dir=wd)
    os.environ['CELL_TYPE_MAPPER_VERIF_DIR'] = d
    src, dst = os.path.join(d, 'in.h5'), os.path.join(d, 'out.h5')
    with_data = seed % 3 != 0
    write_input(src, rows, B, with_data)
    lo, hi = sl
    with h5py.File(src, 'r') as f:
        transpose_sparse_matrix_on_disk(
            indices_handle=f['indices'], indptr_handle=f['indptr'],
            data_handle=f['data'] if with_data else None, indices_max=B, max_gb=1e-9,
            output_path=dst, verbose=False, indices_slice=None if (lo, hi) == (0, B) else (lo, hi))
    evs = [e for v in build.read_traces(d).values() for e in v]
    evs.sort(key=lambda e: e['seq'])
    start = [e for e in evs if e['ev'] == 'TrStart'][0]
    events = []
    for e in evs:
        if e['ev'] == 'TrBlock':
            events.append({'op': 'block', 'r0': e['r0'], 'r1': e['r1'], 'd0': e['d0'], 'd1': e['d1']})
        elif e['ev'] == 'TrLoad':
            events.append({'op': 'load', 'i0': e['i0'], 'i1': e['i1']})
    with h5py.File(dst, 'r') as f:
        end = {'op': 'end', 'indptr': f['indptr'][()].astype(int).tolist(),
               'indices': f['indices'][()].astype(int).tolist(),
               'data': f['data'][()].astype(int).tolist() if with_data else []}
    events.append(end)
    # independent oracle for the result: scipy
    M = np.zeros((A, B))
    k = 1
    for a, r in enumerate(rows):
        for c in r:
            M[a, c] = k
            k += 1
    T = sp.csr_matrix(M[:, lo:hi].T)
    T.sort_indices()
    scipy_ok = (T.indptr.tolist() == end['indptr'] and T.indices.tolist() == end['indices']
                and (not with_data or T.data.astype(int).tolist() == end['data']))
    shutil.rmtree(d, ignore_errors=True)
    return {'rows': rows, 'lo': lo, 'hi': hi, 'Ld': start['load_chunk_size'], 'El': start['elements_at_a_time'],
            'events': events, 'scipy_ok': scipy_ok, 'nnz': k - 1}


def _parallel_large_case(args):
    A, B, P, dens, seed, wd = args
    import random
    from cell_type_mapper.utils.csc_to_csr_parallel import transpose_sparse_matrix_on_disk_v2
    from harness import build
    from harness.checks.c13 import write_input, read_out
    rng = random.Random(seed)
    rows = [sorted(c for c in range(B) if rng.random() < dens) for _ in range(A)]
    d = tempfile.mkdtemp(dir=wd)
    try:
        src, dst = os.path.join(d, 'in.h5'), os.path.join(d, 'out.h5')
        write_input(src, rows, B, True)
        with build.redirect_fds(os.path.join(d, 'stdio.txt')):
            transpose_sparse_matrix_on_disk_v2(h5_path=src, indices_tag='indices', indptr_tag='indptr', data_tag='data',
                                               indices_max=B, max_gb=1, output_path=dst, tmp_dir=d, n_processors=P)
        got = read_out(dst, True)
        M = np.zeros((A, B))
        k = 1
        for a, r in enumerate(rows):
            for c in r:
                M[a, c] = k
                k += 1
        T = sp.csr_matrix(M.T)
        T.sort_indices()
        ok = (T.indptr.tolist() == list(got[0]) and T.indices.tolist() == list(got[1])
              and T.data.astype(int).tolist() == [int(x) for x in got[2]])
        return ok, None
    except Exception as e:
        return False, f'{type(e).__name__}: {e}'
    finally:
        shutil.rmtree(d, ignore_errors=True)


def _parallel_huge_case(args):
    """more than a million stored entries per worker (the join then copies every worker's result in several pieces),
    with and without a value array, against scipy"""
    A, B, P, with_data, seed, wd = args
    import h5py
    from cell_type_mapper.utils.csc_to_csr_parallel import transpose_sparse_matrix_on_disk_v2
    from harness import build
    nr = np.random.default_rng(seed)
    M = sp.csr_matrix((nr.random((A, B)) < 0.8).astype(np.int32))
    M.sort_indices()
    M.data = np.arange(1, M.nnz + 1, dtype=np.int64)
    d = tempfile.mkdtemp(dir=wd)
    try:
        src, dst = os.path.join(d, 'in.h5'), os.path.join(d, 'out.h5')
        with h5py.File(src, 'w') as f:
            f.create_dataset('indptr', data=M.indptr.astype(np.int64))
            f.create_dataset('indices', data=M.indices.astype(np.int64), chunks=(100000,))
            if with_data:
                f.create_dataset('data', data=M.data, chunks=(100000,))
        with build.redirect_fds(os.path.join(d, 'stdio.txt')):
            transpose_sparse_matrix_on_disk_v2(h5_path=src, indices_tag='indices', indptr_tag='indptr',
                                               data_tag='data' if with_data else None, indices_max=B, max_gb=1,
                                               output_path=dst, tmp_dir=d, n_processors=P)
        T = sp.csr_matrix(M.T)
        T.sort_indices()
        with h5py.File(dst, 'r') as f:
            ok = (np.array_equal(f['indptr'][()], T.indptr) and np.array_equal(f['indices'][()], T.indices)
                  and (not with_data or np.array_equal(f['data'][()], T.data)))
            nbad = int((f['indices'][()] != T.indices).sum()) if f['indices'].shape == T.indices.shape else -1
        return ok, (None if ok else f'{nbad} of {M.nnz} minor indices differ'), int(M.nnz)
    except Exception as e:
        return False, f'{type(e).__name__}: {e}', 0
    finally:
        shutil.rmtree(d, ignore_errors=True)


def run_c13_traces(ctx, quick, rng, wd):
    from harness.traces import _denull
    hj = [(1500, 2000, 2, False, ctx.seed + 77, wd)] if quick else \
         [(1500, 2000, 2, False, ctx.seed + 77, wd), (1500, 2000, 2, True, ctx.seed + 78, wd),
          (1200, 3000, 3, False, ctx.seed + 79, wd)]
    with cf.ProcessPoolExecutor(max_workers=3) as ex:
        houts = list(ex.map(_parallel_huge_case, hj))
    for (A_, B_, P_, wdata, sd, _), (ok, err, nnz) in zip(hj, houts):
        ctx.count({'parallel_huge': [A_, B_, P_, wdata, sd]}, nontrivial=True)
        if not ok:
            ctx.report('transpose:parallel-large:wrong-result', f'parallel transposition of a {A_}x{B_} pattern with {nnz} stored '
                       f'entries, {P_} workers, value array {wdata}: differs from scipy ({err})',
                       {'parallel_huge': [A_, B_, P_, wdata, sd]})
    ctx.part('parallel_huge', cases=len(hj), entries=[o[2] for o in houts])
    # parallel transposition of matrices whose worker ranges start at 0, 9, 18 / 0, 5, 10, 15 / 0, 50, 100 ...
    pj = [(7, B, P, 0.4, ctx.seed * 100 + i, wd)
          for i, (B, P) in enumerate([(25, 3), (20, 4), (150, 3), (12, 3), (101, 4), (30, 3)] if quick else
                                     [(B, P) for B in (11, 20, 25, 30, 99, 101, 150, 1001) for P in (2, 3, 4)])]
    with cf.ProcessPoolExecutor(max_workers=6) as ex:
        pouts = list(ex.map(_parallel_large_case, pj))
    for (A_, B_, P_, _, sd, _), (ok, err) in zip(pj, pouts):
        ctx.count({'parallel_large': [A_, B_, P_, sd]}, nontrivial=True)
        if not ok:
            ctx.report('transpose:parallel-large:wrong-result', f'parallel transposition of a {A_}x{B_} matrix with {P_} '
                       f'workers differs from scipy ({err})', {'parallel_large': [A_, B_, P_, sd]})
    ctx.part('parallel_large', cases=len(pj))
    A, B = 20, 20
    n = 10 if quick else 100
    jobs = []
    for i in range(n):
        dens = rng.choice([0.3, 0.45, 0.6, 0.85])
        lo = 0 if i % 2 == 0 else rng.randint(0, B - 2)
        hi = B if i % 2 == 0 else rng.randint(lo + 1, B)
        jobs.append((A, B, dens, (lo, hi), ctx.seed * 1000 + i, wd))
    with cf.ProcessPoolExecutor(max_workers=8) as ex:
        traces = list(ex.map(_trace_case, jobs))
    for t in traces:
        ctx.count({'rows': t['rows'], 'sl': [t['lo'], t['hi']]}, nontrivial=t['nnz'] > 100)
        if not t['scipy_ok']:
            ctx.report('transpose:large:wrong-result', f'result differs from scipy transpose: rows={t["rows"]} '
                       f'slice={(t["lo"], t["hi"])}', {'rows': t['rows'], 'lo': t['lo'], 'hi': t['hi']})
    text = '\n'.join(json.dumps(_denull(t)) for t in traces) + '\n'
    cfg = (f'SPECIFICATION TSpec\nCONSTANTS A = {A} B = {B} MaxLd = 1 MaxEl = 1 Slices = FALSE\n'
           'CONSTRAINT Track\nPOSTCONDITION Report\nCHECK_DEADLOCK FALSE\n')
    res = run_tlc('Transpose_Trace', cfg_text=cfg, env={'TRACE_FILE': 'trace.ndjson'}, workers=1,
                  timeout=7200, files={'trace.ndjson': text})
    verdicts = {v[1]: v for v in res.tuples('VERDICT')}
    if len(verdicts) != len(traces):
        raise MachineryError('Transpose_Trace: missing verdicts\n' + res.stdout[-2000:])
    ctx.add_tlc('Transpose_Trace', res, impl_traces=len(traces))
    rej = 0
    for i, t in enumerate(traces):
        v = verdicts[i + 1]
        if v[2] != v[3]:
            rej += 1
            ev = t['events'][v[2] - 1] if v[2] - 1 < len(t['events']) else None
            ctx.report(f'transpose:trace:{v[4]}', f'hook trace is not a behaviour of Transpose.tla: stopped at '
                       f'event {v[2]} ({str(ev)[:200]}), clause {v[4]}; Ld={t["Ld"]} El={t["El"]} nnz={t["nnz"]}',
                       {'rows': t['rows'], 'lo': t['lo'], 'hi': t['hi']})
    ctx.sample({'trace_events': traces[0]['events'][:8], 'Ld': traces[0]['Ld'], 'El': traces[0]['El'],
                'nnz': traces[0]['nnz']})
    ctx.part('c2s', traces=len(traces), rejected=rej,
             blocks=sum(1 for t in traces for e in t['events'] if e['op'] == 'block'),
             loads=sum(1 for t in traces for e in t['events'] if e['op'] == 'load'))
