"""Batched trace validation: many traces (one JSON object per line) in one TLC run.
The *_Trace.tla modules keep, per trace id, the furthest matched line in a TLC register and
print one VERDICT tuple per trace from a POSTCONDITION."""
import json

from harness.tlc import run_tlc, MachineryError


def _denull(x):
    """TLC's JSON module has no null: drop None-valued keys, replace None items by "" """
    if isinstance(x, dict):
        return {k: _denull(v) for k, v in x.items() if v is not None}
    if isinstance(x, (list, tuple)):
        return ["" if v is None else _denull(v) for v in x]
    return x


def validate(ctx, module, traces, name, cfg=None, timeout=3600, env=None, files=None,
             counts_as_impl=True, deque=False):
    """traces: list of dicts with an 'events' list.  Returns list of verdict dicts
    {tid, reached, need, accepted, inv}.  Raises MachineryError when TLC fails."""
    if not traces:
        return []
    text = '\n'.join(json.dumps(_denull(t)) for t in traces) + '\n'
    f = {'trace.ndjson': text}
    f.update(files or {})
    e = {'TRACE_FILE': 'trace.ndjson'}
    e.update(env or {})
    res = run_tlc(module, cfg=cfg, env=e, workers=1, timeout=timeout, files=f, deque=deque)
    verdicts = {}
    for v in res.tuples('VERDICT'):
        tid = v[1]
        verdicts[tid] = {'tid': tid, 'reached': v[2], 'need': v[3],
                         'accepted': v[2] == v[3], 'inv': v[4] if len(v) > 4 else 0}
    if len(verdicts) != len(traces):
        raise MachineryError(f'{module}: {len(verdicts)} verdicts for {len(traces)} traces\n'
                             + res.stdout[-3000:])
    ctx.add_tlc(name, res, impl_traces=len(traces) if counts_as_impl else 0)
    ctx.last_tlc = res
    return [verdicts[i + 1] for i in range(len(traces))]
