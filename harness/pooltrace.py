"""WorkerPool traces of real mapping runs and schedule / fault plans."""
import json
import math


def chunk_starts(scn):
    n = len(scn['cells'])
    P = scn['cfg']['P']
    clen = min(max(1, math.ceil(n / P)), scn['cfg']['chunk'])
    return list(range(0, n, clen)), clen


def order_plan(scn, order):
    """force the order in which chunk results are stored: order = list of chunk numbers 1..N"""
    starts, _ = chunk_starts(scn)
    rules = []
    for i, k in enumerate(order):
        r0 = starts[k - 1]
        if i > 0:
            rules.append({'point': 'map.mid', 'match': {'r0': r0}, 'wait_for': [f'stored.{order[i - 1]}'],
                          'timeout': 60})
        rules.append({'point': 'map.after', 'match': {'r0': r0}, 'write': f'stored.{k}'})
    return {'rules': rules}


def fault_plan(scn, k, point, mode):
    starts, _ = chunk_starts(scn)
    return {'rules': [{'point': f'map.{point}', 'match': {'r0': starts[k - 1]}, 'fault': mode}]}


def pool_trace(scn, out, fault=None):
    """parent hook events + what the run left -> WorkerPool_Trace line"""
    starts, _ = chunk_starts(scn)
    parent = None
    for pid, evs in out['traces'].items():
        if any(e['ev'] == 'Dispatch' for e in evs):
            parent = evs
    events = []
    pid2k = {}
    if parent:
        for e in parent:
            if e['ev'] == 'Dispatch':
                k = e['chunk'] + 1
                pid2k[e['worker_pid']] = k
                events.append({'op': 'Dispatch', 'k': k, 'alive': e['n_alive']})
            elif e['ev'] == 'Poll':
                events.append({'op': 'Poll', 'k': pid2k.get(e['worker_pid'], 0), 'code': e['code']})
    log = out.get('log_file') or ''
    events.append({'op': 'End', 'outcome': 'returned' if out['ok'] else 'raised',
                   'results': bool(out.get('has_results')), 'csv': bool(out['files'].get('res.csv')),
                   'success': 'RAN SUCCESSFULLY' in log, 'log': out['files'].get('log.txt', False) and len(log) > 0,
                   'json': bool(out['files'].get('res.json'))})
    f = fault or {'k': 0, 'pt': 'before', 'mode': 'kill'}
    return {'N': len(starts), 'P': scn['cfg']['P'], 'fault': f, 'events': events}


def validate_pool(ctx, traces, name):
    """group by (N, P): the constants of WorkerPool are per group"""
    from harness.traces import validate
    groups = {}
    for i, t in enumerate(traces):
        groups.setdefault((t['N'], t['P']), []).append(i)
    verdicts = [None] * len(traces)
    for (N, P), idx in sorted(groups.items()):
        cfg = ('SPECIFICATION TSpec\n'
               f'CONSTANTS N = {N} P = {P} FaultKs = {{{", ".join(str(i) for i in range(0, N + 1))}}} '
               'FaultPoints = {"before", "mid", "after"} FaultModes = {"kill", "exit3", "raise", "term"} '
               'Fixed = TRUE\nCONSTRAINT Track\nPOSTCONDITION Report\nCHECK_DEADLOCK FALSE\n')
        import harness.traces as T
        vs = _validate_cfg(ctx, [traces[i] for i in idx], f'{name}_N{N}_P{P}', cfg)
        for i, v in zip(idx, vs):
            verdicts[i] = v
    return verdicts


def _validate_cfg(ctx, traces, name, cfg_text):
    from harness.tlc import run_tlc, MachineryError
    from harness.traces import _denull
    text = '\n'.join(json.dumps(_denull(t)) for t in traces) + '\n'
    res = run_tlc('WorkerPool_Trace', cfg_text=cfg_text, env={'TRACE_FILE': 'trace.ndjson'}, workers=1,
                  timeout=3600, files={'trace.ndjson': text})
    verdicts = {}
    for v in res.tuples('VERDICT'):
        verdicts[v[1]] = {'tid': v[1], 'reached': v[2], 'need': v[3], 'accepted': v[2] == v[3], 'inv': v[4]}
    if len(verdicts) != len(traces):
        raise MachineryError(f'WorkerPool_Trace: {len(verdicts)} verdicts for {len(traces)} traces\n'
                             + res.stdout[-3000:])
    ctx.add_tlc(name, res, impl_traces=len(traces))
    return [verdicts[i + 1] for i in range(len(traces))]
