"""Random abstract mapping scenarios, and assembly of MapRun traces from hook events + output."""
import json
import math

import numpy as np

from harness import taxo, build


# ---------------------------------------------------------------------------
# abstract helpers mirroring spec/Taxonomy.tla (used only to *generate* inputs and to index the
# output; all verdicts about them are TLC's)
def run_hier(scn):
    h = list(scn['tree']['hier'])
    d = scn['cfg'].get('drop')
    if d is not None and d in h and d != h[-1] and len(h) > 1:
        h.remove(d)
    if scn['cfg'].get('flatten'):
        h = [h[-1]]
    return h


def child_level(scn, par):
    h = run_hier(scn)
    if par[0] == 0:
        return h[0]
    return h[h.index(par[0]) + 1]


def random_tree(rng, max_levels=3, max_leaves=6, min_leaves=1):
    L = rng.randint(1, max_levels)
    nleaf = rng.randint(min_leaves, max_leaves)
    counts = sorted(rng.randint(1, nleaf) for _ in range(L - 1)) + [nleaf]
    hier = list(range(1, L + 1))
    kids = []
    for i in range(L - 1):
        k, j = counts[i + 1], counts[i]
        cuts = sorted(rng.sample(range(1, k), j - 1)) if j > 1 else []
        bounds = [0] + cuts + [k]
        perm = list(range(1, k + 1))
        rng.shuffle(perm)
        kids.append([[p + 1, sorted(perm[bounds[p]:bounds[p + 1]])] for p in range(j)])
    kids.append([[n, []] for n in range(1, nleaf + 1)])
    nodes = [list(range(1, counts[i] + 1)) for i in range(L)]
    return {'hier': hier, 'keys': sorted(hier), 'nodes': nodes, 'kids': kids,
            'cells': [[n, []] for n in range(1, nleaf + 1)]}


def all_parents(tj):
    out = [[0, 0]]
    for i, l in enumerate(tj['hier'][:-1]):
        for n in tj['nodes'][i]:
            out.append([l, n])
    return out


def gen_scenario(rng, **over):
    """a valid scenario: root has >=1 usable gene; every listed gene is a reference gene; keys
    only for parents of the stored tree."""
    tj = over.pop('tree', None) or random_tree(rng, over.pop('max_levels', 3),
                                               over.pop('max_leaves', 6),
                                               over.pop('min_leaves', 1))
    G = over.pop('G', rng.randint(3, 6))
    vmax = over.pop('vmax', 4)
    leaves = tj['nodes'][-1]
    means = {str(l): [rng.randint(0, vmax) for _ in range(G)] for l in leaves}
    # query genes: a shuffled subset (>=2) of the reference genes + some unknown genes
    n_q = rng.randint(2, G)
    qg = rng.sample(range(1, G + 1), n_q)
    n_extra = rng.randint(0, 2)
    qg += [G + 1 + i for i in range(n_extra)]
    rng.shuffle(qg)
    ncell = over.pop('ncell', rng.randint(1, 8))
    Q = [[rng.randint(0, vmax) for _ in qg] for _ in range(ncell)]
    cells = rng.sample(range(1, max(60, 2 * ncell)), ncell)
    usable = [g for g in qg if g <= G]
    root = sorted(set(rng.sample(usable, rng.randint(1, len(usable))) +
                      rng.sample(range(1, G + 1), rng.randint(0, 2))))
    markers = {'0/0': root}
    for p in all_parents(tj)[1:]:
        r = rng.random()
        nkids = len(dict((a, b) for a, b in tj['kids'][tj['hier'].index(p[0])])[p[1]])
        if nkids < 2:
            continue                      # no list for single-child parents (see finding F4)
        if r < 0.65:
            markers[f'{p[0]}/{p[1]}'] = sorted(rng.sample(range(1, G + 1), rng.randint(1, G)))
        elif r < 0.75:
            markers[f'{p[0]}/{p[1]}'] = []
    cfg = {'B': rng.randint(1, 8), 'fden': 10, 'fnum': rng.randint(3, 10),
           'K': rng.randint(0, 4), 'chunk': rng.randint(1, 6), 'P': rng.randint(1, 3),
           'flatten': rng.random() < 0.15, 'drop': None, 'minm': rng.randint(1, 3),
           'seed': rng.randint(0, 10 ** 6), 'norm': 'log2CPM',
           'enc': rng.choice(['dense', 'csr', 'csc'])}
    if len(tj['hier']) > 1 and rng.random() < 0.3:
        cfg['drop'] = rng.choice(tj['hier'][:-1])
    if cfg['enc'] == 'csc' and not any(any(r) for r in Q):
        cfg['enc'] = 'csr'               # CSC without stored value: finding F1 (C05/C13)
    cfg.update(over.pop('cfg', {}))
    scn = {'tree': tj, 'G': G, 'means': means, 'qgenes': qg, 'Q': Q, 'cells': cells,
           'markers': markers, 'cfg': cfg}
    scn.update(over)
    return scn


def run_record(scn, votes=True):
    c = scn['cfg']
    return {
        'tree': scn['tree'], 'drop': c.get('drop') or 0, 'flat': bool(c.get('flatten')),
        'G': scn['G'], 'means': [[int(k), v] for k, v in scn['means'].items()],
        'qg': scn['qgenes'], 'Q': scn['Q'], 'cells': scn['cells'],
        'table': [[[int(x) for x in k.split('/')], v] for k, v in scn['markers'].items()],
        'B': c['B'], 'fnum': c['fnum'], 'fden': c['fden'],
        'flk': [[int(k), v[0], v[1]] for k, v in sorted((c.get('flookup') or {}).items())],
        'K': c['K'], 'chunk': c['chunk'],
        'P': c['P'], 'minm': c['minm'], 'votes': votes, 'draws': True}


def _kround(p, B):
    k = int(round(p * B))
    return k, abs(p - k / B) <= 1e-12


def assemble(scn, r, votes=True):
    """hook events + JSON output of one successful run -> (trace dict, numeric issues).
    numeric issues: list of (clause, message) found by the projection layer (values that are
    not whole votes etc.)."""
    scheme = r['scheme']
    nm = taxo.Naming(scheme)
    hier = scn['tree']['hier']
    B = scn['cfg']['B']
    issues = []
    res = build.project_results(r['json'], scn, scheme)
    by_id = {}
    for rec in res:
        by_id.setdefault(rec['id'], rec)
    workers = []
    for pid, evs in r['traces'].items():
        ws = [e for e in evs if e['ev'] == 'WStart']
        if ws:
            workers.append((ws[0]['r0'], evs))
    workers.sort(key=lambda x: x[0])
    events = []
    rh = run_hier(scn)
    for r0, evs in workers:
        i = 0
        names = None
        cur = None
        while i < len(evs):
            e = evs[i]
            if e['ev'] == 'WStart':
                names = [nm.inv_cell(x) for x in e['names']]
                events.append({'op': 'chunk', 'r0': e['r0'], 'r1': e['r1'], 'names': names})
            elif e['ev'] == 'Visit':
                par = build.parent_key(e['parent'], nm, hier)
                cl = child_level(scn, par)
                cur = {'op': 'node', 'parent': par, 'rows': e['rows'], 'genes': [], 'leaves': [],
                       'types': [], 'draws': [], 'out': []}
                for row in e['rows']:
                    cid = names[row]
                    lv = by_id.get(cid, {'levels': {}})['levels'].get(cl)
                    if lv is None:
                        cur['out'].append({'a': -1, 'k': 0, 'ru': []})
                        continue
                    k, ok = _kround(lv['p'], B)
                    if not ok:
                        issues.append((311, f'cell {cid} level {cl}: probability {lv["p"]} is not '
                                            f'a whole number of votes out of {B}'))
                    ru = []
                    if lv['ru'] is not None:
                        if not (len(lv['ru'][0]) == len(lv['ru'][1]) == len(lv['ru'][2])):
                            issues.append((312, f'cell {cid} level {cl}: runner-up lists differ in length'))
                        for a, p in zip(lv['ru'][0], lv['ru'][1]):
                            kk, ok = _kround(p, B)
                            if not ok:
                                issues.append((311, f'cell {cid} level {cl}: runner-up probability {p}'))
                            ru.append([a, kk])
                    cur['out'].append({'a': lv['a'], 'k': k, 'ru': ru})
                events.append(cur)
            elif e['ev'] == 'Genes':
                cl = child_level(scn, cur['parent'])
                cur['genes'] = [build.gene_id(g, scheme) for g in e['genes']]
                cur['leaves'] = [nm.inv_node(rh[-1], x) for x in e['leaves']]
                cur['types'] = [nm.inv_node(cl, x) for x in e['types']]
                cur['factor'] = e['factor']
            elif e['ev'] == 'Draw':
                cur['draws'].append(e['idx'])
            i += 1
    # final records
    recs = []
    for rec in res:
        lv = []
        for l in sorted(rec['levels']):
            e = rec['levels'][l]
            k, ok = _kround(e['p'], B) if e['p'] is not None else (-1, True)
            # depth = number of voted levels from the top down to (the voted level behind) l
            if l in rh:
                depth = rh.index(l) + 1
            else:
                finer = [x for x in hier[hier.index(l) + 1:] if x in rh]
                depth = rh.index(finer[0]) + 1 if finer else 1
            agg = e['agg']
            if agg is None:
                aggn = -1
            else:
                aggn = int(round(agg * B ** depth))
                if abs(agg - aggn / B ** depth) > 1e-9:
                    issues.append((321, f'cell {rec["id"]} level {l}: aggregate {agg} is not a '
                                        f'product of vote shares'))
            lv.append({'lev': l, 'a': e['a'], 'direct': bool(e['direct']), 'k': k, 'agg': aggn,
                       'hasRu': e['ru'] is not None})
        if rec['extra_keys']:
            issues.append((123, f'record has keys that are not levels: {rec["extra_keys"]}'))
        recs.append({'id': rec['id'], 'lv': lv})
    events.append({'op': 'final', 'recs': recs})
    return {'run': run_record(scn, votes), 'events': events}, issues, res


# ---------------------------------------------------------------------------
# numeric leaves (DESIGN 2.3): float fields compared against a recomputation driven by the
# logged draws; discrete decisions are TLC's.
def pearson(q, r):
    q = np.asarray(q, float)
    r = np.asarray(r, float)
    qm, rm = q - q.mean(), r - r.mean()
    nq, nr = np.sqrt((qm ** 2).sum()), np.sqrt((rm ** 2).sum())
    if nq == 0 or nr == 0:
        return 0.0
    return float((qm * rm).sum() / (nq * nr))


def numeric_checks(scn, trace, res):
    """returns list of (clause, msg). Clauses: 230 avg correlation, 330 correlation range,
    331 single-child correlation, 332 inferred levels repeat numbers, 333 runner-up correlation"""
    out = []
    by_id = {r['id']: r for r in res}
    hier = scn['tree']['hier']
    rh = run_hier(scn)
    qpos = {g: i for i, g in enumerate(scn['qgenes'])}
    Q = scn.get('Qf', scn['Q'])
    if scn['cfg'].get('norm') == 'raw':
        # the mapper converts raw counts to log2(CPM+1) over ALL genes of the file before anything else
        import numpy as _np
        X = _np.array(Q, dtype=float).reshape((len(scn['cells']), len(scn['qgenes'])))
        den = X.sum(axis=1)
        den = _np.where(den > 0, den, 1.0)
        Q = _np.log2(1.0 + 1e6 * X / den[:, None]).tolist()
    cells = scn['cells']
    pos_of = {c: i for i, c in enumerate(cells)}
    undetermined = 0
    checked = 0
    chunk = None
    for e in trace['events']:
        if e['op'] == 'chunk':
            chunk = e
        if e['op'] != 'node' or not e['genes']:
            continue
        cl = child_level(scn, e['parent'])
        genes = e['genes']
        M = {lf: [scn['means'][str(lf)][g - 1] for g in genes] for lf in e['leaves']}
        typ = dict(zip(e['leaves'], e['types']))
        for row, o in zip(e['rows'], e['out']):
            cid = chunk['names'][row]
            q = [Q[pos_of[cid]][qpos[g]] for g in genes]
            sums = {}
            cnt = {}
            det = True
            best_vals = []
            for d in e['draws']:
                cs = sorted(((pearson([q[i] for i in d], [M[lf][i] for i in d]), lf) for lf in M),
                            reverse=True)
                best_vals.append(cs[0][0])
                # near-tie rule: every leaf within 1e-9 of the best must belong to the same child
                if len({typ[lf] for c, lf in cs if cs[0][0] - c < 1e-9}) > 1:
                    det = False
                    continue
                t = typ[cs[0][1]]
                sums[t] = sums.get(t, 0.0) + cs[0][0]
                cnt[t] = cnt.get(t, 0) + 1
            lv = by_id[cid]['levels'][cl]
            # whoever wins an iteration wins it with the largest correlation of that iteration: the reported
            # average lies between the smallest and the largest of these maxima even when ties leave the
            # winner open (a cell that is constant on the drawn genes: all correlations 0, average 0)
            if best_vals and len(best_vals) == len(e['draws']) and lv['c'] is not None and \
                    not (min(best_vals) - 1e-9 <= lv['c'] <= max(best_vals) + 1e-9):
                out.append((230, f'cell {cid} level {cl}: avg_correlation {lv["c"]} is outside the range '
                                 f'[{min(best_vals)}, {max(best_vals)}] of the best correlations of its iterations'))
            if not det:
                undetermined += 1
                continue
            checked += 1
            if lv['a'] in cnt:
                want = sums[lv['a']] / cnt[lv['a']]
                if lv['c'] is None or abs(lv['c'] - want) > 1e-9:
                    out.append((230, f'cell {cid} level {cl}: avg_correlation {lv["c"]} but the mean '
                                     f'winning correlation over its {cnt[lv["a"]]} iterations is {want}'))
            if lv['ru'] is not None:
                for a, c in zip(lv['ru'][0], lv['ru'][2]):
                    if a in cnt and abs(c - sums[a] / cnt[a]) > 1e-9:
                        out.append((333, f'cell {cid} level {cl}: runner-up {a} correlation {c} != '
                                         f'{sums[a] / cnt[a]}'))
    # range, single-child back-fill, inferred levels
    # which run-tree parents have one child
    for rec in res:
        prev_choice_corr = None
        for l in rh:
            lv = rec['levels'].get(l)
            if lv is None:
                continue
            c = lv['c']
            if c is None or not (-1 - 1e-9 <= c <= 1 + 1e-9):
                out.append((330, f'cell {rec["id"]} level {l}: correlation {c} outside [-1,1]'))
        for l in hier:
            if l in rh or l not in rec['levels']:
                continue
            finer = [x for x in hier[hier.index(l) + 1:] if x in rh]
            if not finer:
                continue
            a, b = rec['levels'][l], rec['levels'][finer[0]]
            if (a['p'], a['c'], a['agg']) != (b['p'], b['c'], b['agg']):
                out.append((332, f'cell {rec["id"]} inferred level {l} does not repeat the numbers of '
                                 f'level {finer[0]}'))
    return out, checked, undetermined


def single_child_corr_checks(scn, trace, res):
    """C03: a parent with a single child yields the correlation of the nearest level above where
    a real choice was made."""
    out = []
    by_id = {r['id']: r for r in res}
    rh = run_hier(scn)
    chunk = None
    # per cell: which run levels were trivial
    trivial = {}
    for e in trace['events']:
        if e['op'] == 'chunk':
            chunk = e
        if e['op'] == 'node':
            cl = child_level(scn, e['parent'])
            for row in e['rows']:
                trivial.setdefault(chunk['names'][row], {})[cl] = not e['genes']
    for cid, tv in trivial.items():
        last = None
        for l in rh:
            lv = by_id[cid]['levels'].get(l)
            if lv is None:
                continue
            if tv.get(l):
                if last is None:
                    out.append((334, f'cell {cid} level {l}: single child at the top of the '
                                     f'taxonomy, no level above with a real choice (correlation {lv["c"]})'))
                elif lv['c'] != last:
                    out.append((331, f'cell {cid} level {l}: single-child correlation {lv["c"]} != {last} '
                                     f'of the nearest choice above'))
            else:
                last = lv['c']
    return out
