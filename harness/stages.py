"""Drivers for the pipeline stages other than mapping (through the functions under the broken
argschema entry points) and a generator of small separable reference datasets."""
import json
import pathlib
import warnings

import anndata
import h5py
import numpy as np
import pandas as pd
import scipy.sparse as sp

LEVELS = ['class', 'subclass', 'cluster']


def make_reference(rng, d, n_class=2, max_sub=2, max_cl=2, cells_per=(4, 7), n_genes=14,
                   enc='csr', integer_log=False, name='ref.h5ad', unlabeled=0):
    """separable clusters: every cluster has two private genes with high counts and is exactly 0
    in most other genes (so penetrance discriminates).  Returns dict with tree info."""
    d = pathlib.Path(d)
    leaf_parents = {}
    li = 0
    for c in range(n_class):
        for s in range(int(rng.integers(1, max_sub + 1))):
            for k in range(int(rng.integers(1, max_cl + 1))):
                leaf_parents[f'cl{li}'] = (f'C{c}', f'S{c}_{s}')
                li += 1
    n_genes = max(n_genes, 2 * len(leaf_parents) + 2)
    genes = [f'g{i}' for i in range(n_genes)]
    rows, obs = [], []
    for i, (leaf, (cl, sc)) in enumerate(leaf_parents.items()):
        n = int(rng.integers(cells_per[0], cells_per[1] + 1))
        for k in range(n):
            v = (rng.random(n_genes) < 0.12).astype(float) * rng.integers(1, 4, size=n_genes)
            v[2 * i] += rng.integers(30, 50)
            v[2 * i + 1] += rng.integers(15, 30)
            rows.append(v)
            obs.append({'cell_id': f'{leaf}_{k}', 'class': cl, 'subclass': sc, 'cluster': leaf})
    X = np.array(rows)
    order = rng.permutation(len(rows))
    X = X[order]
    obs = [obs[i] for i in order]
    obs_df = pd.DataFrame(obs).set_index('cell_id')
    var = pd.DataFrame(index=pd.Index(genes, name='gene'))
    M = X
    if enc == 'csr':
        M = sp.csr_matrix(X)
    elif enc == 'csc':
        M = sp.csc_matrix(X)
    anndata.AnnData(X=M, obs=obs_df, var=var).write_h5ad(d / name)
    return {'path': str(d / name), 'genes': genes, 'X': X, 'obs': obs, 'leaf_parents': leaf_parents}


def precompute(ref_path, out, tmp, n_proc=2, rows_at_a_time=7, normalization='raw', hierarchy=None):
    from cell_type_mapper.diff_exp.precompute_from_anndata import precompute_summary_stats_from_h5ad
    with warnings.catch_warnings():
        warnings.simplefilter('ignore')
        precompute_summary_stats_from_h5ad(
            data_path=ref_path, column_hierarchy=hierarchy or LEVELS, taxonomy_tree=None, output_path=out,
            rows_at_a_time=rows_at_a_time, normalization=normalization, tmp_dir=tmp, n_processors=n_proc)


def ref_markers(stats, out, tmp, n_proc=2, max_gb=1, n_valid=3, exact=False, **kw):
    from cell_type_mapper.diff_exp.markers import find_markers_for_all_taxonomy_pairs
    from cell_type_mapper.taxonomy.taxonomy_tree import TaxonomyTree
    tree = TaxonomyTree.from_precomputed_stats(stats)
    with warnings.catch_warnings():
        warnings.simplefilter('ignore')
        find_markers_for_all_taxonomy_pairs(
            precomputed_stats_path=stats, taxonomy_tree=tree, output_path=out, n_processors=n_proc,
            tmp_dir=tmp, max_gb=max_gb, n_valid=n_valid, exact_penetrance=exact, **kw)
    with h5py.File(out, 'a') as f:
        if 'metadata' not in f:
            f.create_dataset('metadata', data=json.dumps({'precomputed_path': str(stats)}).encode())


def query_markers(refm, query_genes, tmp, n_proc=2, n_per_utility=2, behemoth_cutoff=1000000, override=None,
                  **kw):
    from cell_type_mapper.type_assignment.marker_cache_v2 import create_marker_gene_lookup_from_ref_list
    with warnings.catch_warnings():
        warnings.simplefilter('ignore')
        return create_marker_gene_lookup_from_ref_list(
            list(refm) if isinstance(refm, (list, tuple)) else [refm],
            query_gene_names=list(query_genes), n_per_utility=n_per_utility,
            n_per_utility_override=override, n_processors=n_proc, behemoth_cutoff=behemoth_cutoff,
            tmp_dir=tmp, **kw)


def p_value_mask(stats, out, tmp, n_proc=2, n_per=3, **kw):
    from cell_type_mapper.diff_exp.p_value_mask import create_p_value_mask_file
    with warnings.catch_warnings():
        warnings.simplefilter('ignore')
        create_p_value_mask_file(precomputed_stats_path=stats, dst_path=out, n_processors=n_proc,
                                 tmp_dir=tmp, n_per=n_per, **kw)


def markers_from_p_mask(stats, mask, out, tmp, n_proc=2, max_gb=1, n_valid=3, **kw):
    from cell_type_mapper.diff_exp.p_value_markers import find_markers_for_all_taxonomy_pairs_from_p_mask
    with warnings.catch_warnings():
        warnings.simplefilter('ignore')
        find_markers_for_all_taxonomy_pairs_from_p_mask(
            precomputed_stats_path=stats, p_value_mask_path=mask, output_path=out, n_processors=n_proc,
            tmp_dir=tmp, max_gb=max_gb, n_valid=n_valid, **kw)


def toy_pipeline(rng, d, n_proc=2, enc='csr', **refkw):
    """reference -> statistics -> reference markers -> query markers (returns paths + lookup)"""
    d = pathlib.Path(d)
    (d / 'scratch').mkdir(exist_ok=True)
    ref = make_reference(rng, d, enc=enc, **refkw)
    stats = d / 'stats.h5'
    precompute(ref['path'], stats, d / 'scratch', n_proc=n_proc)
    refm = d / 'refm.h5'
    ref_markers(stats, refm, d / 'scratch', n_proc=n_proc)
    lookup = query_markers(refm, ref['genes'], d / 'scratch', n_proc=n_proc)
    return {'ref': ref, 'stats': str(stats), 'refm': str(refm), 'lookup': lookup}
