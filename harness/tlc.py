"""Thin driver around TLC (tla2tools 1.8): run a module + cfg, parse the result.

Exit discipline: a TLC run that cannot be interpreted (parse error, java failure,
timeout) raises MachineryError -> the check exits 2, never a verdict.
"""
import json
import os
import pathlib
import re
import shutil
import subprocess
import tempfile
import time

SPEC_DIR = pathlib.Path(__file__).resolve().parent.parent / 'spec'
JAR = '/opt/veriftools/tla/tla2tools.jar:/opt/veriftools/tla/CommunityModules-deps.jar'


class MachineryError(Exception):
    pass


class TLCResult(object):
    def __init__(self):
        self.generated = 0
        self.distinct = 0
        self.ok = False
        self.violated = []       # names of violated invariants / properties
        self.printed = []        # raw text of PrintT tuples (one str each)
        self.stdout = ''
        self.wall = 0.0
        self.coverage = {}       # action -> (distinct, total) when -coverage
        self.error_trace = ''
        self.deadlock = False
        self.postcondition_failed = False

    def tuples(self, tag):
        """Return the PrintT'ed tuples whose first element is the string `tag`,
        each parsed into python values (see parse_tla_value)."""
        out = []
        for t in self.printed:
            v = parse_tla_value(t)
            if isinstance(v, list) and v and v[0] == tag:
                out.append(v)
        return out


# ---------------------------------------------------------------------------
# A small parser for TLA+ values as TLC prints them (tuples, sets, records,
# functions, strings, ints, booleans).
class _P(object):
    def __init__(self, s):
        self.s = s
        self.i = 0

    def ws(self):
        while self.i < len(self.s) and self.s[self.i] in ' \t\r\n':
            self.i += 1

    def peek(self, k=1):
        return self.s[self.i:self.i + k]

    def expect(self, tok):
        self.ws()
        if not self.s.startswith(tok, self.i):
            raise ValueError(f'expected {tok!r} at {self.i}: {self.s[self.i:self.i+30]!r}')
        self.i += len(tok)

    def value(self):
        self.ws()
        if self.peek(2) == '<<':
            self.i += 2
            items = self.seq('>>')
            return items
        c = self.peek()
        if c == '{':
            self.i += 1
            return {'__set__': self.seq('}')}
        if c == '[':
            self.i += 1
            return self.rec_or_fun()
        if c == '(':
            # function printed as (k :> v @@ k :> v)
            self.i += 1
            d = []
            while True:
                k = self.value()
                self.expect(':>')
                v = self.value()
                d.append((k, v))
                self.ws()
                if self.peek(2) == '@@':
                    self.i += 2
                    continue
                self.expect(')')
                break
            return {'__fun__': d}
        if c == '"':
            return self.string()
        m = re.compile(r'-?\d+').match(self.s, self.i)
        if m:
            self.i = m.end()
            return int(m.group())
        m = re.compile(r'[A-Za-z_][A-Za-z0-9_]*').match(self.s, self.i)
        if m:
            self.i = m.end()
            w = m.group()
            if w == 'TRUE':
                return True
            if w == 'FALSE':
                return False
            return {'__id__': w}
        raise ValueError(f'cannot parse at {self.i}: {self.s[self.i:self.i+30]!r}')

    def seq(self, close):
        items = []
        self.ws()
        if self.s.startswith(close, self.i):
            self.i += len(close)
            return items
        while True:
            items.append(self.value())
            self.ws()
            if self.peek() == ',':
                self.i += 1
                continue
            self.expect(close)
            return items

    def rec_or_fun(self):
        d = {}
        self.ws()
        if self.peek() == ']':
            self.i += 1
            return d
        while True:
            self.ws()
            m = re.compile(r'[A-Za-z_][A-Za-z0-9_]*').match(self.s, self.i)
            key = m.group()
            self.i = m.end()
            self.expect('|->')
            d[key] = self.value()
            self.ws()
            if self.peek() == ',':
                self.i += 1
                continue
            self.expect(']')
            return d

    def string(self):
        assert self.peek() == '"'
        self.i += 1
        out = []
        while True:
            c = self.s[self.i]
            if c == '\\':
                n = self.s[self.i + 1]
                out.append({'n': '\n', 't': '\t', '"': '"', '\\': '\\'}.get(n, n))
                self.i += 2
                continue
            if c == '"':
                self.i += 1
                return ''.join(out)
            out.append(c)
            self.i += 1


def parse_tla_value(text):
    p = _P(text)
    v = p.value()
    return v


def _extract_printed(stdout):
    """PrintT output can span lines and (with several workers) interleave; we only
    ever print tuples, so collect balanced <<...>> groups that start a line."""
    out = []
    i = 0
    s = stdout
    n = len(s)
    while i < n:
        j = s.find('<<"', i)
        if j < 0:
            break
        if j > 0 and s[j - 1] not in '\n':
            i = j + 3
            continue
        depth = 0
        k = j
        in_str = False
        while k < n:
            c = s[k]
            if in_str:
                if c == '\\':
                    k += 2
                    continue
                if c == '"':
                    in_str = False
            else:
                if c == '"':
                    in_str = True
                elif s.startswith('<<', k):
                    depth += 1
                    k += 2
                    continue
                elif s.startswith('>>', k):
                    depth -= 1
                    k += 2
                    if depth == 0:
                        break
                    continue
            k += 1
        out.append(s[j:k])
        i = k
    return out


_STATES_RE = re.compile(r'(\d+) states generated, (\d+) distinct states found')
_INV_RE = re.compile(r'Invariant (\S+) is violated')
_PROP_RE = re.compile(r'(?:Action property|Temporal properties|property) (\S+) (?:is|were) violated')
_COV_RE = re.compile(r'^<(\w+) line (\d+), col \d+ to line \d+, col \d+ of module (\w+)>: (\d+):(\d+)', re.M)


def run_tlc(module, cfg=None, env=None, workers=None, timeout=1800, simulate=None,
            depth=None, coverage=False, extra=(), files=None, deque=False, seed=None,
            keep_dir=None, cfg_text=None, continue_=False):
    """Run TLC on spec/<module>.tla with spec/<cfg> (default <module>.cfg).

    files: dict name->text of additional files written next to the spec copy (trace inputs).
    cfg_text: literal cfg content overriding `cfg`.
    Returns TLCResult.  Raises MachineryError if TLC did not produce a usable outcome.
    """
    work = pathlib.Path(tempfile.mkdtemp(prefix='tlc_', dir=os.environ.get('VERIF_SCRATCH')))
    try:
        for p in SPEC_DIR.glob('*.tla'):
            shutil.copy(p, work / p.name)
        cfg_name = cfg or f'{module}.cfg'
        if cfg_text is not None:
            cfg_name = f'{module}__gen.cfg'
            (work / cfg_name).write_text(cfg_text)
        else:
            shutil.copy(SPEC_DIR / cfg_name, work / cfg_name)
        for name, text in (files or {}).items():
            (work / name).write_text(text)
        cmd = ['java', '-XX:+UseSerialGC' if str(workers) == '1' else '-XX:+UseParallelGC', '-Xss16m']
        if deque:
            cmd.append('-Dtlc2.tool.queue.IStateQueue=StateDeque')
        # TLC makes an empty tlc-<number> directory under java.io.tmpdir on every start: keep it inside the work
        # directory so that it goes away with it instead of piling up in /tmp
        cmd.append(f'-Djava.io.tmpdir={work}')
        cmd += ['-cp', JAR, 'tlc2.TLC', '-noGenerateSpecTE', '-metadir', str(work / 'states'),
                '-config', cfg_name]
        cmd += ['-workers', str(workers or 'auto')]
        if simulate:
            cmd += ['-simulate', simulate]
        if depth:
            cmd += ['-depth', str(depth)]
        if seed is not None:
            cmd += ['-seed', str(seed)]
        if coverage:
            cmd += ['-coverage', '1']
        if continue_:
            cmd += ['-continue']
        cmd += list(extra)
        cmd.append(f'{module}.tla')
        e = dict(os.environ)
        e.update(env or {})
        t0 = time.time()
        try:
            pr = subprocess.run(cmd, cwd=work, env=e, capture_output=True, text=True,
                                timeout=timeout)
        except subprocess.TimeoutExpired:
            raise MachineryError(f'TLC timeout after {timeout}s on {module}/{cfg_name}')
        res = TLCResult()
        res.wall = time.time() - t0
        res.stdout = pr.stdout + pr.stderr
        for m in _STATES_RE.finditer(res.stdout):
            res.generated, res.distinct = int(m.group(1)), int(m.group(2))
        res.violated = _INV_RE.findall(res.stdout) + _PROP_RE.findall(res.stdout)
        res.deadlock = 'Deadlock reached' in res.stdout
        res.postcondition_failed = 'ostcondition' in res.stdout and 'violated' in res.stdout.split('ostcondition', 1)[1][:200]
        res.printed = _extract_printed(pr.stdout)
        if coverage:
            for m in _COV_RE.finditer(res.stdout):
                res.coverage[m.group(1)] = (int(m.group(4)), int(m.group(5)))
        finished = ('Model checking completed' in res.stdout
                    or 'Finished in' in res.stdout
                    or 'The number of states generated' in res.stdout)
        res.ok = finished and not res.violated and not res.deadlock and \
            'Error:' not in res.stdout
        if ('Parsing or semantic analysis failed' in res.stdout or
                'java.lang.' in res.stdout and 'Exception' in res.stdout and not res.violated
                or not finished and not res.violated and not res.deadlock):
            if keep_dir:
                shutil.copytree(work, keep_dir, dirs_exist_ok=True)
            raise MachineryError(
                f'TLC did not complete on {module}/{cfg_name}:\n{res.stdout[-3000:]}')
        if res.violated or res.deadlock:
            idx = res.stdout.find('Error:')
            res.error_trace = res.stdout[idx:idx + 6000]
        if keep_dir and not res.ok:
            shutil.copytree(work, keep_dir, dirs_exist_ok=True)
        return res
    finally:
        shutil.rmtree(work, ignore_errors=True)


def sany(module):
    pr = subprocess.run(['java', '-cp', JAR, 'tla2sany.SANY', f'{module}.tla'], cwd=SPEC_DIR,
                        capture_output=True, text=True)
    ok = pr.returncode == 0 and 'Semantic errors' not in pr.stdout and 'error' not in pr.stdout.lower().replace('errors: 0', '')
    return ok, pr.stdout + pr.stderr


def to_tla(v):
    """python value -> TLA+ expression text (ints, bools, str, list->tuple, set, dict->record
    when keys are identifiers else function)."""
    if isinstance(v, bool):
        return 'TRUE' if v else 'FALSE'
    if isinstance(v, int):
        return str(v)
    if isinstance(v, str):
        return json.dumps(v)
    if isinstance(v, (list, tuple)):
        return '<<' + ', '.join(to_tla(x) for x in v) + '>>'
    if isinstance(v, (set, frozenset)):
        return '{' + ', '.join(to_tla(x) for x in sorted(v, key=repr)) + '}'
    if isinstance(v, dict):
        if all(isinstance(k, str) and re.fullmatch(r'[A-Za-z_][A-Za-z0-9_]*', k) for k in v):
            if not v:
                return '<<>>'
            return '[' + ', '.join(f'{k} |-> {to_tla(x)}' for k, x in v.items()) + ']'
        if not v:
            return '<<>>'
        return '(' + ' @@ '.join(f'{to_tla(k)} :> {to_tla(x)}' for k, x in v.items()) + ')'
    raise TypeError(type(v))
