"""start several stage jobs at once (used under one strace -f): python -m harness.launch <list.json>
list = [[job.json, out.json, {env}], ...]; mode 'seq' runs them one after the other."""
import json
import os
import subprocess
import sys


def main():
    spec = json.load(open(sys.argv[1]))
    procs = []
    for jp, op, env in spec['jobs']:
        e = dict(os.environ)
        e.update(env or {})
        p = subprocess.Popen(['/venv/bin/python', '-W', 'ignore', '-m', 'harness.stagejob', jp, op], env=e)
        if spec.get('mode') == 'seq':
            p.wait()
        procs.append(p)
    for p in procs:
        p.wait()


if __name__ == '__main__':
    main()
