"""Projection between the abstract trees of spec/Taxonomy.tla (integer levels / nodes / cells)
and the dicts / TaxonomyTree objects of cell_type_mapper."""
import copy


class Naming(object):
    """bijection abstract <-> concrete names.  scheme:
       structural : level 'L1', node 'L1_n3'
       reversed   : names whose alphabetical order is the reverse of the numeric order, level
                    names whose alphabetical order is not the hierarchy order
       shared     : the same node names at every level ('n1','n2',...), levels 'a','b',..
    """
    def __init__(self, scheme='structural'):
        self.scheme = scheme

    def level(self, l):
        if self.scheme == 'longtop':
            return f'lt{l}'
        if self.scheme == 'slashed':
            return f'lvl{l}'
        if self.scheme == 'obscols':
            # level names as the obs columns of published references are called (class_label, cluster_alias ...)
            return ['top_name', 'class_label', 'subclass_name', 'cluster_alias', 'type_assignment', 'x_label'][l] if l < 6 else f'l{l}_label'
        if self.scheme == 'prefix':
            return 'lv' + 'x' * l           # every level name is a prefix of the names of the finer levels
        if self.scheme == 'quoted':
            return f'lv {l}'
        if self.scheme == 'structural':
            return f'L{l}'
        if self.scheme == 'cellid':
            return 'cell_id' if l == 1 else f'L{l}'      # a level called like the key that holds the cell's identifier
        if self.scheme == 'reversed':
            return f'lev{9 - l}x'
        return 'abcdefghij'[l]

    def node(self, l, n):
        if self.scheme == 'longtop':
            return f'T{n}' + 'ergic' * max(0, 4 - l)    # the coarser the level the longer the name ('Glutamatergic' over 'IT')
        if self.scheme == 'slashed':
            return f'L{l}/{n} IT x'         # legal labels with a slash and spaces ("L2/3 IT")
        if self.scheme == 'obscols':
            return f'k{l}_{n}'
        if self.scheme == 'prefix':
            return f'p{l}n{n}'
        if self.scheme == 'quoted':
            return f'k{n}, "x{l}"'
        if self.scheme in ('structural', 'cellid'):
            return f'L{l}_n{n}'
        if self.scheme == 'reversed':
            return f'z{99 - n:02d}.{l}'
        return f'n{n}'

    def cell(self, c):
        if self.scheme == 'quoted':
            return f'na\u00efve c\u00e9ll_{c}'       # non-ASCII identifiers with a blank (UTF-8 longer than the text)
        return f'cell_{c}'

    def inv_level(self, name, levels):
        for l in levels:
            if self.level(l) == name:
                return l
        raise KeyError(name)

    def inv_node(self, l, name, universe=range(0, 200)):
        for n in universe:
            if self.node(l, n) == name:
                return n
        raise KeyError(name)

    def inv_cell(self, name):
        return int(name.split('_')[1])


def dict_from_tree(tj, nm, cells_as='names'):
    """abstract TreeJson -> taxonomy dict as the package reads it."""
    d = {'hierarchy': [nm.level(l) for l in tj['hier']]}
    leaf = tj['hier'][-1] if tj['hier'] else None
    cells = {n: cs for n, cs in tj['cells']}
    for i, l in enumerate(tj['hier']):
        if l not in tj['keys']:
            continue
        table = {}
        for n, ks in tj['kids'][i]:
            if l == leaf:
                cs = cells.get(n, [])
                table[nm.node(l, n)] = [nm.cell(c) if cells_as == 'names' else c - 1 for c in cs]
            else:
                cl = tj['hier'][i + 1]
                table[nm.node(l, n)] = [nm.node(cl, k) for k in ks]
        d[nm.level(l)] = table
    return d


def project_dict(d, nm, levels=range(0, 12), cells_as='names'):
    """taxonomy dict (as stored inside a TaxonomyTree / JSON) -> abstract TreeJson."""
    hier = [nm.inv_level(h, levels) for h in d['hierarchy']]
    keys = sorted(nm.inv_level(k, levels) for k in d
                  if k not in ('hierarchy', 'metadata', 'name_mapper', 'hierarchy_mapper'))
    nodes, kids, cells = [], [], []
    for i, l in enumerate(hier):
        table = d[nm.level(l)]
        ns = sorted(nm.inv_node(l, n) for n in table)
        nodes.append(ns)
        row = []
        for n in ns:
            v = table[nm.node(l, n)]
            if i == len(hier) - 1:
                row.append([n, []])
                cells.append([n, sorted((nm.inv_cell(c) if cells_as == 'names' else c + 1)
                                        for c in v)])
            else:
                row.append([n, sorted(nm.inv_node(hier[i + 1], k) for k in v)])
        kids.append(row)
    return {'hier': hier, 'keys': keys, 'nodes': nodes, 'kids': kids, 'cells': cells}


def apply_edit(d, tj, nm, edit):
    """the one-edit malformed variants of Taxonomy_MC!Variants applied to the concrete dict."""
    d = copy.deepcopy(d)
    kind, a, b, c = edit
    hier = tj['hier']
    if kind == 'remove_link':
        cl = hier[hier.index(a) + 1]
        d[nm.level(a)][nm.node(a, b)].remove(nm.node(cl, c))
    elif kind in ('add_link', 'link_missing'):
        cl = hier[hier.index(a) + 1]
        d[nm.level(a)][nm.node(a, b)].append(nm.node(cl, c))
    elif kind == 'remove_node':
        d[nm.level(a)].pop(nm.node(a, b))
    elif kind == 'cell_twice':
        src = d[nm.level(a)][nm.node(a, b)]
        d[nm.level(a)][nm.node(a, c)].append(sorted(src, key=nm.inv_cell)[0])
    elif kind == 'empty_then_twice':
        leaf = hier[-1]
        src = sorted(d[nm.level(leaf)][nm.node(leaf, a)], key=nm.inv_cell)[0]
        d[nm.level(leaf)][nm.node(leaf, c)] = []
        d[nm.level(leaf)][nm.node(leaf, b)].append(src)
    elif kind == 'drop_hier_entry':
        d['hierarchy'].pop(a - 1)
    elif kind == 'drop_key':
        d.pop(nm.level(a))
    else:
        raise ValueError(kind)
    return d
