"""Generates MANIFEST.json from the table below (single source of truth for what is claimed)."""
import json
import pathlib

ROOT = pathlib.Path(__file__).resolve().parent.parent

BASE_OFF = ("cd /repo && env -u CELL_TYPE_MAPPER_VERIF /venv/bin/python -m pytest -ra -q "
            "-p no:cacheprovider --timeout=900 --continue-on-collection-errors "
            "--junitxml=/var/tmp/ctm_baseline_off.junit.xml")

CHECKS = {}
NOT_YET = {}


def claim(pid, text, note, technique, design_ref):
    CHECKS[pid] = dict(text=text, note=note, technique=technique, design_ref=design_ref)


claim('C10',
      'TLC checks the C10 invariants on the Taxonomy model for every tree shape with <=4 levels and '
      '<=6 leaves under every order of drop/flatten and classifies every one-edit malformed variant; '
      'the same shapes with the spec-computed expected results are replayed into the real '
      'TaxonomyTree (exhaustive, several naming schemes), and behaviours of the real class on random '
      'larger trees are validated as traces of the spec with the invariants evaluated on every state.',
      'Trusted: TLC, the name<->integer projection in harness/taxo.py. Children lists are modelled '
      'as sets. Bounded: exhaustive to 4 levels / 6 leaves, sampled to 5 levels / 12 leaves.',
      'TLA+ model (Taxonomy.tla) checked by TLC; TLC-emitted scenarios replayed into the code; '
      'trace validation of real behaviours (Taxonomy_Trace.tla)',
      'DESIGN.md section 4 C10')


claim('C01',
      'TLC proves on MapRun_MC (every tree shape <=3 levels/4 leaves x drop/flatten x cells x chunk size x '
      'workers, votes abstracted) that gather + re-order + back-fill yields one complete, ordered, '
      'path-consistent record per cell; the model\'s initial states are emitted as scenarios and run '
      'through the real mapper, and every real run (scenario runs and random larger ones) is validated '
      'event by event (chunking, cells examined per node, final records) as a behaviour of MapRun.',
      'Trusted: TLC, harness projection of hook events/JSON output. Known findings F10 (single top-level '
      'node), F4 (irrelevant marker key) and F26 (non-leaf node without children) are reported as KNOWN-FINDING. Bounded model; real runs '
      'sampled beyond it.',
      'TLA+ model MapRun.tla checked by TLC; scenarios from the model replayed into run_mapping; trace '
      'validation of hook events + output (MapRun_Trace.tla)', 'DESIGN.md section 4 C01')
claim('C02',
      'Every vote of every real run is recomputed by TLC from the input files and the logged bootstrap '
      'subsets with exact integer Pearson comparison (Election.tla) and the reported winner, vote shares '
      'and runners-up must be an outcome the definition allows; subset size/duplicate-freeness, leaf '
      'restriction and leaf->child credit are clauses of the same trace spec. TLC also enumerates all '
      'small reference matrices with Best(q) for replay at factor 1. The average correlation is a '
      'numeric leaf compared by the projection layer.',
      'Trusted: TLC, numpy float Pearson in the harness for the correlation leaf. Integer-valued '
      'log2CPM inputs; exact ties accepted either way; near-ties (<1e-9) not asserted for the float.',
      'trace validation against Election.tla/MapRun.tla with TLC as vote oracle; TLC-enumerated '
      'scenarios replayed', 'DESIGN.md section 4 C02')
claim('C03',
      'The arithmetic contract is a set of clauses (3xx) of MapRun/Election evaluated by TLC on every '
      'record of every real run; TLC proves on Election_MC / MapRun_MC that the report builder and the '
      'running product satisfy it for all vote vectors (<=5 children, B<=6). Float leaves ([-1,1], '
      'single-child correlation, inferred levels) are compared by the projection.',
      'Trusted: TLC, projection probability->votes (|p-k/B|<=1e-12).',
      'TLC invariants on Election_MC/MapRun_MC + trace validation of real outputs',
      'DESIGN.md section 4 C03')
claim('C08',
      'Reconcile (MarkerTable.tla) is written from the statement; TLC checks six design invariants '
      'over every table on a fixed tree and emits the enumeration with expected gene sets/error kinds '
      'for replay into the real cache builder; random trees/tables are validated as observations by '
      'MarkerTable_Trace; in full runs the genes used per node (hook) must equal the reconciled set '
      'and runs must fail exactly when the spec says.',
      'Trusted: TLC, projection. Known findings F4, F10b, F12 reported as KNOWN-FINDING.',
      'TLA+ model MarkerTable.tla; TLC-emitted scenarios replayed; trace validation',
      'DESIGN.md section 4 C08')


claim('C15',
      'The CSV, HDF5 and JSON files of real runs are projected to abstract views and TLC (Outputs_Trace) '
      'decides every clause: row order/ids, label/name/alias through the name tables, confidence to four '
      'decimals in exact integer arithmetic, HDF5 read-back of every entry, embedded taxonomy; Outputs_MC '
      'proves the node<->integer / -1 padding encoding round-trips for all entries.',
      'Trusted: TLC, python csv module, projection. Float fields JSON vs HDF5 compared bit for bit in the '
      'projection; correlation-as-confidence (B=1) compared as a numeric leaf.',
      'TLA+ model Outputs.tla + trace validation of the three output files', 'DESIGN.md section 4 C15')
claim('C17',
      'For tree shapes and reduced trees emitted by TLC (DropLevel/Flatten of Taxonomy.tla), pairs of real '
      'runs with a common seed (drop/flatten vs a reference that never had the level / one-level tree with '
      'the union table / absent level) are projected and Relations_Trace decides bitwise equality on the '
      'remaining levels and that removed levels are inferred ancestors repeating the numbers.',
      'Trusted: TLC, projection. Tops with a single node are excluded (known finding F10, reported by C01).',
      'TLC-generated scenario pairs + relation decided by TLA+ operators (Relations.tla)',
      'DESIGN.md section 4 C17')
claim('C06',
      'Transformations of a base query (all row permutations, all subsets, duplication, foreign cells, all '
      'chunk sizes, 1-3 workers, factor 1) are run for real and Relations_Trace joins on the cell id: '
      'discrete fields equal, floats within 1e-8; MapRun_MC shows the batched election never mixes rows.',
      'Trusted: TLC, projection. Cells with a near-tie (<1e-9) of the two best correlations are counted '
      'undetermined and not asserted.',
      'metamorphic pairs decided by TLA+ relation operators; TLC design model', 'DESIGN.md section 4 C06')
claim('C07',
      'Normalize.tla (object guards + mapper order of operations) is checked by TLC and every operation '
      'history is replayed into CellByGeneMatrix; paired real runs (column permutation, extra/removed '
      'non-marker genes: bitwise; raw vs declared log2CPM, positive scaling at factor 1: discrete equal, '
      'floats 1e-8) are decided by Relations_Trace; negative raw input must be rejected per encoding.',
      'Trusted: TLC, numpy log2 for the harness-computed log2CPM. Near-ties not asserted. Known finding F27 (raw '
      'non-integer values: last-bit differences under column permutation) is reported as KNOWN-FINDING.',
      'TLA+ model replayed into the class + metamorphic pairs decided by TLA+ relation operators',
      'DESIGN.md section 4 C07')


claim('C04',
      'TLC explores every interleaving of N workers on P slots in WorkerPool.tla (seeds drawn in dispatch '
      'order, each chunk stored once, never more than P alive, liveness) and emits every feasible order in '
      'which results can be stored; each order is forced on the real mapping stage through the guarded gates '
      '(both gather paths), together with Python hash seeds and worker counts inducing the same chunks, and '
      'Relations_Trace decides bitwise equality with the canonical run; Dispatch/Poll hook traces are '
      'validated by WorkerPool_Trace.',
      'Trusted: TLC, gate tokens force the schedule, projection. Exhaustive orders for N<=3 (quick) / N<=4 '
      '(thorough). Other stages: hash seeds / worker counts are covered by their own checks as built.',
      'TLA+ model of the dispatcher; TLC-generated schedules replayed into real multiprocessing runs; trace '
      'validation', 'DESIGN.md section 4 C04')
claim('C14',
      'WorkerPool.tla with every fault plan (worker x crash point x mode) and every interleaving incl. '
      'orphans: FailNeverReturns, RaisedHasNoResults, and under fairness FaultLeadsToRaise; all 27 plans x '
      'P in {2,3} are injected into real mapping runs through the gates and the outcome / files left are '
      'checked directly and as WorkerPool_Trace behaviours with the fault plan bound from the trace header.',
      'Trusted: TLC, gates inject the failure inside the real worker process. Known finding F32 (a complete file '
      'of an earlier run survives a failing statistics / reference-marker run) is reported as KNOWN-FINDING.',
      'TLC safety + liveness on the dispatcher model; exhaustive fault injection on real code; trace validation',
      'DESIGN.md section 4 C14')
claim('C19',
      'ScratchFS.tla states the file-system discipline (ownership of scratch entries, requested outputs, '
      'inputs read-only, nothing owned at the end); TLC checks two concurrent disciplined runs with stale '
      'entries and finds the timestamp-name collision; real stages run under strace -f and every file event '
      'of their process tree is validated by ScratchFS_Trace for clean, stale, concurrent, after-failure and '
      'failing histories; result digests must not depend on the history.',
      'Trusted: TLC, strace, path classification in harness/fstrace.py. Known finding F6 (two validations '
      'naming their output within the same second) is reported as KNOWN-FINDING.',
      'TLA+ file-system ownership model + syscall trace validation', 'DESIGN.md section 4 C19')


claim('C20',
      'Sanitize.tla states which embeddings of a path the sanitiser recognises (sound for words starting '
      'with the path, blind otherwise) and the source -> log -> sink flow; the word alphabet with predicted '
      'outcomes is replayed into sanitize_paths; the assumption that sources never emit a resolvable path in '
      'an unrecognised shape is validated on real cloud-safe runs (success and every failure class incl. '
      'injected worker failures) under several directory layouts by an independent scanner of all sinks.',
      'Trusted: TLC, scanner leaks_in (os.path.exists on token prefixes).',
      'TLA+ model of the sanitiser replayed into the code + scan of real run outputs',
      'DESIGN.md section 4 C20')


claim('C13',
      'Transpose.tla transcribes the loop nest of the on-disk transposition (count pass, blocks cut by '
      'elements_at_a_time, load chunks, next-free-slot table, sub-range of the minor axis) and the range-order '
      'join of the parallel version; TLC proves Correct / PtrMonotone / CursorInv / ParallelJoinCorrect for '
      'every sparse pattern (3x3 with all sub-ranges and budgets; 4x4 in thorough). TLC emits every pattern '
      'with its transpose for replay through the serial, parallel and csc_to_csr entry points and (SparseOps) '
      'through pivot / row shuffle / column subset / amalgamation / layer copy; hook traces of matrices with '
      '>100 entries are validated by Transpose_Trace with the enforced minimum budgets.',
      'Trusted: TLC, h5py, anndata reader for file-level results, scipy (second oracle on large matrices). '
      'Defects F1, F2, F13 were repaired (fix: commits) and are listed as fixed.',
      'TLA+ transcription of the algorithm checked exhaustively; TLC-emitted scenarios replayed; trace validation',
      'DESIGN.md section 4 C13')


claim('C05',
      'RowAccess.tla states the iteration rule and the sort / merge-ranges / un-sort route of get_batch; TLC '
      'proves every row is yielded once in order and that the batch route equals direct selection for every '
      'duplicate-free row list; every matrix of the model is replayed through the real iterator in three '
      'encodings, X/layer, four numeric types, three HDF5 layouts, every chunk size and row list; larger random '
      'matrices cross the minimum budgets of the CSC->CSR conversion; the (r0,r1) sequences of real iterators '
      'are validated by RowAccess_Trace; mapping results are bitwise equal across encodings (Relations_Trace).',
      'Trusted: TLC, anndata/h5py writers of the inputs. Duplicate row lists are outside the property. The '
      'former defect F1 (CSC without stored value) is repaired.',
      'TLA+ model + TLC-emitted scenarios replayed + trace validation + encoding-paired runs',
      'DESIGN.md section 4 C05')


claim('C09',
      'Stats.tla defines the six accumulators, the work split loop of the code, the merge of worker buffers, the '
      'collapse to a coarser hierarchy; TLC proves on every small dataset that the merged result equals the '
      'direct definition for every split into files, chunk size and worker count and that the split is an '
      'ordered partition; random datasets are run through the real stage (mixed encodings, files, chunk sizes, '
      'workers) and the written file, the WorkSplit hook event, the collapsed file and the merge of per-dataset '
      'files are validated by Stats_Trace in exact integer arithmetic.',
      'Trusted: TLC; integer log2CPM inputs make the sums exact; raw-count references are compared with a '
      'float64 recomputation to 1e-9 in the projection.',
      'TLA+ model checked exhaustively + trace validation of the written statistics files',
      'DESIGN.md section 4 C09')


claim('C12',
      'Selection.tla states utility, the filled rule, the desperate phase and the greedy choice; TLC proves the '
      'coverage guarantee for every marker table (up to 3 pairs x 4 genes x {none,up,down}), targets 1 and 2 and '
      'every tie-break; real selection runs over hand-written reference-marker files are validated step by step '
      '(filled masks, every chosen gene, the returned list) by Selection_Trace, with relevant pairs derived from '
      'Taxonomy.tla and the table read from the file; the result is compared across worker counts and '
      'large-parent thresholds.',
      'Trusted: TLC, harness writer of the reference-marker format. genes_at_a_time = 1. Selections compared as '
      'sets per parent.',
      'TLA+ model checked exhaustively + step-by-step trace validation of the real loop',
      'DESIGN.md section 4 C12')


claim('C11',
      'RefMarkers.tla states the marker decision in exact rationals (penetrance, fold change, floors, strict '
      'corner), Holm step-down on interval atoms, direction, gene list, cell-count guard; TLC proves the '
      'restricted Holm correction of the code takes the same decisions as the full procedure and that Holm is '
      'monotone; every (pair, gene) decision of files written by the real stage - direct and p-value-mask route '
      '- for random references is validated by RefMarkers_Trace (soundness, completeness, direction, exact mode), '
      'plus transposes, pair-swap symmetry, independence of worker count and memory budget.',
      'Trusted: TLC, scipy.stats.ttest_ind_from_stats for the Welch p-value atoms. Decisions on a threshold / '
      'with undefined statistic are not asserted. Defects F5, F14, F15 were repaired.',
      'TLA+ decision model + trace validation of written marker files with interval atoms',
      'DESIGN.md section 4 C11')


claim('C16',
      'Validate.tla states the decision table of validate_h5ad (reject / copy needed / rounding), the identifier '
      'mapping and the choice of the integer type on symbolic magnitudes 2^k + d/2; TLC checks that rounding moves '
      'a value by at most one half to an integer, that the chosen type holds the rounded range and emits every '
      'scenario (ranges at every type boundary, identifier mixes x layer x rounding x integrality, rejected '
      'inputs), each materialised as a real h5ad in three encodings and compared field by field with the '
      'expectation; input bytes are digested before and after.',
      'Trusted: TLC, anndata writer/reader. Values beyond the extremes are checked by the projection (|out-in| <= '
      '1/2, integral). A file in which no gene can be mapped may be refused.',
      'TLA+ decision model on symbolic magnitudes; TLC-emitted scenarios replayed into validate_h5ad',
      'DESIGN.md section 4 C16')


claim('C18',
      'Pipeline.tla states the name-table contract between the four artefacts and the centroid claim on top of '
      'Election.tla; TLC proves the centroid lemma (premise => the own leaf is the unique nearest centroid in the '
      'election semantics bound by C02) exhaustively for small vectors and that the premise is tight; generated '
      'references go through the four real stages chained and the centroid query, written by the harness from '
      'the cells it generated, is mapped for six bootstrap factors; Pipeline_Trace evaluates the premise exactly '
      'on the logged draws and requires lineage, votes = B, correlation = 1 wherever it holds, and validates the '
      'artefact name tables (leaves, genes in order, every leaf pair once, parents, selected genes).',
      'Trusted: TLC, the harness generator (integer log2(CPM+1) values so that sums are exact), 1e-9 on the '
      'reported correlation. Node visits where the premise fails (one drawn gene, perfectly correlated sibling) '
      'are outside the claim and counted. Single-node top levels are not generated (finding F10, C01).',
      'TLA+ lemma by exhaustive TLC + trace validation of chained real stages with exact premise evaluation',
      'DESIGN.md section 4 C18')


def build():
    props = [json.loads(l) for l in open(ROOT / 'properties.jsonl')]
    checks = []
    na = []
    for p in props:
        pid = p['id']
        if pid in CHECKS:
            c = CHECKS[pid]
            checks.append({
                'property_id': pid,
                'quick_cmd': f'./check {pid} --tier quick',
                'thorough_cmd': f'./check {pid} --tier thorough',
                'evidence_file': f'/verif/evidence/{pid}.json',
                'replay_cmd_template': f'./check {pid} --replay {{path}}',
                'engine': 'tlc+conformance',
                'level_claimed': {'category': 'model_checking', 'text': c['text'],
                                  'design_ref': c['design_ref']},
                'level_note': c['note'],
                'technique': c['technique'],
            })
        else:
            na.append({'property_id': pid,
                       'reason': NOT_YET.get(pid, 'check not built yet in this round (planned: see '
                                             'DESIGN.md section 4); not claimed until it runs')})
    m = {
        'version': 1,
        'setup_cmd': 'cd /verif && ./setup.sh',
        'hooks': {
            'guard': 'CELL_TYPE_MAPPER_VERIF',
            'enable': 'environment variable CELL_TYPE_MAPPER_VERIF=1 (set by /verif/check); the '
                      'package is an editable install of /repo so nothing is rebuilt; trace files go '
                      'to $CELL_TYPE_MAPPER_VERIF_DIR, fault/schedule plans come from '
                      '$CELL_TYPE_MAPPER_VERIF_PLAN',
            'baseline_off_cmd': BASE_OFF,
            'source_commits': HOOK_COMMITS,
            'add_only': True,
        },
        'engines': [{
            'name': 'tlc+conformance', 'path': '/verif/check',
            'serves_properties': sorted(CHECKS),
            'kind_free_text': 'explicit TLA+ specification (spec/*.tla) checked with TLC 1.8; bound to '
                              'the implementation by TLC-emitted scenarios replayed into the real '
                              'package and by validation of recorded traces against *_Trace.tla'}],
        'checks': checks,
        'not_applicable': na,
        'notes': 'All checks run the package from /repo (editable install) with the guard on. '
                 'Exit 0 = held (KNOWN-FINDING lines possible), 1 = VIOLATION, 2 = machinery failure. '
                 'Defects repaired in /repo by unguarded "fix:" commits (known_findings.json, status fixed): 9175c8d 1f3fda5 '
                 '24b925f da590ef edf8ea0 282bdbf 7f5c6d3 1e89907 90143a2 00ad5c2 8731fdb 264d93e e476827 720780d 601be0f 36562b8 d7225b6 e42d32f cc12f34 76c75c8 946eb1f 6d65e27 1733c97 9ac12a2. The specification also covers '
                 'behaviour outside the 20 statements: extension suites ./check X01 .. X19 (DESIGN.md A.7; evidence in '
                 'evidence_ext/, DISAGREEMENT lines, not registered as claims).',
    }
    with open(ROOT / 'MANIFEST.json', 'w') as f:
        json.dump(m, f, indent=1)
    return m


HOOK_COMMITS = ['1bd1220', '739be0d', '18d954b', '6197617', '224d070', 'f292e61']

if __name__ == '__main__':
    m = build()
    import jsonschema
    jsonschema.validate(m, json.load(open('/root/.vp/MANIFEST.schema.json')))
    print('MANIFEST ok:', len(m['checks']), 'claimed,', len(m['not_applicable']), 'not applicable')
