"""C04 for the stages other than mapping: forced completion orders of the workers (through the
guarded gates) and Python hash seeds; the stage output (digest of every result dataset, run
metadata excluded) must be identical to the canonical run."""
import itertools
import json
import numpy as np

from harness import sub, build
from harness.stagefaults import STAGES, prepare, job_for
from harness.tlc import MachineryError


def order_rules(stage, ids_in_order):
    """worker i may not write its result before worker i-1 has finished"""
    prefix, keys = STAGES[stage]
    rules = []
    for i, w in enumerate(ids_in_order):
        tok = 'done.' + '_'.join(str(w[k]) for k in keys).replace('/', '_').replace(' ', '')
        if i > 0:
            prev = ids_in_order[i - 1]
            ptok = 'done.' + '_'.join(str(prev[k]) for k in keys).replace('/', '_').replace(' ', '')
            rules.append({'point': f'{prefix}.mid', 'match': w, 'wait_for': [ptok], 'timeout': 60})
        rules.append({'point': f'{prefix}.after', 'match': w, 'write': tok})
    return {'rules': rules}


def run(ctx, quick):
    nrng = np.random.default_rng(ctx.seed + 40)
    base, ref = prepare(ctx, nrng)
    stage_list = list(STAGES)
    # clean traced runs: canonical digest + worker ids in dispatch order
    jobs = []
    for st in stage_list:
        d = ctx.tmpdir(f'so_{st}_clean_')
        args, outp = job_for(st, base, ref, d)
        jobs.append({'job': {'stage': st, 'args': args, 'plan': None}, 'env': {'PYTHONHASHSEED': '0'}})
    outs = sub.run_stage_jobs(ctx, jobs)
    canon, workers = {}, {}
    for st, o in zip(stage_list, outs):
        if not o['ok']:
            raise MachineryError(f'clean run of stage {st} failed: {o["error"]}')
        canon[st] = o['digest']
        prefix, keys = STAGES[st]
        ids = []
        for pid, evs in sorted(build.read_traces(o['trace_dir']).items()):
            for e in evs:
                if e['ev'] == f'{prefix}.before':
                    ids.append({k: e[k] for k in keys})
        workers[st] = ids
    jobs, meta = [], []
    for st in stage_list:
        ids = workers[st][:3]          # n_proc = 3: the first three workers run together
        perms = list(itertools.permutations(range(len(ids))))
        if st == 'querymarkers':
            # large ("behemoth") parents are processed one at a time before the others, so most
            # completion orders of the first workers are infeasible: hash seeds / worker counts only
            perms = []
        if quick and perms and st not in ('precompute',):
            perms = [perms[-1], perms[len(perms) // 2]]
        for pm in perms:
            d = ctx.tmpdir(f'so_{st}_')
            args, outp = job_for(st, base, ref, d)
            pp = d / 'plan.json'
            json.dump(order_rules(st, [ids[i] for i in pm]), open(pp, 'w'))
            jobs.append({'job': {'stage': st, 'args': args, 'plan': str(pp)}, 'env': {'PYTHONHASHSEED': '0'}})
            meta.append((st, ('order', list(pm))))
        for hs in (['1', '5'] if quick else ['1', '2', '3', '7', 'random']):
            d = ctx.tmpdir(f'so_{st}_')
            args, outp = job_for(st, base, ref, d)
            jobs.append({'job': {'stage': st, 'args': args, 'plan': None}, 'env': {'PYTHONHASHSEED': hs}})
            meta.append((st, ('hashseed', hs)))
        for P in ((1, 2) if quick else (1, 2, 4)):
            d = ctx.tmpdir(f'so_{st}_')
            args, outp = job_for(st, base, ref, d, n_proc=P)
            jobs.append({'job': {'stage': st, 'args': args, 'plan': None}, 'env': {'PYTHONHASHSEED': '0'}})
            meta.append((st, ('workers', P)))
    # query-marker selection from TWO reference-marker files built on the same cells (every parent's census
    # ties between them): which file serves a parent must not depend on the hash seed
    import anndata
    import shutil
    a = anndata.read_h5ad(ref['path'])
    X = a.X.toarray() if hasattr(a.X, 'toarray') else np.asarray(a.X)
    anndata.AnnData(X=X[:, ::-1].copy(), obs=a.obs, var=a.var).write_h5ad(base / 'ref2.h5ad')
    (base / 'scratch2').mkdir(exist_ok=True)
    from harness import stages as _st
    with build.redirect_fds(str(base / 'stdio2.txt')):
        _st.precompute(str(base / 'ref2.h5ad'), base / 'stats2.h5', base / 'scratch2', n_proc=1, rows_at_a_time=5)
        _st.ref_markers(base / 'stats2.h5', base / 'refm2.h5', base / 'scratch2', n_proc=1)
    shutil.rmtree(base / 'scratch2', ignore_errors=True)
    two = [str(base / 'refm.h5'), str(base / 'refm2.h5')]
    canon2 = None
    for hs in (['0', '1', '5', '7'] if quick else ['0', '1', '2', '3', '5', '7', '11', 'random']):
        d = ctx.tmpdir('so_querymarkers2_')
        args, outp = job_for('querymarkers', base, ref, d)
        args['refm'] = two if hs not in ('5', '11') else two[::-1]      # listed in either order
        jobs.append({'job': {'stage': 'querymarkers', 'args': args, 'plan': None}, 'env': {'PYTHONHASHSEED': hs}})
        meta.append(('querymarkers2', ('hashseed', hs)))
    outs = sub.run_stage_jobs(ctx, jobs)
    bad = 0
    for (st, what), o in zip(meta, outs):
        if st == 'querymarkers2':
            ctx.count({'stage': st, 'what': what}, nontrivial=True)
            if not o['ok']:
                raise MachineryError(f'query markers from two reference files failed: {o["error"]}')
            if what[1] in ('5', '11'):
                continue            # the other listing order: not compared (the first listed file wins a tie)
            if canon2 is None:
                canon2 = o['digest']
            elif o['digest'] != canon2:
                bad += 1
                ctx.report('querymarkers2:hashseed:differs', f'query markers from two reference-marker files differ under '
                           f'{what}', {'stage': st, 'what': what})
            continue
        ctx.count({'stage': st, 'what': what}, nontrivial=True)
        if 'GateTimeout' in json.dumps(build.read_traces(o['trace_dir'])):
            raise MachineryError(f'gate timeout while forcing {what} on stage {st}')
        if not o['ok']:
            bad += 1
            ctx.report(f'{st}:{what[0]}:run-failed', f'stage {st} failed under {what}: {o["error"]}',
                       {'stage': st, 'what': what})
        elif o['digest'] != canon[st]:
            # worker count is allowed to change the float sums of the statistics stage? no: the
            # property says the result is the same on every run; partial sums per worker differ with
            # the work split, so for the statistics stage the worker-count comparison is to rounding
            if st == 'precompute' and what[0] == 'workers':
                continue
            bad += 1
            ctx.report(f'{st}:{what[0]}:differs', f'stage {st}: output differs from the canonical run under '
                       f'{what}', {'stage': st, 'what': what})
    ctx.part('stages', runs=len(jobs), differing=bad,
             orders=sum(1 for m in meta if m[1][0] == 'order'))
    ctx.sample({'stage_run': meta[0]})
