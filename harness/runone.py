"""Run one abstract mapping scenario in a fresh interpreter (own PYTHONHASHSEED, own process
tree for strace).  usage: python -m harness.runone <job.json> <out.json>
job: {scn, scheme, workdir, plan (path or null), mode: 'cli'|'direct_list', name_tables, keep}"""
import json
import os
import sys
import shutil
import traceback


def run_direct_list(scn, scheme, workdir, plan):
    """call run_type_assignment_on_h5ad without results_output_path: the shared-list gather"""
    import tempfile
    import pathlib
    import h5py
    import numpy as np
    from harness import build, taxo
    from cell_type_mapper.taxonomy.taxonomy_tree import TaxonomyTree
    from cell_type_mapper.type_assignment.marker_cache_v2 import create_marker_cache_from_specified_markers
    from cell_type_mapper.type_assignment.election_runner import run_type_assignment_on_h5ad
    from cell_type_mapper.utils.anndata_utils import read_df_from_h5ad
    d = pathlib.Path(tempfile.mkdtemp(prefix='direct_', dir=workdir))
    conf = build.materialise(scn, d, scheme)
    tdir = d / 'trace'
    tdir.mkdir()
    os.environ['CELL_TYPE_MAPPER_VERIF_DIR'] = str(tdir)
    if plan:
        os.environ['CELL_TYPE_MAPPER_VERIF_PLAN'] = str(plan)
    res = {'ok': True, 'error': None, 'dir': str(d)}
    try:
        with build.redirect_fds(tdir / 'stdio.txt'):
            with h5py.File(conf['precomputed_stats']['path'], 'r') as f:
                tree = TaxonomyTree.from_str(f['taxonomy_tree'][()].decode())
                ref_genes = json.loads(f['col_names'][()].decode())
            qgenes = list(read_df_from_h5ad(conf['query_path'], 'var').index.values)
            cache = d / 'cache.h5'
            create_marker_cache_from_specified_markers(
                marker_lookup=json.load(open(conf['query_markers']['serialized_lookup'])),
                reference_gene_names=ref_genes, query_gene_names=qgenes, output_cache_path=cache,
                taxonomy_tree=tree, min_markers=conf['type_assignment']['min_markers'])
            ta = conf['type_assignment']
            lookup = {lv: ta['bootstrap_factor'] for lv in tree.hierarchy[:-1]}
            lookup['None'] = ta['bootstrap_factor']
            out = run_type_assignment_on_h5ad(
                query_h5ad_path=conf['query_path'], precomputed_stats_path=conf['precomputed_stats']['path'],
                marker_gene_cache_path=cache, taxonomy_tree=tree, n_processors=ta['n_processors'],
                chunk_size=ta['chunk_size'], bootstrap_factor_lookup=lookup,
                bootstrap_iteration=ta['bootstrap_iteration'],
                rng=np.random.default_rng(ta['rng_seed']), n_assignments=ta['n_runners_up'] + 1,
                normalization=ta['normalization'], tmp_dir=str(d / 'scratch'), max_gb=1.0,
                results_output_path=None)
            from cell_type_mapper.utils.utils import clean_for_json
            res['json'] = {'results': json.loads(json.dumps(clean_for_json(out)))}
    except BaseException as e:      # noqa
        res['ok'] = False
        res['error'] = f'{type(e).__name__}: {e}'
        res['traceback'] = traceback.format_exc()
        res['json'] = None
    res['traces'] = build.read_traces(str(tdir))
    try:
        res['stdout'] = open(tdir / 'stdio.txt').read()
    except OSError:
        res['stdout'] = ''
    res['scratch_left'] = sorted(str(p.relative_to(d / 'scratch')) for p in (d / 'scratch').rglob('*'))
    return res


def main():
    job = json.load(open(sys.argv[1]))
    from harness import build, relations, maptrace
    scn, scheme = job['scn'], job.get('scheme', 'structural')
    try:
        if job.get('mode') == 'direct_list':
            r = run_direct_list(scn, scheme, job['workdir'], job.get('plan'))
        else:
            r = build.run_scenario(scn, job['workdir'], scheme=scheme,
                                   name_tables=job.get('name_tables', False), plan=job.get('plan'),
                                   damage=job.get('damage'))
        out = {'ok': r['ok'], 'error': r['error'], 'scratch_left': r['scratch_left'], 'dir': r['dir'],
               'traces': {str(k): v for k, v in r['traces'].items()},
               'stdio_tail': (r.get('stdout') or '')[-3000:],
               'has_results': bool(r.get('json') and 'results' in r['json'])}
        if out['has_results']:
            out['recs'] = relations.project(r['json']['results'], scn, scheme)
            out['markers'] = r['json'].get('marker_genes')
            out['digest'] = build.digest([r['json']['results'], r['json'].get('marker_genes')])
        if r.get('json'):
            out['json_keys'] = sorted(r['json'].keys())
            out['log'] = r['json'].get('log')
            out['config'] = r['json'].get('config')
        d = r['dir']
        out['files'] = {n: os.path.exists(os.path.join(d, 'out', n))
                        for n in ('res.json', 'res.csv', 'res.h5', 'log.txt')}
        out['out_listing'] = sorted(os.listdir(os.path.join(d, 'out'))) if os.path.isdir(os.path.join(d, 'out')) else []
        try:
            out['log_file'] = open(os.path.join(d, 'out', 'log.txt')).read()
        except OSError:
            out['log_file'] = None
        if not job.get('keep'):
            shutil.rmtree(d, ignore_errors=True)
    except Exception:
        out = {'harness_error': traceback.format_exc()}
    json.dump(out, open(sys.argv[2], 'w'))


if __name__ == '__main__':
    main()
