"""strace -f output -> ScratchFS events."""
import os
import re

SYSCALLS = 'mkdir,mkdirat,rmdir,unlink,unlinkat,rename,renameat,renameat2,openat,open,creat,clone,clone3,fork,vfork'
LINE = re.compile(r'^(\d+)\s+(\w+)\((.*)\)\s+=\s+(-?\d+|\?)')
RESUMED = re.compile(r'^(\d+)\s+<\.\.\. (\w+) resumed>(.*)\)\s+=\s+(-?\d+)')
STR = re.compile(r'"((?:[^"\\]|\\.)*)"')

PROBE = re.compile(r'^(/tmp|/var/tmp|/usr/tmp)/[a-z0-9_]{8}$')
IGNORE = ('/proc/', '/dev/', '/sys/', '/tmp/pymp-', '/etc/', '/usr/', '/lib', '/root/.pyenv', '/venv/',
          '/opt/', '/run/')


def parse(path):
    """yields (pid, syscall, [string args], flags text, retval)"""
    pending = {}
    for line in open(path, errors='replace'):
        line = line.rstrip('\n')
        if '<unfinished ...>' in line:
            m = re.match(r'^(\d+)\s+(\w+)\((.*) <unfinished', line)
            if m:
                pending[(m.group(1), m.group(2))] = m.group(3)
            continue
        m = RESUMED.match(line)
        if m:
            pid, sc, rest, ret = m.groups()
            head = pending.pop((pid, sc), '')
            args = head + rest
            yield int(pid), sc, STR.findall(args), args, int(ret)
            continue
        m = LINE.match(line)
        if m:
            pid, sc, args, ret = m.groups()
            if ret == '?':
                continue
            yield int(pid), sc, STR.findall(args), args, int(ret)


def events(path, runs, cwd='/verif'):
    """runs: {run id: dict(scratch=dir, outputs=[paths], outdirs=[dirs], inputs=[paths],
                            sentinel_dir=dir, ignore=[prefixes])}
    returns (events list, notes).  Events between BEGIN_<run> and END_<run> of the run's process
    tree only."""
    parent = {}
    run_of_pid = {}
    active = set()
    out = []
    sent = {r: os.path.realpath(v['sentinel_dir']) for r, v in runs.items()}

    def find_run(pid):
        seen = set()
        while pid is not None and pid not in seen:
            if pid in run_of_pid:
                return run_of_pid[pid]
            seen.add(pid)
            pid = parent.get(pid)
        return None

    def classify(r, p):
        v = runs[r]
        rp = os.path.normpath(p if os.path.isabs(p) else os.path.join(cwd, p))
        sc = os.path.normpath(v['scratch'])
        if rp == sc:
            return None
        if rp.startswith(sc + '/'):
            rel = rp[len(sc) + 1:]
            top = rel.split('/')[0]
            return ('scratch', top, rel == top)
        for o in v.get('outputs', []):
            if rp == os.path.normpath(o):
                return ('output', os.path.basename(rp), True)
        for i in v.get('inputs', []):
            if rp == os.path.normpath(i):
                return ('input', os.path.basename(rp), True)
        for ig in list(v.get('ignore', [])) + [sent[r]]:
            if rp == os.path.normpath(ig) or rp.startswith(os.path.normpath(ig) + '/'):
                return None
        for od in v.get('outdirs', []):
            if rp.startswith(os.path.normpath(od) + '/'):
                return ('outdir', os.path.basename(rp), True)
        if any(rp.startswith(x) for x in IGNORE) or '__pycache__' in rp:
            return None
        if PROBE.match(rp):
            return None      # tempfile._get_default_tempdir probing the system temp dir
        return ('elsewhere', rp, True)

    for pid, sc, strs, args, ret in parse(path):
        if sc in ('clone', 'clone3', 'fork', 'vfork'):
            if ret > 0:
                parent[ret] = pid
            continue
        if ret < 0 or not strs:
            continue
        p = strs[0]
        # sentinels
        base = os.path.basename(p)
        if base.startswith('BEGIN_') or base.startswith('END_'):
            r = int(base.split('_')[1])
            if r in runs and os.path.realpath(os.path.dirname(p)) == sent[r]:
                if base.startswith('BEGIN_'):
                    run_of_pid[pid] = r
                    active.add(r)
                else:
                    active.discard(r)
                    out.append({'run': r, 'op': 'end', 'cls': 'scratch', 'top': '', 'isTop': False})
                continue
        r = find_run(pid)
        if r is None:
            continue
        if r not in active:
            # after END: orphans of the run still working (finding F7) are reported as activity
            pass
        op = None
        targets = [p]
        if sc in ('mkdir', 'mkdirat'):
            op = 'mk'
        elif sc in ('rmdir', 'unlink', 'unlinkat'):
            op = 'rm'
        elif sc in ('rename', 'renameat', 'renameat2'):
            op = 'mv'
            targets = strs[:2]
        elif sc in ('open', 'openat', 'creat'):
            if sc == 'creat' or 'O_CREAT' in args or 'O_TRUNC' in args:
                op = 'mk' if 'O_CREAT' in args or sc == 'creat' else 'wr'
            elif 'O_WRONLY' in args or 'O_RDWR' in args:
                op = 'wr'
            else:
                op = 'rd'
        if op is None:
            continue
        if op == 'mv' and len(targets) == 2:
            c0, c1 = classify(r, targets[0]), classify(r, targets[1])
            if c0:
                out.append({'run': r, 'op': 'rm', 'cls': c0[0], 'top': c0[1], 'isTop': c0[2]})
            if c1:
                out.append({'run': r, 'op': 'mk', 'cls': c1[0], 'top': c1[1], 'isTop': c1[2]})
            continue
        c = classify(r, p)
        if c is None:
            continue
        if op == 'rd' and c[0] != 'scratch':
            continue
        out.append({'run': r, 'op': op, 'cls': c[0], 'top': c[1], 'isTop': c[2]})
    return out
