"""Run ONE pipeline stage in a fresh interpreter (so that it can be strace'd, run concurrently,
given its own hash seed).  usage: python -m harness.stagejob <job.json> <out.json>
job = {stage, run (int id), sentinel_dir, plan, args: {...}}; inputs are prepared by the caller.
Sentinel files BEGIN_<run> / END_<run> delimit the stage in the syscall trace."""
import hashlib
import json
import os
import sys
import traceback
import warnings


def h5_digest(path, exclude=('metadata',), only=None):
    """digest of the datasets of an HDF5 file (names, shapes, dtypes, raw bytes).  Run metadata
    (time stamps, absolute paths) is not part of a stage's result: the top-level `metadata`
    dataset is skipped and the `metadata` key of a serialised taxonomy tree is dropped."""
    import h5py
    import numpy as np
    h = hashlib.sha256()

    def visit(name, obj):
        if isinstance(obj, h5py.Dataset):
            if name in exclude or name.split('/')[0] in exclude:
                return
            if only is not None and name.split('/')[0] not in only:
                return
            h.update(name.encode())
            v = obj[()]
            if isinstance(v, bytes) and name == 'taxonomy_tree':
                t = json.loads(v.decode())
                t.pop('metadata', None)
                h.update(json.dumps(t, sort_keys=True).encode())
            elif isinstance(v, bytes):
                h.update(v)
            else:
                a = np.asarray(v)
                # the integer width chosen for index arrays is representation, not result
                if a.dtype.kind in 'iu':
                    a = a.astype(np.int64)
                h.update(str(a.shape).encode() + str(a.dtype).encode())
                h.update(a.tobytes() if a.dtype != object else repr(a.tolist()).encode())
    with h5py.File(path, 'r') as f:
        f.visititems(visit)
    return h.hexdigest()


def h5ad_digest(path):
    """content digest of an h5ad: X (values, dtype, encoding), obs, var; the time stamp inside the
    placeholder names of unmapped genes (unmapped_<n>_<timestamp>) is not part of the result"""
    import re
    import anndata
    import numpy as np
    import scipy.sparse as sp
    a = anndata.read_h5ad(path)
    h = hashlib.sha256()
    X = a.X
    h.update(type(X).__name__.encode())
    if sp.issparse(X):
        X = X.toarray()
    X = np.asarray(X)
    h.update(str(X.dtype).encode() + str(X.shape).encode() + X.tobytes())
    h.update(repr(list(a.obs.index)).encode())
    h.update(repr(a.obs.to_dict(orient='list')).encode())
    names = [re.sub(r'^(unmapped_\d+)_.*$', r'\1', str(n)) for n in a.var.index]
    h.update(repr(names).encode())
    return h.hexdigest()


def file_digest(path):
    with open(path, 'rb') as f:
        return hashlib.sha256(f.read()).hexdigest()


def run_stage(job):
    from harness import stages, build
    a = job['args']
    st = job['stage']
    res = {}
    if st == 'mapping':
        from cell_type_mapper.cli.from_specified_markers import run_mapping
        conf = a['config']
        run_mapping(conf, output_path=conf['extended_result_path'], log_path=conf['log_path'],
                    hdf5_output_path=conf['hdf5_result_path'])
        js = json.load(open(conf['extended_result_path']))
        res['digest'] = build.digest([js['results'], js['marker_genes']])
    elif st == 'precompute':
        stages.precompute(a['ref'], a['out'], a['tmp'], n_proc=a.get('n_proc', 2),
                          rows_at_a_time=a.get('rows', 7), normalization=a.get('norm', 'raw'))
        res['digest'] = h5_digest(a['out'])
    elif st == 'refmarkers':
        stages.ref_markers(a['stats'], a['out'], a['tmp'], n_proc=a.get('n_proc', 2),
                           max_gb=a.get('max_gb', 1), n_valid=a.get('n_valid', 3), exact=a.get('exact', False))
        res['digest'] = h5_digest(a['out'])
    elif st == 'pmask':
        stages.p_value_mask(a['stats'], a['out'], a['tmp'], n_proc=a.get('n_proc', 2), n_per=a.get('n_per', 3))
        res['digest'] = h5_digest(a['out'])
    elif st == 'pmarkers':
        stages.markers_from_p_mask(a['stats'], a['mask'], a['out'], a['tmp'], n_proc=a.get('n_proc', 2),
                                   n_valid=a.get('n_valid', 3))
        res['digest'] = h5_digest(a['out'])
    elif st == 'querymarkers':
        extra = {'search_for_stats_file': True} if a.get('search') else {}
        lk = stages.query_markers(a['refm'], a['genes'], a['tmp'], n_proc=a.get('n_proc', 2),
                                  n_per_utility=a.get('n_per', 2), behemoth_cutoff=a.get('behemoth', 1000000), **extra)
        lk.pop('log', None)
        res['lookup'] = lk
        res['digest'] = build.digest(lk)
    elif st == 'validate':
        from cell_type_mapper.validation.validate_h5ad import validate_h5ad
        from cell_type_mapper.gene_id.gene_id_mapper import GeneIdMapper
        with warnings.catch_warnings():
            warnings.simplefilter('ignore')
            mapper = GeneIdMapper(data=a['mapper']) if a.get('mapper') else GeneIdMapper.from_mouse()
            out = validate_h5ad(a['h5ad'], gene_id_mapper=mapper, tmp_dir=a['tmp'],
                                layer=a.get('layer', 'X'), round_to_int=a.get('round', True),
                                valid_h5ad_path=a.get('valid_path'), output_dir=a.get('output_dir'))
        res['returned'] = [str(x) if x is not None else None for x in out] \
            if isinstance(out, (tuple, list)) else str(out)
        p = res['returned'][0] if isinstance(res['returned'], list) else res['returned']
        res['digest'] = h5ad_digest(p) if p and p != 'None' and os.path.exists(p) else 'none'
    elif st == 'transpose':
        from cell_type_mapper.utils.csc_to_csr_parallel import transpose_sparse_matrix_on_disk_v2
        transpose_sparse_matrix_on_disk_v2(
            h5_path=a['src'], indices_tag='indices', indptr_tag='indptr', data_tag=a.get('data_tag', 'data'),
            indices_max=a['indices_max'], max_gb=a.get('max_gb', 1), output_path=a['out'],
            tmp_dir=a['tmp'], n_processors=a.get('n_proc', 2))
        res['digest'] = h5_digest(a['out'])
    else:
        raise ValueError(st)
    return res


def main():
    job = json.load(open(sys.argv[1]))
    sd = job.get('sentinel_dir')
    run = job.get('run', 1)
    if job.get('trace_dir'):
        os.makedirs(job['trace_dir'], exist_ok=True)
        os.environ['CELL_TYPE_MAPPER_VERIF_DIR'] = job['trace_dir']
    if job.get('plan'):
        os.environ['CELL_TYPE_MAPPER_VERIF_PLAN'] = job['plan']
    if job.get('barrier'):
        # concurrent histories: wait until every job has reached this point
        import time
        open(os.path.join(job['barrier'], f'ready_{run}'), 'w').close()
        t0 = time.time()
        while len([x for x in os.listdir(job['barrier']) if x.startswith('ready_')]) < job['n_jobs']:
            if time.time() - t0 > 60:
                break
            time.sleep(0.005)
        if job.get('align_second'):
            # every job derives the same start time from the barrier files: just after a whole second
            files = [os.path.join(job['barrier'], x) for x in os.listdir(job['barrier']) if x.startswith('ready_')]
            target = int(max(os.path.getmtime(x) for x in files)) + 4 + 0.05
            import cell_type_mapper.validation.validate_h5ad  # noqa: F401  (import cost before the wait)
            while time.time() < target:
                pass
    from harness import build
    out = {'ok': True, 'error': None, 'run': run, 'pid': os.getpid()}
    import gc
    cap = os.path.join(job.get('trace_dir') or sd or '/tmp', f'stdio_{run}.txt')
    if sd:
        open(os.path.join(sd, f'BEGIN_{run}'), 'w').close()
    try:
        with build.redirect_fds(cap):
            try:
                out.update(run_stage(job))
            except BaseException as e:    # noqa
                out['ok'] = False
                out['error'] = f'{type(e).__name__}: {e}'
                out['traceback'] = traceback.format_exc()
                del e
            gc.collect()
    finally:
        # worker processes of the stage that are still alive now that the call has returned
        try:
            import multiprocessing
            out['live_children'] = len(multiprocessing.active_children())
        except Exception:       # noqa
            out['live_children'] = -1
        if sd:
            open(os.path.join(sd, f'END_{run}'), 'w').close()
        if job.get('end_token') and job.get('trace_dir'):
            open(os.path.join(job['trace_dir'], 'tok.' + job['end_token']), 'w').close()
    try:
        out['stdio_tail'] = open(cap).read()[-2000:]
    except OSError:
        out['stdio_tail'] = ''
    json.dump(out, open(sys.argv[2], 'w'))


if __name__ == '__main__':
    main()
