"""C14 for the parallel stages other than mapping: inject one worker failure per (stage, worker,
point, mode) through the guarded gates and check that the call raises and that nothing a later stage
would accept is left at the requested output location."""
import json
import os
import pathlib
import shutil

import h5py
import numpy as np

from harness import stages, sub, build
from harness.tlc import MachineryError

POINTS = ('before', 'mid', 'after')
MODES = ('kill', 'exit3', 'raise', 'term')

STAGES = {
    # stage: (gate prefix, id keys)
    'precompute': ('stats', ('name', 'r0')),
    'refmarkers': ('refmarkers', ('col0',)),
    'pmask': ('pmask', ('col0',)),
    'pmarkers': ('pmarkers', ('col0',)),
    'querymarkers': ('select', ('parent',)),
    'transpose': ('transpose', ('i0',)),
}


def prepare(ctx, nrng):
    """inputs with enough work for >= 3 workers in every stage"""
    base = ctx.tmpdir('stagefault_inputs_')
    # at least five leaf clusters (ten pairs), whatever the seed: every stage then starts several workers
    while True:
        ref = stages.make_reference(nrng, base, n_class=2, max_sub=2, max_cl=3, cells_per=(5, 8), enc='csr')
        if len(ref['leaf_parents']) >= 5:
            break
    (base / 'scratch').mkdir()
    stages.precompute(ref['path'], base / 'stats.h5', base / 'scratch', n_proc=3, rows_at_a_time=5)
    stages.ref_markers(base / 'stats.h5', base / 'refm.h5', base / 'scratch', n_proc=3)
    stages.p_value_mask(base / 'stats.h5', base / 'mask.h5', base / 'scratch', n_proc=3)
    # a CSR matrix file for the parallel transposition
    M = (nrng.random((12, 9)) < 0.5) * nrng.integers(1, 9, size=(12, 9))
    import scipy.sparse as sp
    C = sp.csr_matrix(M.astype(np.float32))
    with h5py.File(base / 'sparse.h5', 'w') as f:
        f.create_dataset('indptr', data=C.indptr.astype(np.int64))
        f.create_dataset('indices', data=C.indices.astype(np.int64))
        f.create_dataset('data', data=C.data)
    shutil.rmtree(base / 'scratch', ignore_errors=True)
    return base, ref


def job_for(stage, base, ref, d, n_proc=3):
    d = pathlib.Path(d)
    (d / 'scratch').mkdir(parents=True, exist_ok=True)
    (d / 'out').mkdir(exist_ok=True)
    t = str(d / 'scratch')
    if stage == 'precompute':
        return {'ref': ref['path'], 'out': str(d / 'out' / 'stats.h5'), 'tmp': t, 'n_proc': n_proc, 'rows': 5}, d / 'out' / 'stats.h5'
    if stage == 'refmarkers':
        return {'stats': str(base / 'stats.h5'), 'out': str(d / 'out' / 'refm.h5'), 'tmp': t, 'n_proc': n_proc}, d / 'out' / 'refm.h5'
    if stage == 'pmask':
        return {'stats': str(base / 'stats.h5'), 'out': str(d / 'out' / 'mask.h5'), 'tmp': t, 'n_proc': n_proc}, d / 'out' / 'mask.h5'
    if stage == 'pmarkers':
        return {'stats': str(base / 'stats.h5'), 'mask': str(base / 'mask.h5'), 'out': str(d / 'out' / 'pm.h5'),
                'tmp': t, 'n_proc': n_proc}, d / 'out' / 'pm.h5'
    if stage == 'querymarkers':
        return {'refm': str(base / 'refm.h5'), 'genes': ref['genes'], 'tmp': t, 'n_proc': n_proc, 'behemoth': 2}, None
    if stage == 'transpose':
        # more processors than slices: every worker is still in the list when dispatch ends
        return {'src': str(base / 'sparse.h5'), 'out': str(d / 'out' / 'tr.h5'), 'tmp': t, 'n_proc': n_proc + 1,
                'indices_max': 9}, d / 'out' / 'tr.h5'
    raise ValueError(stage)


def next_stage_accepts(stage, out_path, base, ref, wd):
    """does the next stage's own reader take the file at the requested output location?"""
    if out_path is None or not os.path.exists(out_path):
        return False, 'no file'
    try:
        if stage == 'precompute':
            from cell_type_mapper.taxonomy.taxonomy_tree import TaxonomyTree
            from cell_type_mapper.diff_exp.score_utils import read_precomputed_stats
            # (a) through the taxonomy stored in the file; (b) by a stage that is GIVEN the taxonomy (the reference
            # marker finder takes the tree as an argument): either way the file must not pass for a complete one
            try:
                tree = TaxonomyTree.from_precomputed_stats(out_path)
                read_precomputed_stats(precomputed_stats_path=out_path, taxonomy_tree=tree, for_marker_selection=True)
                return True, 'accepted'
            except BaseException:   # noqa
                pass
            tree = TaxonomyTree.from_precomputed_stats(str(base / 'stats.h5'))
            read_precomputed_stats(precomputed_stats_path=out_path, taxonomy_tree=tree, for_marker_selection=True)
        elif stage in ('refmarkers', 'pmarkers'):
            with h5py.File(out_path, 'a') as f:
                if 'metadata' not in f:
                    f.create_dataset('metadata', data=json.dumps({'precomputed_path': str(base / 'stats.h5')}).encode())
            tmp = pathlib.Path(wd) / 'accept_tmp'
            tmp.mkdir(exist_ok=True)
            stages.query_markers(out_path, ref['genes'], tmp, n_proc=1)
        elif stage == 'pmask':
            tmp = pathlib.Path(wd) / 'accept_tmp'
            tmp.mkdir(exist_ok=True)
            stages.markers_from_p_mask(str(base / 'stats.h5'), str(out_path), str(tmp / 'x.h5'), tmp, n_proc=1)
        elif stage == 'transpose':
            with h5py.File(out_path, 'r') as f:
                ptr, idx, dat = f['indptr'][()], f['indices'][()], f['data'][()]
                if ptr[-1] != len(idx) or len(idx) != len(dat):
                    raise RuntimeError('inconsistent')
        return True, 'accepted'
    except BaseException as e:   # noqa
        return False, f'{type(e).__name__}'


def run(ctx, quick):
    nrng = np.random.default_rng(ctx.seed + 140)
    base, ref = prepare(ctx, nrng)
    # discover the workers of each stage from a clean traced run
    jobs = []
    for st in STAGES:
        d = ctx.tmpdir(f'sf_{st}_clean_')
        args, outp = job_for(st, base, ref, d)
        jobs.append({'job': {'stage': st, 'args': args, 'plan': None}})
    outs = sub.run_stage_jobs(ctx, jobs)
    workers = {}
    for st, o in zip(STAGES, outs):
        if not o['ok']:
            raise MachineryError(f'clean run of stage {st} failed: {o["error"]}\n{o.get("traceback", "")[-1200:]}')
        prefix, keys = STAGES[st]
        ids = []
        for pid, evs in build.read_traces(o['trace_dir']).items():
            for e in evs:
                if e['ev'] == f'{prefix}.before':
                    ids.append({k: e[k] for k in keys})
        workers[st] = ids
        if len(ids) < 2:
            raise MachineryError(f'stage {st}: only {len(ids)} worker(s) seen; inputs too small')
    plans = []
    for st, ids in workers.items():
        combos = [(w, pt, m) for w in ids for pt in POINTS for m in MODES]
        if quick:
            # every (crash point, failure mode) of each stage in quick, the worker rotating with the seed;
            # the last worker (still in the list when dispatch ends) gets the faults after its work
            k = ctx.seed
            combos = [(ids[-1] if pt == 'after' else ids[(k + i) % len(ids)], pt, m)
                      for i, (pt, m) in enumerate((pt, m) for pt in POINTS for m in MODES)]
        plans += [(st, w, pt, m) for w, pt, m in combos]
    jobs, meta = [], []
    for st, w, pt, m in plans:
        d = ctx.tmpdir(f'sf_{st}_')
        args, outp = job_for(st, base, ref, d)
        prefix, keys = STAGES[st]
        pp = d / 'plan.json'
        json.dump({'rules': [{'point': f'{prefix}.{pt}', 'match': w, 'fault': m}]}, open(pp, 'w'))
        jobs.append({'job': {'stage': st, 'args': args, 'plan': str(pp)}})
        meta.append((st, w, pt, m, outp, d))
    outs = sub.run_stage_jobs(ctx, jobs)
    bad = 0
    for (st, w, pt, m, outp, d), o in zip(meta, outs):
        ctx.count({'stage': st, 'worker': w, 'point': pt, 'mode': m}, nontrivial=True)
        # was the gate reached (fault really injected)?
        hit = any(e['ev'] == f'{STAGES[st][0]}.{pt}' and all(e.get(k) == v for k, v in w.items())
                  for evs in build.read_traces(o['trace_dir']).values() for e in evs)
        if not hit:
            raise MachineryError(f'stage {st}: gate {pt} of worker {w} was never reached')
        what = []
        if o['ok']:
            what.append('the call returned normally')
        acc, why = next_stage_accepts(st, outp, base, ref, d)
        if acc:
            what.append('the file left at the output location is accepted by the next stage')
        if what:
            bad += 1
            ctx.report(f'{st}:fault:{"+".join(x.split()[1] for x in what)}',
                       f'stage {st}, worker {w} fails {pt} its work by {m}: ' + '; '.join(what),
                       {'stage': st, 'worker': w, 'point': pt, 'mode': m})
    # a complete file of an EARLIER run already stands at the output location; the run that is to replace it fails
    stale_src = {'precompute': 'stats.h5', 'refmarkers': 'refm.h5', 'pmask': 'mask.h5', 'pmarkers': 'pm.h5'}
    jobs, meta2 = [], []
    for st, src in stale_src.items():
        if not (base / src).exists() or st not in workers:
            continue
        d = ctx.tmpdir(f'sf_{st}_stale_')
        args, outp = job_for(st, base, ref, d)
        shutil.copy(base / src, outp)
        prefix, keys = STAGES[st]
        pp = d / 'plan.json'
        json.dump({'rules': [{'point': f'{prefix}.mid', 'match': workers[st][0], 'fault': 'raise'}]}, open(pp, 'w'))
        jobs.append({'job': {'stage': st, 'args': args, 'plan': str(pp)}})
        meta2.append((st, outp, d))
    for (st, outp, d), o in zip(meta2, sub.run_stage_jobs(ctx, jobs)):
        ctx.count({'stage': st, 'kind': 'stale_output_then_failure'}, nontrivial=True)
        if o['ok']:
            raise MachineryError(f'stage {st}: the injected failure (stale output case) did not fail the run')
        acc, why = next_stage_accepts(st, outp, base, ref, d)
        if acc:
            bad += 1
            ctx.report(f'{st}:fault:stale-output-survives',
                       f'stage {st}: the run fails, and the complete file an earlier run had written to the same output '
                       f'location is still there and is accepted by the next stage', {'stage': st, 'kind': 'stale_output'})
    ctx.sample({'stage_plan': [meta[0][0], meta[0][1], meta[0][2], meta[0][3]], 'raised': not outs[0]['ok']})
    ctx.part('stages', fault_plans=len(plans), workers={k: len(v) for k, v in workers.items()}, bad=bad)
