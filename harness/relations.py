"""Paired real runs whose outputs must be related; the relation is decided by TLC
(spec/Relations.tla via Relations_Trace)."""
import concurrent.futures as cf
import copy
import json
import shutil
import traceback

import numpy as np

from harness import build, maptrace, taxo
from harness.traces import validate

CL = {1701: 'outputs are not bitwise identical (same cells, same order)',
      1702: 'outputs differ in a discrete field or by more than 1e-8 in a float field',
      1703: 'outputs joined on cell id are not bitwise identical',
      1704: 'outputs joined on cell id differ in a discrete field or by more than 1e-8',
      1710: 'a level that was not voted on is not the ancestor of the finer assignment / not flagged '
            'inferred / does not repeat its numbers',
      1711: 'a record does not carry exactly the levels of the stored taxonomy',
      1799: 'unknown relation'}


def _hex(x):
    return float(x).hex() if x is not None else 'none'


def _q(x):
    if x is None:
        return -999999999
    x = float(x)
    if x != x or x in (float('inf'), float('-inf')):
        return -888888888
    return int(round(max(min(x, 20.0), -20.0) * 1e8))


def project(js_results, scn, scheme):
    nm = taxo.Naming(scheme)
    hier = scn['tree']['hier']
    B = scn['cfg']['B']
    out = []
    for rec in js_results:
        lv = []
        for l in hier:
            if nm.level(l) not in rec:
                continue
            v = rec[nm.level(l)]
            f = [_hex(v.get('bootstrapping_probability')), _hex(v.get('avg_correlation')),
                 _hex(v.get('aggregate_probability'))]
            q = [_q(v.get('avg_correlation')), _q(v.get('aggregate_probability'))]
            ru = []
            if 'runner_up_assignment' in v:
                for a, p, c in zip(v['runner_up_assignment'], v['runner_up_probability'],
                                   v['runner_up_correlation']):
                    ru.append([nm.inv_node(l, a), int(round(float(p) * B))])
                    f += [_hex(p), _hex(c)]
                    q.append(_q(c))
            lv.append({'lev': l, 'a': nm.inv_node(l, v['assignment']),
                       'k': int(round(v['bootstrapping_probability'] * B)), 'ru': ru,
                       'direct': bool(v.get('directly_assigned')), 'f': f, 'q': q})
        out.append({'id': nm.inv_cell(rec['cell_id']), 'lv': lv})
    return out


def _one(args):
    scn, scheme, workdir, opts = args
    try:
        env = opts.get('env')
        r = build.run_scenario(scn, workdir, scheme=scheme, name_tables=opts.get('name_tables', False))
        out = {'scn': scn, 'scheme': scheme, 'ok': r['ok'], 'error': r['error'],
               'scratch_left': r['scratch_left']}
        if r['ok'] and r['json'] and 'results' in r['json']:
            out['recs'] = project(r['json']['results'], scn, scheme)
            out['markers'] = r['json'].get('marker_genes')
            out['digest'] = build.digest([r['json']['results'], r['json'].get('marker_genes')])
            if opts.get('want_trace'):
                tr, issues, res = maptrace.assemble(scn, r)
                out['trace'] = tr
        else:
            out['has_results'] = bool(r['json'] and 'results' in r['json'])
            out['stdio_tail'] = (r.get('stdout') or '')[-800:]
        shutil.rmtree(r['dir'], ignore_errors=True)
        return out
    except Exception:
        return {'scn': scn, 'scheme': scheme, 'harness_error': traceback.format_exc()}


def run_many(ctx, items, jobs=12):
    """items: list of (scn, scheme, opts) -> list of result dicts (same order)"""
    from harness.tlc import MachineryError
    args = [(s, sch, str(ctx.scratch), o or {}) for s, sch, o in items]
    with cf.ProcessPoolExecutor(max_workers=jobs) as ex:
        rs = list(ex.map(_one, args, chunksize=1))
    for r in rs:
        if 'harness_error' in r:
            raise MachineryError('harness error in a paired run:\n' + r['harness_error'])
    return rs


def undetermined_cells(scn, trace, Qfloat=None):
    """cells for which, at some node they visit, the two best correlations (different children)
    are closer than 1e-9 in a float recomputation over ALL genes of the node (factor 1)."""
    und = set()
    qpos = {g: i for i, g in enumerate(scn['qgenes'])}
    Q = Qfloat if Qfloat is not None else scn['Q']
    pos_of = {c: i for i, c in enumerate(scn['cells'])}
    chunk = None
    for e in trace['events']:
        if e['op'] == 'chunk':
            chunk = e
        if e['op'] != 'node' or not e['genes']:
            continue
        genes = e['genes']
        M = {lf: [scn['means'][str(lf)][g - 1] for g in genes] for lf in e['leaves']}
        typ = dict(zip(e['leaves'], e['types']))
        for row in e['rows']:
            cid = chunk['names'][row]
            q = [Q[pos_of[cid]][qpos[g]] for g in genes]
            cs = sorted(((maptrace.pearson(q, M[lf]), lf) for lf in M), reverse=True)
            # near-tie rule: every leaf within 1e-9 of the best must belong to the same child
            if len({typ[lf] for c, lf in cs if cs[0][0] - c < 1e-9}) > 1:
                und.add(cid)
    return und


def decide(ctx, pairs, name):
    """pairs: list of dict(rel, tree, base, image, levels, ids, inferred, meta).  Returns
    list of (pair, verdict)."""
    recs = []
    for p in pairs:
        recs.append({'rel': p['rel'], 'tree': p['tree'], 'base': p['base'], 'image': p['image'],
                     'levels': p.get('levels', []), 'ids': p.get('ids', []),
                     'inferred': p.get('inferred', []), 'events': [0]})
    vs = validate(ctx, 'Relations_Trace', recs, name)
    return list(zip(pairs, vs))
