"""Run many abstract mapping scenarios through the real mapper (in parallel), assemble their
traces and have TLC validate them against MapRun_Trace.  Shared by C01, C02, C03, C08, C15."""
import concurrent.futures as cf
import json
import os
import random
import re
import shutil
import traceback

from harness import build, maptrace, taxo
from harness.traces import validate

SCHEMES = ['structural', 'reversed', 'shared', 'slashed', 'longtop']

CLAUSES = {
    101: ('C01', 'chunk after the run finished'),
    102: ('C01', 'a chunk ended with cells lacking an assignment at some level'),
    103: ('C01', 'chunks do not tile the query rows in order'),
    104: ('C01', 'chunk length differs from min(ceil(n/P), chunk_size) / last chunk wrong'),
    105: ('C01', 'number of cell names differs from chunk length'),
    106: ('C01', 'cell identifiers paired with the wrong rows'),
    110: ('C01', 'node visited outside a chunk'),
    111: ('C01', 'visited parent is not a node of the run taxonomy'),
    112: ('C01', 'cells examined at a parent are not exactly those assigned to it'),
    113: ('C01', 'a cell was assigned twice at one level'),
    114: ('C01', 'missing output for a visited cell'),
    115: ('C01', 'single-child parent: assignment is not that child'),
    120: ('C01', 'results produced before all chunks were complete'),
    121: ('C01', 'number of records differs from number of query cells'),
    122: ('C01', 'records not in query order / wrong cell id'),
    123: ('C01', 'record lacks a level of the stored taxonomy (or has extra keys)'),
    124: ('C01', 'assignment is not a node of its level'),
    125: ('C01', 'assignments of a cell do not form one root-to-leaf path'),
    126: ('C01', 'voted level differs from the election / not flagged directly assigned'),
    127: ('C01', 'inferred level flagged as directly assigned or carrying runner-up fields'),
    130: ('C01', 'run ended with an error although the marker table is usable at the root'),
    131: ('C01', 'run reported failure after producing chunks'),
    190: ('C01', 'state type invariant'),
    191: ('C01', 'partial assignments do not form a path of the run taxonomy'),
    201: ('C02', 'number of candidate sets differs from iteration count'),
    202: ('C02', 'reported votes of a child are outside what the drawn subsets allow'),
    203: ('C02', 'a child that received votes is missing from winner/runners-up'),
    204: ('C02', 'votes of winner and runners-up do not add up to the iteration count'),
    205: ('C02', 'listed votes plus certain votes of unlisted children exceed the iteration count'),
    210: ('C02', 'reference rows are not exactly the leaves below the node'),
    211: ('C02', 'leaf credited to the wrong child'),
    212: ('C02', 'number of bootstrap draws differs from iteration count'),
    213: ('C02', 'bootstrap subset has wrong size / duplicates / out of range'),
    230: ('C02', 'average correlation differs from the mean winning correlation (numeric leaf)'),
    301: ('C03', 'winner is not a child of the parent'),
    302: ('C03', 'winner votes not in 1..B'),
    303: ('C03', 'more runners-up than requested'),
    304: ('C03', 'runner-up is not a sibling of the winner / equals the winner'),
    305: ('C03', 'runner-up listed twice'),
    306: ('C03', 'runner-up probability not positive or larger than the winner\'s'),
    307: ('C03', 'runner-up probabilities not in non-increasing order'),
    308: ('C03', 'winner plus runners-up exceed 1'),
    309: ('C03', 'winner plus runners-up below 1 although all siblings could be listed'),
    310: ('C03', 'single-child parent: probability not 1 or runners-up present'),
    311: ('C03', 'probability is not a whole number of votes out of the iteration count'),
    312: ('C03', 'runner-up lists of different length'),
    320: ('C03', 'record probability differs from the elected vote share'),
    321: ('C03', 'aggregate probability is not the running product'),
    322: ('C03', 'inferred level does not repeat the numbers of the voted descendant'),
    330: ('C03', 'correlation outside [-1,1]'),
    331: ('C03', 'single-child correlation is not that of the nearest real choice'),
    332: ('C03', 'inferred level does not repeat the float fields of the voted descendant'),
    333: ('C02', 'runner-up correlation differs from the mean over its iterations (numeric leaf)'),
    334: ('C03', 'single child at the top level: no level with a real choice above'),
    390: ('C03', 'votes outside 1..B'),
    801: ('C08', 'genes used at a node differ from the reconciled marker set'),
    802: ('C08', 'node with a choice has no usable gene'),
    830: ('C08', 'run mapped although root unusable / marker unknown to reference / no overlap'),
}


def classify_failure(scn, r):
    """signature for a run that raised (used for known findings)"""
    rh = maptrace.run_hier(scn)
    tj = scn['tree']
    top_nodes = tj['nodes'][tj['hier'].index(rh[0])]
    txt = (r.get('stdout') or '') + (r.get('traceback') or '')
    if len(top_nodes) == 1 and 'KeyError: None' in txt:
        return 'map:single-top-node:KeyError-None'
    m = re.search(r"No markers at parent node '([^']*)' were present", (r.get('error') or '') + txt)
    if m:
        # irrelevant = not a parent with a choice in the taxonomy used for the run
        nm = taxo.Naming(r['scheme'])
        key = m.group(1)
        relevant = False
        if key == 'None':
            relevant = True
        else:
            try:
                lev_name, node_name = key.split('/', 1)
                lev = nm.inv_level(lev_name, tj['hier'])
                node = nm.inv_node(lev, node_name)
                if lev in rh[:-1]:
                    # children in the run tree: descend through dropped levels
                    i = tj['hier'].index(lev)
                    kids = dict((a, b) for a, b in tj['kids'][i])[node]
                    j = i + 1
                    while tj['hier'][j] not in rh:
                        nxt = []
                        for k in kids:
                            nxt += dict((a, b) for a, b in tj['kids'][j])[k]
                        kids = nxt
                        j += 1
                    relevant = len(kids) > 1
            except (KeyError, ValueError):
                relevant = False
        if not relevant:
            return 'map:irrelevant-key-no-overlap'
    err = (r.get('error') or '?').split(':')[0]
    return f'map:unexpected-error:{err}'


def _one(args):
    scn, scheme, workdir, votes, name_tables, keep = args
    try:
        r = build.run_scenario(scn, workdir, scheme=scheme, name_tables=name_tables)
        out = {'scn': scn, 'scheme': scheme, 'ok': r['ok'], 'error': r['error'],
               'scratch_left': r['scratch_left'], 'dir': r['dir']}
        if r['ok']:
            tr, issues, res = maptrace.assemble(scn, r, votes=votes)
            num, chk, und = maptrace.numeric_checks(scn, tr, res)
            sc = maptrace.single_child_corr_checks(scn, tr, res)
            out.update(trace=tr, issues=issues + num + sc, corr_checked=chk, corr_undetermined=und)
        else:
            out['signature'] = classify_failure(scn, r)
            out['trace'] = {'run': maptrace.run_record(scn, votes), 'events': [{'op': 'failed'}]}
            out['issues'] = []
            if r['json'] and 'results' in r['json']:
                # the run raised after writing result records: still look at them
                # (e.g. the HDF5 writer failed after the JSON file was complete): the records are validated by
                # TLC like those of a successful run, and the failure itself is reported under clause 130
                try:
                    tr, issues, _ = maptrace.assemble(scn, r, votes=votes)
                    out['trace'] = tr
                    out['issues'] = issues + [(130, f'the run raised after writing its result records: {r["error"]}')]
                    out['results_despite_failure'] = True
                except Exception:
                    pass
            out['stdio_tail'] = (r.get('stdout') or '')[-1500:]
        if not keep:
            shutil.rmtree(r['dir'], ignore_errors=True)
        return out
    except Exception:
        return {'scn': scn, 'scheme': scheme, 'harness_error': traceback.format_exc()}


def campaign(ctx, scns, name, votes=True, name_tables=False, keep=False, jobs=12, schemes=None, focus=None):
    """returns list of result dicts each with 'verdict' (TLC) and 'clauses' = list of
    (clause, property, text, detail)."""
    from harness.tlc import MachineryError
    schemes = schemes or SCHEMES
    args = [(s, schemes[i % len(schemes)], str(ctx.scratch), votes, name_tables, keep)
            for i, s in enumerate(scns)]
    with cf.ProcessPoolExecutor(max_workers=jobs) as ex:
        results = list(ex.map(_one, args, chunksize=1))
    for r in results:
        if 'harness_error' in r:
            raise MachineryError('harness error while running a scenario:\n' + r['harness_error'])
    verdicts = validate(ctx, 'MapRun_Trace', [r['trace'] for r in results], name)
    for r, v in zip(results, verdicts):
        r['verdict'] = v
        cl = []
        if not v['accepted']:
            code = v['inv']
            prop, text = CLAUSES.get(code, ('C01', f'unknown clause {code}'))
            ev = r['trace']['events'][v['reached'] - 1] if v['reached'] - 1 < len(r['trace']['events']) else None
            if code == 0:
                prop, text = 'C01', f'event not enabled: {str(ev)[:200]}'
            cl.append((code, prop, text, {'event_index': v['reached'], 'event': ev}))
        for code, msg in r['issues']:
            prop, text = CLAUSES.get(code, ('C03', '?'))
            cl.append((code, prop, text, {'detail': msg}))
        r['clauses'] = cl
    if focus is not None:
        # a trace that stopped at a clause of ANOTHER property may hide a clause of the property in focus
        # further down: validate it again without the vote / draw clauses (C02) and keep what belongs to `focus`
        again = [r for r in results if not r['verdict']['accepted'] and r['clauses']
                 and r['clauses'][0][1] != focus and r['clauses'][0][0] in (201, 202, 203, 204, 205, 210, 211, 212, 213)]
        if again:
            import copy
            t2 = []
            for r in again:
                t = copy.deepcopy(r['trace'])
                t['run']['votes'] = False
                t['run']['draws'] = False
                t2.append(t)
            for r, v in zip(again, validate(ctx, 'MapRun_Trace', t2, name + '_focus', counts_as_impl=False)):
                if not v['accepted']:
                    prop, text = CLAUSES.get(v['inv'], ('C01', f'unknown clause {v["inv"]}'))
                    if prop == focus:
                        ev = r['trace']['events'][v['reached'] - 1] if v['reached'] - 1 < len(r['trace']['events']) else None
                        r['clauses'].append((v['inv'], prop, text, {'event_index': v['reached'], 'event': ev}))
    return results


def report_for(ctx, results, pid, what='scenario'):
    """report the clauses that belong to property `pid`; count the rest as blocked"""
    blocked = 0
    nviol = 0
    for r in results:
        mine = [c for c in r['clauses'] if c[1] == pid]
        other = [c for c in r['clauses'] if c[1] != pid]
        if other and not r['verdict']['accepted']:
            blocked += 1
        for code, prop, text, detail in mine[:2]:
            if code in (130,) and 'signature' in r:
                sig = r['signature']
            elif code == 334:
                sig = 'map:single-top-node:correlation'
            else:
                sig = f'clause:{code}'
            if ctx.report(sig, f'{text} [clause {code}] {json.dumps(detail)[:600]} '
                               f'error={r.get("error")}',
                          {'scn': r['scn'], 'scheme': r['scheme'], 'clause': code}):
                nviol += 1
    return nviol, blocked
