"""C12 - selected query markers cover every cluster pair as far as possible.

1. MC   : Selection_MC - the greedy loop over every marker table (pairs x genes x {none, up,
          down}), per-direction target 1 and 2, every tie-break: Coverage, Useful, AllFilled at
          termination, FilledJustified.
2. C->S : hand-written reference-marker files (dense / sparse tables, pairs without markers,
          fewer markers than the target in one or both directions) over random taxonomies are
          given to the real create_marker_gene_lookup_from_ref_list (query gene subsets, targets
          1..3, per-parent overrides, 1-3 workers, large-parent thresholds 1 / 2 / large); the hook
          events of every parent's loop and the returned lists are validated step by step by
          Selection_Trace, whose relevant pairs come from Taxonomy.tla and whose marker table is
          read from the file by the harness.
3. relations: the returned table is identical for every worker count and large-parent threshold.
"""
import concurrent.futures as cf
import json
import os
import pathlib
import random
import shutil
import tempfile
import warnings

import h5py
import numpy as np

from harness import build, maptrace, taxo
from harness.tlc import run_tlc, MachineryError
from harness.traces import validate

PID = 'C12'
CL = {1201: 'pairs worked on are not the leaf pairs the parent must discriminate',
      1202: 'a (pair, direction) slot was marked filled / unfilled against the rule',
      1203: 'pairs with at most the target number of markers did not get all their markers up front',
      1204: 'not exactly one gene chosen between two updates', 1205: 'selected gene is not a query gene / marks nothing',
      1206: 'gene selected twice', 1207: 'gene taken up front that marks no desperate pair',
      1208: 'selected gene does not have maximal positive utility',
      1209: 'selection continued after every slot was filled',
      1210: 'parent with nothing to discriminate got genes', 1211: 'returned list differs from the genes chosen / has duplicates',
      1212: 'loop stopped although a useful gene remained and slots were unfilled',
      1213: 'a pair has fewer selected markers than min(2 x target, markers available in the query)',
      1214: 'a selected gene marks no relevant pair', 1215: 'a selected gene is not in the query',
      1220: 'selection differs between worker counts / large-parent thresholds', 1221: 'stage raised'}


def gen_case(rng):
    tj = maptrace.random_tree(rng, 3, 7, 3)
    leaves = tj['nodes'][-1]
    NG = rng.randint(4, 12)
    dens = rng.choice([0.15, 0.4, 0.8])
    table = []
    for i, a in enumerate(leaves):
        for b in leaves[i + 1:]:
            up, down = [], []
            if rng.random() < 0.12:
                table.append([a, b, [], []])       # a pair without any marker
                continue
            for g in range(1, NG + 1):
                r = rng.random()
                if r < dens / 2:
                    up.append(g)
                elif r < dens:
                    down.append(g)
            if rng.random() < 0.2:
                down = []                          # only one direction available
            table.append([a, b, up, down])
    q = rng.sample(range(1, NG + 1), rng.randint(1, NG)) + [NG + 1]
    rng.shuffle(q)
    return {'tree': tj, 'NG': NG, 'table': table, 'qgenes': q, 'Nper': rng.randint(1, 3),
            'P': rng.randint(1, 3), 'behemoth': rng.choice([1, 2, 1000000]),
            'override': rng.random() < 0.3, 'kid_order': rng.choice([0, rng.randint(1, 10 ** 6), rng.randint(1, 10 ** 6), rng.randint(1, 10 ** 6)])}


def write_files(c, d, scheme):
    nm = taxo.Naming(scheme)
    tj = c['tree']
    leaf = tj['hier'][-1]
    tree = taxo.dict_from_tree(tj, nm)
    leaves = sorted(nm.node(leaf, n) for n in tj['nodes'][-1])
    if c.get('kid_order', 0):
        # children listed in another order than the alphabetical one (e.g. order of first appearance in a table): the
        # pairs below a parent are then asked for in an order that is neither sorted nor contiguous.  Among 60 orders
        # the first one is taken under which some parent asks for rows i_1..i_n with i_n - i_1 = n - 1 that are NOT
        # one block (the package's own pair enumeration is used to pick the input, never to judge the output).
        import copy as _copy
        from cell_type_mapper.taxonomy.taxonomy_tree import TaxonomyTree
        pos = {}
        for i_, a_ in enumerate(leaves):
            for b_ in leaves[i_ + 1:]:
                pos[(a_, b_)] = len(pos)
        base_tree, pick = tree, None
        for attempt in range(60):
            r_ = random.Random(c['kid_order'] + attempt)
            t_ = _copy.deepcopy(base_tree)
            for lv in t_['hierarchy'][:-1]:
                for k_ in t_[lv]:
                    r_.shuffle(t_[lv][k_])
                items = list(t_[lv].items())
                r_.shuffle(items)
                t_[lv] = dict(items)
            if pick is None:
                pick = t_
            try:
                tt = TaxonomyTree(data=_copy.deepcopy(t_))
                for par in tt.all_parents:
                    idx = [pos[(x[1], x[2])] for x in tt.leaves_to_compare(par)]
                    if len(idx) > 1 and idx[-1] - idx[0] == len(idx) - 1 and idx != list(range(idx[0], idx[0] + len(idx))):
                        pick = t_
                        raise StopIteration
            except StopIteration:
                break
            except Exception:                      # noqa
                pass
        tree = pick
    genes = [build.gene_name(g, scheme) for g in range(1, c['NG'] + 1)]
    stats = os.path.join(d, 'stats.h5')
    build.write_stats(stats, tree, {l: [1.0] * c['NG'] for l in leaves}, genes,
                      n_cells={l: 3 for l in leaves})
    # pair index: alphabetical leaf names, as the package writes it
    pair_to_idx = {nm.level(leaf): {}}
    pairs = []
    for i, a in enumerate(leaves):
        pair_to_idx[nm.level(leaf)][a] = {}
        for b in leaves[i + 1:]:
            pair_to_idx[nm.level(leaf)][a][b] = len(pairs)
            pairs.append((a, b))
    rows = {}
    for a, b, up, down in c['table']:
        na, nb = nm.node(leaf, a), nm.node(leaf, b)
        key = (na, nb) if na < nb else (nb, na)
        rows[key] = (sorted(up), sorted(down))
    up_ptr, up_idx, dn_ptr, dn_idx = [0], [], [0], []
    for key in pairs:
        up, down = rows.get(key, ([], []))
        up_idx += [g - 1 for g in up]
        dn_idx += [g - 1 for g in down]
        up_ptr.append(len(up_idx))
        dn_ptr.append(len(dn_idx))

    def by_gene(ptr, idx):
        cols = [[] for _ in range(c['NG'])]
        for p in range(len(pairs)):
            for g in idx[ptr[p]:ptr[p + 1]]:
                cols[g].append(p)
        gp, gi = [0], []
        for g in range(c['NG']):
            gi += cols[g]
            gp.append(len(gi))
        return gp, gi
    refm = os.path.join(d, 'refm.h5')
    with h5py.File(refm, 'w') as f:
        f.create_dataset('gene_names', data=json.dumps(genes).encode())
        f.create_dataset('pair_to_idx', data=json.dumps(pair_to_idx).encode())
        f.create_dataset('n_pairs', data=len(pairs))
        f.create_dataset('metadata', data=json.dumps({'precomputed_path': stats}).encode())
        g = f.create_group('sparse_by_pair')
        g.create_dataset('up_pair_idx', data=np.array(up_ptr, dtype=np.int64))
        g.create_dataset('up_gene_idx', data=np.array(up_idx, dtype=np.int64))
        g.create_dataset('down_pair_idx', data=np.array(dn_ptr, dtype=np.int64))
        g.create_dataset('down_gene_idx', data=np.array(dn_idx, dtype=np.int64))
        g = f.create_group('sparse_by_gene')
        a, b = by_gene(up_ptr, up_idx)
        g.create_dataset('up_gene_idx', data=np.array(a, dtype=np.int64))
        g.create_dataset('up_pair_idx', data=np.array(b, dtype=np.int64))
        a, b = by_gene(dn_ptr, dn_idx)
        g.create_dataset('down_gene_idx', data=np.array(a, dtype=np.int64))
        g.create_dataset('down_pair_idx', data=np.array(b, dtype=np.int64))
    return refm, pairs, leaves, nm


def _case(args):
    c, scheme, wd, variant = args
    from cell_type_mapper.type_assignment.marker_cache_v2 import create_marker_gene_lookup_from_ref_list
    d = tempfile.mkdtemp(dir=wd)
    out = {'traces': [], 'issues': [], 'lookup': None}
    try:
        os.environ['CELL_TYPE_MAPPER_VERIF_DIR'] = d
        refm, pairs, leaves, nm = write_files(c, d, scheme)
        tj = c['tree']
        leaf = tj['hier'][-1]
        qn = [build.gene_name(g, scheme) for g in c['qgenes']]
        override = None
        if c['override']:
            par = maptrace.all_parents(tj)
            p = par[len(par) // 2]
            key = None if p == [0, 0] else (nm.level(p[0]), nm.node(p[0], p[1]))
            # the root is addressed by the key None
            override = {key: c['Nper'] + 1}
        P, beh = (c['P'], c['behemoth']) if variant is None else variant
        os.makedirs(os.path.join(d, 'scratch'))
        with warnings.catch_warnings(), build.redirect_fds(os.path.join(d, 'stdio.txt')):
            warnings.simplefilter('ignore')
            lk = create_marker_gene_lookup_from_ref_list(
                [refm], query_gene_names=qn, n_per_utility=c['Nper'], n_per_utility_override=override,
                n_processors=P, behemoth_cutoff=beh, tmp_dir=os.path.join(d, 'scratch'))
        lk.pop('log', None)
        out['lookup'] = lk
        if os.listdir(os.path.join(d, 'scratch')):
            out['issues'].append((1222, f'scratch left: {os.listdir(os.path.join(d, "scratch"))}'))
        if variant is not None:
            return out
        # hook events per parent
        evs_by_parent = {}
        for pid, evs in build.read_traces(d).items():
            cur = None
            for e in evs:
                if e['ev'] == 'SelStart':
                    cur = json.dumps(e['parent'])
                    evs_by_parent[cur] = {'start': e, 'events': []}
                elif e['ev'] in ('SelFilled', 'SelChose') and cur is not None:
                    evs_by_parent[cur]['events'].append(e)
        hier = tj['hier']
        for p in maptrace.all_parents(tj):
            key = 'None' if p == [0, 0] else f'{nm.level(p[0])}/{nm.node(p[0], p[1])}'
            pj = json.dumps(None if p == [0, 0] else [nm.level(p[0]), nm.node(p[0], p[1])])
            res = [build.gene_id(g, scheme) for g in lk.get(key, [])]
            nper = c['Nper']
            if override and (None if p == [0, 0] else (nm.level(p[0]), nm.node(p[0], p[1]))) in override:
                nper = c['Nper'] + 1
            t = {'tree': tj, 'parent': p, 'Nper': nper, 'qgenes': c['qgenes'], 'table': c['table'],
                 'pairs': [], 'events': []}
            if key not in lk:
                out['issues'].append((1221, f'parent {key} missing from the returned table'))
                continue
            if pj in evs_by_parent:
                st = evs_by_parent[pj]['start']
                # thinned gene order of the code: reference genes that are in the query, in reference order
                t['pairs'] = [[nm.inv_node(leaf, a), nm.inv_node(leaf, b)] for a, b in st['taxonomy_pairs']]
                for e in evs_by_parent[pj]['events']:
                    if e['ev'] == 'SelFilled':
                        slots = []
                        for i, row in enumerate(e['filled']):
                            a, b = t['pairs'][i]
                            if row[1]:
                                slots.append([a, b, 1])
                            if row[0]:
                                slots.append([a, b, 2])
                        t['events'].append({'op': 'filled', 'slots': slots})
                    else:
                        t['events'].append({'op': 'chose', 'g': build.gene_id(e['gene'], scheme)})
            t['events'].append({'op': 'end', 'result': res})
            out['traces'].append(t)
    except Exception as e:
        import traceback
        out['issues'].append((1221, f'{type(e).__name__}: {e} | {traceback.format_exc()[-500:]}'))
    finally:
        shutil.rmtree(d, ignore_errors=True)
    return out


def run(ctx):
    quick = ctx.tier == 'quick'
    rng = random.Random(ctx.seed + 12)
    ctx.cov['rule'] = ('one case = one parent node of one real selection run over a hand-written reference-marker '
                       'table (random taxonomy <=3 levels / 6 leaves, 3-9 genes, densities 0.15-0.8, pairs without '
                       'markers, one-direction pairs, query gene subsets, targets 1-3, overrides); non-trivial = '
                       'parent with at least one pair; distinct by (table, parent, query genes, target).')
    ctx.cov['trusted_base'] = ['TLC 1.8', 'harness writer of the reference-marker file format']
    ctx.assumptions += ['"the same selection" is compared as a set of genes per parent: the order of the returned list '
                        'differs between the large-parent and the ordinary code path and carries no meaning '
                        '(markers are re-sorted by reference index when used)',
                        'genes_at_a_time = 1 (the default); larger values pop from a stale ordering and are outside '
                        'the model']
    if ctx.only in (None, 'mc'):
        for NP, NG, n in ((2, 4, 1), (2, 4, 2), (3, 3, 1)) if quick else ((2, 4, 1), (2, 4, 2), (3, 3, 1), (3, 3, 2), (2, 5, 2), (3, 4, 2)):
            cfg = (f'SPECIFICATION Spec\nCONSTANTS NP = {NP} NG = {NG} Nper = {n}\nINVARIANT CoverageAtDone\n'
                   'INVARIANT AlwaysUseful\nINVARIANT AllFilledAtDone\nINVARIANT FilledJustified\n'
                   'CHECK_DEADLOCK FALSE\n')
            res = run_tlc('Selection_MC', cfg_text=cfg, timeout=7200)
            ctx.add_tlc(f'Selection_MC_{NP}x{NG}_n{n}', res)
            if not res.ok:
                raise MachineryError(res.error_trace)
    if ctx.only in (None, 'c2s'):
        wd = str(ctx.tmpdir('c12_'))
        n = 40 if quick else 1500
        cases = [gen_case(rng) for _ in range(n)]
        schemes = ['structural', 'reversed', 'shared']
        jobs = [(c, schemes[i % 3], wd, None) for i, c in enumerate(cases)]
        # variants: other worker counts / thresholds must give the same table
        vjobs = []
        for i, c in enumerate(cases):
            for var in ((1, 1000000), (3, 1), (2, 2)):
                if (c['P'], c['behemoth']) != var:
                    vjobs.append((i, (c, schemes[i % 3], wd, var)))
        if quick:
            vjobs = vjobs[:40]
        with cf.ProcessPoolExecutor(max_workers=8) as ex:
            outs = list(ex.map(_case, jobs))
            vouts = list(ex.map(_case, [j for _, j in vjobs]))
        traces, owners = [], []
        for c, o in zip(cases, outs):
            for code, msg in o['issues'][:2]:
                ctx.report(f'clause:{code}', f'{CL.get(code, code)}: {msg}', {'case': c})
            for t in o['traces']:
                ctx.count({'t': [t['table'], t['parent'], t['qgenes'], t['Nper'], t['tree']]},
                          nontrivial=len(t['pairs']) > 0)
                traces.append(t)
                owners.append(c)
        for (i, j), vo in zip(vjobs, vouts):
            ctx.cov['evaluations'] += 1
            if vo['issues']:
                ctx.report('clause:1221', f'variant {j[3]}: {vo["issues"][0][1]}', {'case': cases[i], 'variant': j[3]})
            elif outs[i]['lookup'] is not None and \
                    {k: sorted(map(str, v)) for k, v in vo['lookup'].items()} != \
                    {k: sorted(map(str, v)) for k, v in outs[i]['lookup'].items()}:
                ctx.report('clause:1220', f'{CL[1220]}: (P, cutoff)={j[3]} vs ({cases[i]["P"]}, {cases[i]["behemoth"]})',
                           {'case': cases[i], 'variant': j[3]})
        vs = validate(ctx, 'Selection_Trace', traces, 'Selection_Trace')
        rej = 0
        for t, c, v in zip(traces, owners, vs):
            if not v['accepted']:
                rej += 1
                ev = t['events'][v['reached'] - 1] if v['reached'] - 1 < len(t['events']) else None
                ctx.report(f'clause:{v["inv"]}', f'{CL.get(v["inv"], v["inv"])} - parent {t["parent"]}, event '
                           f'{v["reached"]}: {str(ev)[:200]}', {'case': c, 'parent': t['parent']})
        big = [t for t in traces if len(t['events']) > 3]
        if big:
            ctx.sample({'parent': big[0]['parent'], 'Nper': big[0]['Nper'], 'table': big[0]['table'][:4],
                        'events': big[0]['events'][:6]})
        ctx.part('c2s', runs=len(cases), parent_traces=len(traces), rejected=rej, variants=len(vjobs),
                 events=sum(len(t['events']) for t in traces))
        import copy
        st = []
        for t in big[:25]:
            t2 = copy.deepcopy(t)
            if t2['events'][-1]['result']:
                t2['events'][-1]['result'] = t2['events'][-1]['result'][:-1]
                st.append(t2)
        if st:
            sv = validate(ctx, 'Selection_Trace', st, 'selftest', counts_as_impl=False)
            acc = sum(1 for v in sv if v['accepted'])
            ctx.cov['selftest'] = {'corrupted': len(st), 'rejected': len(st) - acc}
            if acc:
                raise MachineryError('self-test: a truncated marker list was accepted')


def replay(ctx, path):
    case = json.load(open(pathlib.Path(path) / 'replay.json'))['case']
    wd = str(ctx.tmpdir('c12_'))
    o = _case((case['case'], 'structural', wd, None))
    for code, msg in o['issues']:
        ctx.report(f'clause:{code}', msg, case)
    vs = validate(ctx, 'Selection_Trace', o['traces'], 'replay')
    for t, v in zip(o['traces'], vs):
        if not v['accepted']:
            ctx.report(f'clause:{v["inv"]}', CL.get(v['inv']), case)
    ctx.count(case)
