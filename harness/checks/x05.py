"""X05 (extension suite, not one of the 20 listed statements) - mapping with on-the-fly translation of the
query's gene identifiers to Ensembl ids (map_to_ensembl) and the summary metadata file.

C->S : random mapping scenarios (as in C01 / C02 / C08) in which the reference and the marker table use
       Ensembl ids of the package's mouse table while the query file names the same genes by symbol, by
       Ensembl id or by versioned Ensembl id, and names genes unknown to the reference by an unmappable
       name or by the symbol of an unrelated gene.  The run is validated by MapRun_Trace under the run
       record in which the query genes are the TRANSLATED ones: records (1xx), votes recomputed from the
       logged draws (2xx), contract (3xx), genes used at every node = reconciled markers (8xx) - i.e. the
       translation is positional and by name exactly as MarkerTable.tla reconciles.
       Summary file: n_mapped_cells = number of query cells, n_mapped_genes = query genes minus the
       unmappable ones.
"""
import json
import os
import random

from harness import maptrace
from harness.campaign import campaign, CLAUSES
from harness.tlc import MachineryError

PID = 'X05'


def run(ctx):
    quick = ctx.tier == 'quick'
    rng = random.Random(ctx.seed + 105)
    ctx.cov['rule'] = ('one case = one random mapping scenario run with map_to_ensembl on a query that names genes by '
                       'symbol / id / versioned id / unmappable name; non-trivial = more than one level or cell; '
                       'distinct by canonical JSON.')
    ctx.cov['trusted_base'] = ['TLC 1.8', 'the 60 (symbol, id) pairs read from the package\'s own mouse table']
    n = 60 if quick else 1000
    scns = []
    while len(scns) < n:
        s = maptrace.gen_scenario(rng, max_levels=3, max_leaves=6, min_leaves=2, ncell=rng.randint(2, 10))
        if len(s['tree']['nodes'][0]) == 1:
            continue                       # single top node: finding F10 (C01)
        if not any(g <= s['G'] and g % 3 in (1, 2) for g in s['qgenes']):
            continue                       # at least one query gene is an Ensembl id (species detection)
        s['cfg']['flatten'] = False
        scns.append(s)
    rs = campaign(ctx, scns, 'MapRun_Trace_ensembl', schemes=['ensembl'], keep=True)
    bad = 0
    for r in rs:
        ctx.count({'scn': r['scn']}, nontrivial=len(r['scn']['cells']) > 1 or len(r['scn']['tree']['hier']) > 1)
        for code, prop, text, detail in r['clauses'][:2]:
            if code == 130 and r.get('signature') == 'map:irrelevant-key-no-overlap':
                continue                   # finding F4 (C01 / C08)
            bad += 1
            ctx.report(f'clause:{code}', f'[{prop}] {text} {json.dumps(detail)[:500]} error={r.get("error")}',
                       {'scn': r['scn'], 'scheme': 'ensembl'})
        if r['ok']:
            sp = os.path.join(r['dir'], 'out', 'summary.json')
            try:
                sm = json.load(open(sp))
            except Exception as e:
                ctx.report('summary:missing', f'summary metadata not written: {e}', {'scn': r['scn']})
                continue
            G = r['scn']['G']
            unm = sum(1 for g in r['scn']['qgenes'] if g > G and g % 2)
            want = {'n_mapped_cells': len(r['scn']['cells']), 'n_mapped_genes': len(r['scn']['qgenes']) - unm}
            if sm != want:
                ctx.report('summary:numbers', f'summary metadata {sm}, expected {want}', {'scn': r['scn']})
        import shutil
        shutil.rmtree(r['dir'], ignore_errors=True)
    ctx.sample({'scn': scns[0]})
    ctx.part('runs', runs=len(rs), ok=sum(1 for r in rs if r['ok']), disagreements=bad)


def replay(ctx, path):
    case = json.load(open(os.path.join(path, 'replay.json')))['case']
    rs = campaign(ctx, [case['scn']], 'replay', schemes=['ensembl'])
    for r in rs:
        for code, prop, text, detail in r['clauses']:
            ctx.report(f'clause:{code}', text, case)
    ctx.count(case)
