"""X17 (extension suite, not one of the 20 listed statements) - the two sparse views of the marker relation
(diff_exp/sparse_markers_by_pair.py, sparse_markers_by_gene.py) under thinning of pairs and genes.

1. MC   : SparseRel.tla, every 2 x 3 relation x every sequence of 2 thinning calls (keep lists of length 1-2
          with repeats and every full reordering of an axis; thorough: length 1-3; in place or returning a copy): Shape, InRange, Dual (the views agree as long as no keep
          list named an index twice), OnlyByResult (a view only changes to what the call produced).  DualAlways
          must be REFUTED by TLC (RepeatsBreakDuality: the row axis duplicates, the value axis keeps the last).
2. S->C : every complete history of the model is replayed into a real SparseMarkersByPair and a real
          SparseMarkersByGene side by side; after every call both views are read back row by row
          (get_genes_for_pair / get_pairs_for_gene) and compared with the model by SparseRel_Trace, as is the
          returned copy.  Outside TLC: reading one row past the end raises RuntimeError; the bulk accessor
          (get_sparse_*_array) gives the same rows as the row-by-row one; dtype of the stored indices is kept.
"""
import concurrent.futures as cf
import copy
import json
import os
import pathlib
import random
import traceback

from harness.tlc import run_tlc, MachineryError
from harness.traces import validate

PID = 'X17'
CL = {3701: 'by-pair view after the call differs', 3702: 'by-gene view after the call differs',
      3703: 'by-pair result of the call differs', 3704: 'by-gene result of the call differs',
      3705: 'the two views disagree although no keep list named an index twice',
      3790: 'reading past the last row did not raise RuntimeError', 3791: 'bulk accessor differs from row-by-row reading',
      3792: 'dtype of the stored indices changed', 0: 'call not possible in the model at this point'}


def _csr(rows):
    import numpy as np
    indptr = [0]
    idx = []
    for r in rows:
        idx += list(r)
        indptr.append(len(idx))
    return np.array(idx, dtype=np.int64), np.array(indptr, dtype=np.int64)


def _read(obj, by_pair):
    """rows through the public accessor; side checks -> clause or 0"""
    import numpy as np
    n = len(obj.indptr) - 1
    get = obj.get_genes_for_pair if by_pair else obj.get_pairs_for_gene
    rows = [[int(x) for x in get(i)] for i in range(n)]
    side = 0
    try:
        get(n)
        side = 3790
    except RuntimeError:
        pass
    except Exception:
        side = 3790
    bulk = obj.get_sparse_genes_for_pair_array if by_pair else obj.get_sparse_pairs_for_gene_array
    order = list(range(n))[::-1]
    ip, ix = bulk(np.array(order))
    got = [[int(x) for x in ix[ip[j]:ip[j + 1]]] for j in range(len(order))]
    if got != [rows[i] for i in order]:
        side = side or 3791
    if obj.indices.dtype != np.int64:
        side = side or 3792
    return rows, side


def _case(scn):
    try:
        import numpy as np
        from cell_type_mapper.diff_exp.sparse_markers_by_pair import SparseMarkersByPair
        from cell_type_mapper.diff_exp.sparse_markers_by_gene import SparseMarkersByGene
        a0 = [[g for g in range(3) if row[str(g)]] for row in scn['a0']]
        b0 = [[p for p in range(len(a0)) if g in a0[p]] for g in range(3)]
        gi, pi = _csr(a0)
        A = SparseMarkersByPair(gene_idx=gi, pair_idx=pi)
        pi2, gi2 = _csr(b0)
        B = SparseMarkersByGene(gene_idx=gi2, pair_idx=pi2)
        events, side = [], 0
        for op in scn['ops']:
            k = np.array(op['k'], dtype=np.int64)
            name = 'keep_only_pairs' if op['op'] == 'pairs' else 'keep_only_genes'
            ra = getattr(A, name)(k, in_place=bool(op['ip']))
            rb = getattr(B, name)(k, in_place=bool(op['ip']))
            if op['ip']:
                if ra is not None or rb is not None:
                    raise RuntimeError('in-place call returned something')
                ra, rb = A, B
            rowsA, s1 = _read(A, True)
            rowsB, s2 = _read(B, False)
            outA, s3 = _read(ra, True)
            outB, s4 = _read(rb, False)
            side = side or s1 or s2 or s3 or s4
            events.append({'op': op['op'], 'k': list(op['k']), 'ip': bool(op['ip']),
                           'A': rowsA, 'B': rowsB, 'outA': outA, 'outB': outB})
        return {'a0': a0, 'events': events, 'side': side}, None
    except Exception:
        return None, traceback.format_exc()


def run(ctx):
    quick = ctx.tier == 'quick'
    rng = random.Random(ctx.seed + 117)
    ctx.cov['rule'] = ('one case = one complete history of SparseRel.tla (a 2 x 3 relation and 2 thinning calls) replayed '
                       'into the real pair of classes; non-trivial = the relation is not empty and a call was in place; '
                       'distinct by canonical JSON.')
    ctx.cov['trusted_base'] = ['TLC 1.8', 'numpy array construction of the two initial views']
    sd = os.path.join(os.path.dirname(__file__), '..', '..', 'spec')
    ref = run_tlc('SparseRel_MC', cfg_text=open(os.path.join(sd, 'SparseRel_MC_refute.cfg')).read(), workers=1, timeout=600)
    ctx.add_tlc('SparseRel_MC_refute', ref)
    if 'Invariant DualAlways is violated' not in ref.stdout:
        raise MachineryError('TLC did not refute DualAlways (RepeatsBreakDuality no longer modelled?)')
    ctx.part('mc', dual_always_refuted=True)
    cfg = open(os.path.join(sd, 'SparseRel_MC.cfg')).read() + 'CONSTRAINT Emit\n'
    if not quick:
        cfg = cfg.replace('MaxKeep = 2', 'MaxKeep = 3')
    res = run_tlc('SparseRel_MC', cfg_text=cfg, workers=1, timeout=3600)
    ctx.add_tlc('SparseRel_MC', res)
    if not res.ok:
        raise MachineryError(res.error_trace or res.stdout[-1500:])
    scns = [json.loads(t[1]) for t in res.tuples('SCN')]
    scns = list({json.dumps(s, sort_keys=True): s for s in scns}.values())
    n_model = len(scns)
    scns = rng.sample(scns, min(len(scns), 2000 if quick else 150000))
    with cf.ProcessPoolExecutor(max_workers=8) as ex:
        outs = list(ex.map(_case, scns, chunksize=64))
    recs = []
    for s, (rec, err) in zip(scns, outs):
        if rec is None:
            raise MachineryError(err)
        ctx.count({'s': s}, nontrivial=any(rec['a0']) and any(o['ip'] for o in s['ops']))
        recs.append(rec)
    vs = validate(ctx, 'SparseRel_Trace', recs, 'SparseRel_Trace', cfg='SparseRel_Trace.cfg')
    rej = 0
    for s, rec, v in zip(scns, recs, vs):
        calls = [(o['op'], list(o['k']), o['ip']) for o in s['ops']]
        if not v['accepted']:
            rej += 1
            ev = rec['events'][v['reached'] - 1] if v['reached'] - 1 < len(rec['events']) else None
            ctx.report(f'clause:{v["inv"]}', f'{CL.get(v["inv"], v["inv"])} - a0={rec["a0"]} calls={calls} at call '
                       f'{v["reached"]}: {ev}', {'scenario': s})
        elif rec['side']:
            rej += 1
            ctx.report(f'clause:{rec["side"]}', f'{CL[rec["side"]]} - a0={rec["a0"]} calls={calls}', {'scenario': s})
    ctx.part('s2c', histories_of_the_model=n_model, histories=len(scns), rejected=rej)
    if recs:
        ctx.sample({'scenario': scns[0], 'observed': recs[0]['events'][:1]})
        st = []
        for r in [r for r in recs if r['events'][-1]['A'][0]][:60]:
            r2 = copy.deepcopy(r)
            r2['events'][-1]['A'][0] = r2['events'][-1]['A'][0][:-1]
            st.append(r2)
        for r in [r for r in recs if len(r['events'][-1]['outB'][0]) == 2][:60]:
            r2 = copy.deepcopy(r)
            r2['events'][-1]['outB'][0] = r2['events'][-1]['outB'][0][::-1]
            st.append(r2)
        sv = validate(ctx, 'SparseRel_Trace', st, 'selftest', cfg='SparseRel_Trace.cfg', counts_as_impl=False)
        acc = sum(1 for v in sv if v['accepted'])
        ctx.cov['selftest'] = {'corrupted': len(st), 'rejected': len(st) - acc}
        if acc or not st:
            raise MachineryError('self-test: corrupted views accepted')
    ctx.cov['exhaustive'] = (len(scns) == n_model)


def replay(ctx, path):
    case = json.load(open(pathlib.Path(path) / 'replay.json'))['case']['scenario']
    rec, err = _case(case)
    if rec is None:
        raise MachineryError(err)
    v = validate(ctx, 'SparseRel_Trace', [rec], 'replay', cfg='SparseRel_Trace.cfg')[0]
    if not v['accepted']:
        ctx.report(f'clause:{v["inv"]}', CL.get(v['inv']), {'scenario': case})
    elif rec['side']:
        ctx.report(f'clause:{rec["side"]}', CL[rec['side']], {'scenario': case})
    ctx.count(case)
