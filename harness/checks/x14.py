"""X14 (extension suite, not one of the 20 listed statements) - the unstructured-metadata table (uns) of an h5ad file as a
key-value store (utils/anndata_utils.py: update_uns) and a statistics file parked in it and taken out again
(utils/output_utils.py: precomputed_stats_to_uns, uns_to_precomputed_stats).

1. MC   : UnsStore_MC - three keys, two numbers, three kinds of statistics files, every history of four calls: nothing outside
          the table ever changes (RestUntouched), a refused call changes nothing (RefusedUntouched), keys are never lost
          (KeysNeverLost), a value only changes in an accepted call (NoSilentOverwrite); a parked file comes back exactly
          unless its labels hold a $ (RoundTripExact, DollarBecomesSlash - the deviation is modelled as the code behaves).
2. C->S : random histories of update / store / load calls on a REAL h5ad file (sparse X, a layer, obsm, obs and var
          columns); after every call the table is read back and everything else in the file is fingerprinted;
          UnsStore_Trace steps the specification's own actions (Update, Store, Load) along the history and compares outcome,
          table and the fingerprint verdict.  Values are a number, a string, a list and a nested dictionary.
"""
import concurrent.futures as cf
import copy
import hashlib
import json
import os
import pathlib
import random
import shutil
import tempfile
import traceback
import warnings

from harness.tlc import run_tlc, MachineryError
from harness.traces import validate

PID = 'X14'
CL = {3301: 'outcome of the call (accepted / refused / what came back)', 3302: 'the table after the call',
      3303: 'something outside the table changed', 3304: 'files left in the scratch directory (other than the result)'}
NUMS = {'n1': 1, 'n2': 'two', 'n3': [1, 2, 3], 'n4': {'x': 1.5, 'y': 'z'}}
LABELS = {'plain': ['alpha', 'beta', 'gamma'], 'slash': ['al/pha', 'beta', 'gam/ma/x'], 'dollar': ['al$pha', 'beta', 'gamma']}


def _stats_content(kind):
    lab = LABELS[kind]
    top = 'T/1' if kind == 'slash' else 'T$1' if kind == 'dollar' else 'T1'
    tree = {'hierarchy': ['cls', 'sub'], 'cls': {top: lab[:2], 'U': lab[2:]}, 'sub': {x: [] for x in lab}}
    return {'taxonomy_tree': tree, 'cluster_to_row': {x: i for i, x in enumerate(lab)},
            'col_names': ['g1', 'g/2' if kind == 'slash' else 'g$2' if kind == 'dollar' else 'g2'],
            'metadata': {'kind': kind}}


def _write_stats(path, kind):
    import h5py
    import numpy as np
    c = _stats_content(kind)
    with h5py.File(path, 'w') as f:
        for k, v in c.items():
            f.create_dataset(k, data=json.dumps(v).encode('utf-8'))
        f.create_dataset('n_cells', data=np.array([3, 1, 2]))
        f.create_dataset('sum', data=np.arange(6.0).reshape(3, 2) + 0.25)
        f.create_dataset('sumsq', data=np.arange(6.0).reshape(3, 2) * 2)


def _fingerprint(path):
    """everything in the file but /uns"""
    import h5py
    h = hashlib.sha256()

    def visit(name, obj):
        if name == 'uns' or name.startswith('uns/'):
            return
        h.update(name.encode())
        for k in sorted(obj.attrs):
            h.update(k.encode())
            h.update(repr(obj.attrs[k]).encode())
        if isinstance(obj, h5py.Dataset):
            h.update(str(obj.dtype).encode())
            h.update(repr(obj[()].tolist() if obj.shape != () else obj[()]).encode())
    with h5py.File(path, 'r') as f:
        for k in sorted(f.attrs):
            h.update(repr(f.attrs[k]).encode())
        f.visititems(visit)
    return h.hexdigest()


def _same(a, b):
    import numpy as np
    if isinstance(b, dict):
        return isinstance(a, dict) and set(a) == set(b) and all(_same(a[k], b[k]) for k in b)
    if isinstance(b, list):
        return np.asarray(a).tolist() == b
    if isinstance(b, float):
        return float(a) == b
    if isinstance(b, int):
        return int(a) == b and not isinstance(a, (str, bytes))
    return a == b


def _project(uns):
    out = []
    for k in sorted(uns):
        v = uns[k]
        val = 'other'
        if isinstance(v, dict) and 'metadata' in v and 'cluster_to_row' in v:
            kind = v['metadata'].get('kind') if isinstance(v['metadata'], dict) else None
            val = kind if kind in LABELS else 'other'
        else:
            for nid, canon in NUMS.items():
                try:
                    if _same(v, canon):
                        val = nid
                except Exception:                                           # noqa
                    pass
        out.append([k, val])
    return out


def _dollar_to_slash_keys(x):
    if isinstance(x, dict):
        return {(k.replace('$', '/') if isinstance(k, str) else k): _dollar_to_slash_keys(v) for k, v in x.items()}
    if isinstance(x, list):
        return [_dollar_to_slash_keys(v) for v in x]
    return x


def _compare_stats(path, kind):
    import h5py
    import numpy as np
    c = _stats_content(kind)
    with h5py.File(path, 'r') as f:
        if set(f.keys()) != set(c) | {'n_cells', 'sum', 'sumsq'}:
            return 'other: datasets ' + str(sorted(f.keys()))
        if not (np.array_equal(f['n_cells'][()], [3, 1, 2]) and np.array_equal(f['sum'][()], np.arange(6.0).reshape(3, 2) + 0.25)
                and np.array_equal(f['sumsq'][()], np.arange(6.0).reshape(3, 2) * 2)):
            return 'other: numbers'
        got = {k: json.loads(f[k][()].decode('utf-8')) for k in c}
    if got == c:
        return 'exact'
    if got == {k: _dollar_to_slash_keys(v) for k, v in c.items()}:
        return 'dollar_moved'
    return 'other: ' + json.dumps(got)[:200]


def run_history(h, wd):
    import anndata
    import numpy as np
    import pandas as pd
    import scipy.sparse as sp
    from cell_type_mapper.utils.anndata_utils import update_uns, read_uns_from_h5ad
    from cell_type_mapper.utils.output_utils import precomputed_stats_to_uns, uns_to_precomputed_stats
    d = pathlib.Path(tempfile.mkdtemp(dir=wd))
    try:
        rng = np.random.default_rng(h['seed'])
        X = sp.csr_matrix(rng.integers(0, 3, size=(5, 4)).astype(np.float32))
        a = anndata.AnnData(X=X, obs=pd.DataFrame({'q': list('abcde')}, index=[f'c{i}' for i in range(5)]),
                            var=pd.DataFrame({'w': [1, 2, 3, 4]}, index=[f'g{i}' for i in range(4)]),
                            layers={'raw': X * 2}, obsm={'emb': rng.random((5, 2))})
        path = str(d / 'f.h5ad')
        with warnings.catch_warnings():
            warnings.simplefilter('ignore')
            a.write_h5ad(path)
        for kind in LABELS:
            _write_stats(str(d / f'stats_{kind}.h5'), kind)
        fp0 = _fingerprint(path)
        out = []
        os.makedirs(d / 'scratch')
        for e in h['events']:
            e = dict(e)
            e['outcome'] = 'ok'
            with warnings.catch_warnings():
                warnings.simplefilter('ignore')
                try:
                    if e['op'] == 'update':
                        update_uns(path, {k: copy.deepcopy(NUMS[v]) for k, v in e['new']}, clobber=e['clobber'])
                    elif e['op'] == 'store':
                        precomputed_stats_to_uns(str(d / f'stats_{e["kind"]}.h5'), path, e['key'])
                    else:
                        stored = dict((k, v) for k, v in _project(read_uns_from_h5ad(path)))
                        p = uns_to_precomputed_stats(path, e['key'], tmp_dir=str(d / 'scratch'))
                        e['outcome'] = _compare_stats(p, stored.get(e['key'], 'plain'))
                        os.unlink(p)
                except RuntimeError as ex:
                    e['outcome'] = 'refused' if 'Cannot update uns' in str(ex) else f'other: {ex}'[:120]
                except KeyError as ex:
                    e['outcome'] = 'missing' if e['op'] == 'load' else f'other: KeyError {ex}'[:120]
                except Exception as ex:                                      # noqa
                    e['outcome'] = f'other: {type(ex).__name__}: {ex}'[:120]
                e['after'] = _project(read_uns_from_h5ad(path))
            e['rest_same'] = (_fingerprint(path) == fp0)
            e['stray'] = len(os.listdir(d / 'scratch'))
            for left in os.listdir(d / 'scratch'):
                os.unlink(d / 'scratch' / left)
            out.append(e)
        return out
    finally:
        shutil.rmtree(d, ignore_errors=True)


def _batch(args):
    hs, wd = args
    try:
        return [run_history(h, wd) for h in hs], None
    except Exception:
        return None, traceback.format_exc()


def _rand_history(rng):
    ev = []
    for _ in range(rng.randint(1, 7)):
        op = rng.choice(['update', 'update', 'update', 'store', 'store', 'load', 'load'])
        if op == 'update':
            ks = rng.sample(['a', 'b', 'c', 'd'], rng.randint(1, 3))
            ev.append({'op': 'update', 'new': [[k, rng.choice(sorted(NUMS))] for k in sorted(ks)], 'clobber': rng.random() < 0.4})
        elif op == 'store':
            ev.append({'op': 'store', 'key': rng.choice(['s', 't']), 'kind': rng.choice(sorted(LABELS))})
        else:
            ev.append({'op': 'load', 'key': rng.choice(['s', 't'])})
    return {'events': ev, 'seed': rng.randint(0, 10 ** 6)}


def run(ctx):
    quick = ctx.tier == 'quick'
    rng = random.Random(ctx.seed + 114)
    ctx.cov['rule'] = ('one case = one history of update / store / load calls on a real h5ad file, observed after every call; '
                       'non-trivial = some call is refused, finds nothing, or brings back a file with moved labels; distinct by '
                       'canonical JSON.')
    ctx.cov['trusted_base'] = ['TLC 1.8', 'anndata reader of uns', 'fingerprint of the rest of the file (x14._fingerprint)']
    res = run_tlc('UnsStore_MC', cfg='UnsStore_MC.cfg', workers=4, timeout=1800)
    ctx.add_tlc('UnsStore_MC', res)
    if not res.ok:
        raise MachineryError('UnsStore_MC: ' + (res.error_trace or res.stdout[-1500:]))
    hs = [_rand_history(rng) for _ in range(240 if quick else 3000)]
    wd = str(ctx.tmpdir('x14_'))
    batches = [hs[i:i + 20] for i in range(0, len(hs), 20)]
    with cf.ProcessPoolExecutor(max_workers=12) as ex:
        outs = list(ex.map(_batch, [(b, wd) for b in batches]))
    recs = []
    for b, (rs, err) in zip(batches, outs):
        if rs is None:
            raise MachineryError(err)
        recs += list(zip(b, rs))
    traces = []
    for h, evs in recs:
        ctx.count({'h': h['events']}, nontrivial=any(e['outcome'] != 'ok' and e['outcome'] != 'exact' for e in evs))
        traces.append({'events': [{k: e[k] for k in e} for e in evs]})
    vs = validate(ctx, 'UnsStore_Trace', traces, 'UnsStore_Trace', cfg='UnsStore_Trace.cfg')
    rej = 0
    for (h, evs), v in zip(recs, vs):
        if not v['accepted']:
            rej += 1
            k = v['reached'] - 1
            ctx.report(f'clause:{v["inv"]}', f'{CL.get(v["inv"], v["inv"])} - event {k} of {json.dumps(evs)[:900]}', {'h': h})
    outc = {}
    for _, evs in recs:
        for e in evs:
            key = e['op'] + ':' + e['outcome'].split(':')[0]
            outc[key] = outc.get(key, 0) + 1
    ctx.part('decided', histories=len(recs), calls=sum(len(e) for _, e in recs), rejected=rej, outcomes=outc)
    if recs:
        ctx.sample({'history': recs[0][1][:3]})
        st = []
        for i, t in enumerate(traces[:60]):
            t2 = copy.deepcopy(t)
            e = t2['events'][-1]
            if i % 3 == 0:
                e['outcome'] = 'refused' if e['outcome'] != 'refused' else 'ok'
            elif i % 3 == 1:
                e['after'] = [x for x in e['after'] if x[0] != 'd'] if any(x[0] == 'd' for x in e['after']) else e['after'] + [['d', 'n4']]
            else:
                e['rest_same'] = False
            st.append(t2)
        sv = validate(ctx, 'UnsStore_Trace', st, 'selftest', cfg='UnsStore_Trace.cfg', counts_as_impl=False)
        acc = sum(1 for v in sv if v['accepted'])
        ctx.cov['selftest'] = {'corrupted': len(st), 'rejected': len(st) - acc}
        if acc:
            raise MachineryError('self-test: corrupted uns observations accepted')


def replay(ctx, path):
    case = json.load(open(pathlib.Path(path) / 'replay.json'))['case']
    wd = str(ctx.tmpdir('x14_'))
    print(json.dumps(run_history(case['h'], wd), indent=1)[:3000])
    ctx.count(case)
