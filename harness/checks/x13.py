"""X13 (extension suite, not one of the 20 listed statements) - gene identifiers: which species a gene list speaks of
(gene_id/utils.py: detect_species), what a mapper answers per gene and when it refuses (gene_id/gene_id_mapper.py:
map_gene_identifiers, strict or not), the numbering of the placeholder names over a mapper's life (RandomNameGenerator:
the counter survives calls, also refused ones), and the rewriting of a var table (validation/utils.py: map_gene_ids_in_var:
rewritten exactly when something changes, name of the new index column, old identifiers kept as a column).

1. MC   : GeneId_MC - lists over nine gene classes up to length 3, three calls per mapper: a placeholder number is handed
          out once in a mapper's life (InvFresh, NeverReissued); static facts (Sound): a species is only named when its
          table knows something in the list, resolving a table without being told the species never ends with
          "could not map any".
2. S->C : every list up to length 3 (820) is materialised with REAL names of the package's mouse / human tables and, per
          species, replayed: detect, map (lenient, strict), rewrite of a var table; GeneId_Trace compares every answer.
3. C->S : random mapper histories (lists up to 9 genes, up to 6 calls per mapper, var tables that already have the
          index column names) validated by GeneId_Trace, which carries the counter along.
"""
import concurrent.futures as cf
import copy
import json
import pathlib
import random
import re
import traceback
import warnings

from harness.tlc import run_tlc, MachineryError
from harness.traces import validate

PID = 'X13'
CL = {3201: 'call accepted / refused against the model', 3203: 'answer is not as long as the question',
      3204: 'a position is not kept / mapped / given a placeholder as the model says',
      3205: 'placeholder numbering (the counter of the mapper)', 3206: 'number of unmapped genes reported',
      3210: 'species decision', 3220: 'var table accepted / refused', 3221: 'var table rewritten although nothing changes, or not rewritten',
      3222: 'name of the new index column', 3223: 'old identifiers not kept as a column', 3299: 'unknown event'}
CLASSES = ['ensM', 'ensMv', 'ensH', 'ensU', 'ensUv', 'symM', 'symH', 'symB', 'unk']
PH = re.compile(r'unmapped_(\d+)_\d{4}-\d\d-\d\d-\d\d-\d\d-\d\d')
_POOL = {}


def _pool():
    """real names per class, from the package's own tables (deterministic order)"""
    if _POOL:
        return _POOL
    from cell_type_mapper.data.mouse_gene_id_lookup import mouse_gene_id_lookup as M
    from cell_type_mapper.data.human_gene_id_lookup import human_gene_id_lookup as H
    from cell_type_mapper.gene_id.utils import is_ensembl
    mens, hens = set(M.values()), set(H.values())
    def sym_ok(k):
        return not k.startswith('ENS') and not is_ensembl(k) and k not in mens and k not in hens and ' ' not in k and k
    mk = sorted(k for k in M if sym_ok(k))
    hk = sorted(k for k in H if sym_ok(k))
    hset, mset = set(hk), set(mk)
    rnd = random.Random(5)
    def pick(xs, n=40):
        xs = list(xs)
        rnd.shuffle(xs)
        return xs[:n]
    _POOL.update({
        'M': M, 'H': H,
        'ensM': pick(sorted(x for x in mens if is_ensembl(x) and '.' not in x and x not in hens)),
        'ensH': pick(sorted(x for x in hens if is_ensembl(x) and '.' not in x and x not in mens)),
        'ensU': [f'ENSRNOG{90000000000 + i}' for i in range(40)],
        'symM': pick([k for k in mk if k not in H]),
        'symH': pick([k for k in hk if k not in M]),
        'symB': pick([k for k in mk if k in hset and k in mset]),
        'unk': [f'zz_not_a_gene_{i}' for i in range(40)]})
    for k in ('ensM', 'ensH', 'symM', 'symH', 'symB'):
        assert len(_POOL[k]) >= 12, k
    return _POOL


def names_for(classes, rng):
    """one own gene per position"""
    P = _pool()
    used = set()
    out = []
    for c in classes:
        base = {'ensMv': 'ensM', 'ensUv': 'ensU'}.get(c, c)
        cand = [x for x in P[base] if x not in used]
        x = rng.choice(cand)
        used.add(x)
        out.append(x + f'.{rng.randint(1, 12)}' if c in ('ensMv', 'ensUv') else x)
    return out


def _outcome_of(e):
    m = str(e)
    if 'Could not map any of your genes' in m:
        return 'refused_all'
    if 'unmappable genes were' in m:
        return 'refused_strict'
    if 'Could not find a species' in m:
        return 'none'
    if 'There are EnsemblIDs from' in m:
        return 'error_both'
    if 'gene symbols' in m and 'Unclear how to choose species' in m:
        return 'error_tie'
    return 'other: ' + m[:100]


def _project(names, out, L):
    res = []
    for x, o in zip(names, out):
        m = PH.fullmatch(o)
        if o == x.split('.')[0]:
            res.append({'k': 'kept', 'n': 0})
        elif x in L and o == L[x].split('.')[0]:
            res.append({'k': 'mapped', 'n': 0})
        elif m:
            res.append({'k': 'ph', 'n': int(m.group(1))})
        else:
            res.append({'k': 'other', 'n': 0})
    return res


def run_history(h):
    """h: {'sp', 'events': [{'op', 'list', ...}]}, returns the events with the observations filled in"""
    import pandas as pd
    from cell_type_mapper.gene_id.gene_id_mapper import GeneIdMapper
    from cell_type_mapper.gene_id.utils import detect_species
    from cell_type_mapper.validation.utils import map_gene_ids_in_var
    P = _pool()
    rng = random.Random(h.get('seed', 0))
    mapper = GeneIdMapper.from_species(h['sp'])
    L = {'mouse': P['M'], 'human': P['H']}
    out = []
    for e in h['events']:
        e = dict(e)
        names = names_for(e['list'], rng)
        e['names'] = names
        with warnings.catch_warnings():
            warnings.simplefilter('ignore')
            if e['op'] == 'detect':
                try:
                    r = detect_species(list(names))
                    e['res'] = 'none' if r is None else r
                except Exception as ex:                                  # noqa
                    e['res'] = _outcome_of(ex)
            elif e['op'] == 'map':
                e.update(outcome='ok', out=[], nun=0)
                try:
                    r = mapper.map_gene_identifiers(list(names), strict=e['strict'])
                    e['out'] = _project(names, r['mapped_genes'], L[h['sp']])
                    if len(r['mapped_genes']) != len(names):
                        e['out'] = [{'k': 'other', 'n': 0}] * len(r['mapped_genes'])
                    e['nun'] = int(r['n_unmapped'])
                except Exception as ex:                                  # noqa
                    e['outcome'] = _outcome_of(ex)
            elif e['op'] == 'var':
                root = 'EnsemblID_VALIDATED'
                cols = {'other': [f'o{i}' for i in range(len(names))]}
                for t in e['taken']:
                    cols[root if t == 0 else f'{root}_{t - 1}'] = [f't{t}_{i}' for i in range(len(names))]
                var = pd.DataFrame(cols, index=pd.Index(names, name='gene'))
                e.update(outcome='ok', species='none', changed=False, key=0, out=[], nun=0, kept_old=True)
                try:
                    new_var, nun = map_gene_ids_in_var(var.copy(), gene_id_mapper=mapper if e['given'] else None, log=None)
                    if new_var is not None:
                        e['changed'] = True
                        nm = new_var.index.name
                        e['key'] = 0 if nm == root else (int(nm[len(root) + 1:]) + 1 if nm.startswith(root + '_') else -1)
                        e['kept_old'] = ('gene' in new_var.columns and list(new_var['gene'].values) == names
                                         and all(list(new_var[c].values) == cols[c] for c in cols))
                        sp = h['sp'] if e['given'] else ('none' if detect_species(list(names)) is None else detect_species(list(names)))
                        e['out'] = _project(names, list(new_var.index.values), L.get(sp, {}))
                        if len(new_var) != len(names):
                            e['out'] = [{'k': 'other', 'n': 0}] * len(new_var)
                    e['nun'] = int(nun)
                    if not e['changed']:
                        # the model's answer for an unchanged table is the table itself
                        e['out'] = []
                except Exception as ex:                                  # noqa
                    e['outcome'] = _outcome_of(ex)
        out.append(e)
    return out


def _batch(hs):
    try:
        return [run_history(h) for h in hs], None
    except Exception:
        return None, traceback.format_exc()


def _rand_history(rng):
    ev = []
    for _ in range(rng.randint(1, 6)):
        n = rng.choice([0, 1, 1, 2, 3, 4, 6, 9])
        lst = [rng.choice(CLASSES) for _ in range(n)]
        op = rng.choice(['map', 'map', 'map', 'detect', 'var', 'var'])
        e = {'op': op, 'list': lst}
        if op == 'map':
            e['strict'] = rng.random() < 0.35
        if op == 'var':
            e['given'] = rng.random() < 0.5
            e['taken'] = sorted(rng.sample([0, 1, 2], rng.choice([0, 0, 1, 2, 3])))
        ev.append(e)
    return {'sp': rng.choice(['mouse', 'human']), 'events': ev, 'seed': rng.randint(0, 10 ** 6)}


def _for_model(sp, evs):
    keep = {'map': ('op', 'list', 'strict', 'outcome', 'out', 'nun'), 'detect': ('op', 'list', 'res'),
            'var': ('op', 'list', 'given', 'taken', 'outcome', 'changed', 'key', 'out', 'nun', 'kept_old')}
    out = []
    for e in evs:
        r = {k: e[k] for k in keep[e['op']]}
        if e['op'] == 'var' and e['changed'] is False:
            # VarErr does not look at out / key when nothing changed
            r['out'] = []
        out.append(r)
    return {'sp': sp, 'events': out}


def run(ctx):
    quick = ctx.tier == 'quick'
    rng = random.Random(ctx.seed + 113)
    ctx.cov['rule'] = ('one case = one mapper history (sequence of detect / map / var-table calls on real gene names of the '
                       'package tables); S->C: every list of gene classes up to length 3 x species; C->S: random histories; '
                       'non-trivial = some call is refused or hands out a placeholder; distinct by canonical JSON.')
    ctx.cov['trusted_base'] = ['TLC 1.8', 'harness projection of names to kept / mapped / placeholder (x13._project)']
    res = run_tlc('GeneId_MC', cfg='GeneId_MC.cfg', workers=8, timeout=3600)
    ctx.add_tlc('GeneId_MC', res)
    if not res.ok:
        raise MachineryError('GeneId_MC: ' + (res.error_trace or res.stdout[-1500:]))
    em = [json.loads(t[1]) for t in res.tuples('SCN')]
    ctx.part('emitted', lists=len(em), refused_species=sum(1 for e in em if e['detect'].startswith('error')),
             no_species=sum(1 for e in em if e['detect'] == 'none'))
    if quick:
        em = rng.sample(em, 260)
    else:
        ctx.cov['exhaustive'] = True
    hs = []
    for e in em:
        for sp in ('mouse', 'human'):
            lst = list(e['list'])
            hs.append({'sp': sp, 'seed': rng.randint(0, 10 ** 6), 'events': [
                {'op': 'detect', 'list': lst}, {'op': 'map', 'list': lst, 'strict': False},
                {'op': 'map', 'list': lst, 'strict': True},
                {'op': 'var', 'list': lst, 'given': False, 'taken': sorted(rng.sample([0, 1, 2], rng.choice([0, 1, 2])))},
                {'op': 'var', 'list': lst, 'given': True, 'taken': []}]})
    n_s2c = len(hs)
    for _ in range(300 if quick else 4000):
        hs.append(_rand_history(rng))
    batches = [hs[i:i + 60] for i in range(0, len(hs), 60)]
    with cf.ProcessPoolExecutor(max_workers=8) as ex:
        outs = list(ex.map(_batch, batches))
    recs = []
    for b, (rs, err) in zip(batches, outs):
        if rs is None:
            raise MachineryError(err)
        for h, evs in zip(b, rs):
            recs.append((h, evs))
    traces = []
    for h, evs in recs:
        t = _for_model(h['sp'], evs)
        nontrivial = any(e.get('outcome', 'ok') != 'ok' or any(o['k'] == 'ph' for o in e.get('out', [])) or
                         e.get('res', '') in ('error_both', 'error_tie') for e in evs)
        ctx.count({'h': {'sp': h['sp'], 'events': h['events']}}, nontrivial=nontrivial)
        traces.append(t)
    vs = validate(ctx, 'GeneId_Trace', traces, 'GeneId_Trace', cfg='GeneId_Trace.cfg')
    rej = 0
    for (h, evs), v in zip(recs, vs):
        if not v['accepted']:
            rej += 1
            k = v.get('reached', 1) - 1
            bad = evs[k] if 0 <= k < len(evs) else {}
            ctx.report(f'clause:{v["inv"]}', f'{CL.get(v["inv"], v["inv"])} - event {k}: '
                       f'{json.dumps({x: bad.get(x) for x in ("op", "list", "names", "strict", "given", "taken", "outcome", "res", "out", "nun", "changed", "key")})[:700]} '
                       f'(mapper: {h["sp"]})', {'h': h})
    ctx.part('decided', histories=len(recs), from_model=n_s2c, random=len(recs) - n_s2c, rejected=rej,
             calls=sum(len(e) for _, e in recs),
             refused=sum(1 for _, evs in recs for e in evs if e.get('outcome', 'ok') != 'ok'),
             placeholders=sum(1 for _, evs in recs for e in evs for o in e.get('out', []) if o['k'] == 'ph'))
    if recs:
        ctx.sample({'history': {'sp': recs[-1][0]['sp'], 'events': recs[-1][1][:2]}})
        st = []
        for t in traces[-80:]:
            t2 = copy.deepcopy(t)
            e = t2['events'][-1]
            if e['op'] == 'detect':
                e['res'] = 'human' if e['res'] != 'human' else 'mouse'
            elif e['op'] == 'map' and e['outcome'] == 'ok' and any(o['k'] == 'ph' for o in e['out']):
                for o in e['out']:
                    if o['k'] == 'ph':
                        o['n'] += 1
            elif e['op'] == 'map':
                e['outcome'] = 'refused_all' if e['outcome'] == 'ok' else 'ok'
            else:
                e['outcome'] = 'refused_strict'
            st.append(t2)
        sv = validate(ctx, 'GeneId_Trace', st, 'selftest', cfg='GeneId_Trace.cfg', counts_as_impl=False)
        acc = sum(1 for v in sv if v['accepted'])
        ctx.cov['selftest'] = {'corrupted': len(st), 'rejected': len(st) - acc}
        if acc:
            raise MachineryError('self-test: corrupted gene-identifier observations accepted')


def replay(ctx, path):
    case = json.load(open(pathlib.Path(path) / 'replay.json'))['case']
    evs = run_history(case['h'])
    print(json.dumps(evs, indent=1)[:3000])
    ctx.count(case)
