"""C18 - the stages compose: cluster centroids map back to themselves.

1. MC   : Pipeline_MC - the centroid lemma in terms of Election!Best (the election semantics that C02
          binds to the code), exhaustively for small vectors: query = profile of leaf 1, not constant
          on the drawn genes, no other leaf perfectly correlated there  =>  leaf 1 is the unique
          nearest centroid; the premise is tight (a perfectly correlated leaf ties, a constant query
          ties with everything).
2. C->S : generated references (2-9 separable leaf clusters, random 1-3 level hierarchies, names whose
          sorted order is not their creation order, raw counts or pre-normalised input, cells
          shuffled, mixed encodings) are pushed through the package's own four stages chained -
          statistics -> reference markers -> query-marker selection -> mapping - with random worker
          counts / chunk sizes at every stage.  The query holds one cell per leaf equal to the leaf's
          mean profile computed BY THE HARNESS from the cells it generated (not read back from the
          statistics file), written in a shuffled gene order with extra unknown genes.
          Pipeline_Trace validates
            - the artefact name tables (clause 1801-1804): statistics file addresses exactly the
              leaves by name, reference-marker file repeats its genes in order / covers every
              unordered leaf pair once / points back to it, the lookup has one entry per parent and
              only genes both files know, mapping uses only selected genes;
            - per centroid cell (1810-1813): on the node visits logged by the hooks (genes, leaves,
              B drawn subsets), TLC evaluates the premise exactly on the integer sums and, where it
              holds at a node and at all nodes above, requires assignment = own lineage, votes = B,
              correlation = 1 (1e-9).
          Values are integer log2(CPM+1) (raw mode: counts 2^v-1 with a filler gene bringing every
          cell to 10^6 counts) so that sums are integers and the premise is decided exactly.
"""
import concurrent.futures as cf
import copy
import json
import math
import os
import pathlib
import random
import shutil
import tempfile
import traceback
import warnings

import anndata
import h5py
import numpy as np
import pandas as pd
import scipy.sparse as sp

from harness import build, stages
from harness.tlc import run_tlc, MachineryError
from harness.traces import validate

PID = 'C18'
CL = {1801: 'statistics file does not address exactly the leaf clusters by name (or repeats a gene)',
      1802: 'reference-marker file: genes differ from the statistics file / a leaf pair missing or twice / '
            'no pointer back to the statistics file',
      1803: 'marker lookup: entries are not exactly the parents of the taxonomy / a gene unknown to reference or query',
      1804: 'mapping used a gene that was not selected / levels differ from the hierarchy',
      1805: 'a stage refused or crashed on the artefact of the previous stage',
      1810: 'centroid not assigned to its own lineage at a node where the premise holds',
      1811: 'centroid: bootstrapping probability below 1 at a node where the premise holds',
      1812: 'centroid: average correlation is not 1 at a node where the premise holds',
      1813: 'centroid: a level (e.g. an only child) is off the lineage although the premise holds at every choice',
      1899: 'unknown record'}
FACTORS = [(1, 2), (9, 10), (1, 1), (1, 3), (2, 3), (1, 10)]
HIERS = [['class', 'subclass', 'cluster'], ['class', 'cluster'], ['subclass', 'cluster'], ['cluster']]
INT_MAX = 2 ** 31 - 1


def gen_case(rng, i):
    return {'seed': rng.randrange(10 ** 6), 'mode': 'raw' if i % 3 == 2 else 'log', 'hier': HIERS[i % 4] if i % 5 else HIERS[0],
            'n_class': rng.randint(2, 3), 'max_sub': rng.randint(1, 2), 'max_cl': rng.randint(1, 3),
            'cells': [4, rng.randint(5, 7)], 'enc': rng.choice(['csr', 'csc', 'dense']),
            'pre': {'P': rng.randint(1, 3), 'R': rng.randint(2, 9)},
            'rm': {'P': rng.randint(1, 3)},
            'qm': {'P': rng.randint(1, 3), 'n_per_utility': rng.randint(2, 6),
                   'cutoff': rng.choice([1000000, 1000000, 2, 0])},
            'naming': 'shared' if i % 3 == 1 else 'prefixed',
            'reduce': (['none', 'none', 'drop', 'flatten'][i % 4] if i % 5 else 'none'),
            'map': {'B': 256 if i % 12 == 7 else rng.choice([1, 2, 5, 10, 12]), 'f': list(FACTORS[i % len(FACTORS)]),
                    'chunk': rng.randint(1, 4),
                    'P': rng.randint(1, 3), 'seed': rng.randrange(10 ** 5), 'K': rng.randint(0, 3),
                    'qenc': rng.choice(['dense', 'csr', 'csc', 'csc']),
                    # memory budget of the on-disk CSC -> CSR conversion of the query (tiny: several row blocks)
                    'max_gb': rng.choice([1, 1e-7, 1e-8])}}


def _names(rng, prefix, n):
    pool = ['10', '9', '1', 'b', 'A', '2', 'Zz', 'a1', '11', 'c', 'B', '0', 'aa', 'Z', '3x', '20']
    rng.shuffle(pool)
    return [prefix + pool[k] for k in range(n)]


def build_reference(case, d):
    rng = random.Random(case['seed'])
    shape = []
    for c in range(case['n_class']):
        for s in range(rng.randint(1, case['max_sub'])):
            for k in range(rng.randint(1, case['max_cl'])):
                shape.append((c, s))
    shape = shape[:9]
    L = len(shape)
    subs = sorted(set(shape))
    if case.get('naming') == 'shared':
        # the same labels are used on every level (unique within a level only): a class "b", a subclass
        # "b" under another class, a cluster "b" somewhere else
        cn = _names(rng, '', case['n_class'])
        sn = dict(zip(subs, _names(rng, '', len(subs))))
        ln = _names(rng, '', L)
    else:
        cn = _names(rng, 'C', case['n_class'])
        sn = dict(zip(subs, _names(rng, 's', len(subs))))
        ln = _names(rng, 'k', L)
    if case['seed'] % 3 == 1 and len(cn) >= 2:
        # cortical-layer style names: one sibling's name is another's up to a slash
        cn[0], cn[1] = 'L2/3', 'L2'
        if len(subs) >= 2:
            sn[subs[0]], sn[subs[1]] = 'L5/6 x', 'L5'
    NG = 2 * L + 3
    gn = _names(rng, rng.choice(['g', 'G', 'x']), min(NG, 16))
    gn += [f'h{j}' for j in range(NG - len(gn))]
    rows, obs = [], []
    deep = case['mode'] == 'raw' and case['seed'] % 2 == 0
    for i, (c, s) in enumerate(shape):
        n = rng.randint(*case['cells'])
        for k in range(n):
            v = [1 if rng.random() < 0.15 else 0 for _ in range(NG)]
            v[2 * i] = rng.randint(2, 3)
            v[2 * i + 1] = rng.randint(2, 3)
            if deep and i % 2 == 0:
                v[2 * i] = 12                   # 4095 counts in a million: beyond 2^31 once multiplied by 10^6 in 32 bits
            if rng.random() < 0.5:
                v[2 * L + (c % 3)] = 2          # a class-flavoured gene
            rows.append(v)
            obs.append({'cell_id': f'{ln[i]}_{k}', 'class': cn[c], 'subclass': sn[(c, s)], 'cluster': ln[i]})
    order = list(range(len(rows)))
    rng.shuffle(order)
    V = np.array([rows[j] for j in order], dtype=int)
    obs = [obs[j] for j in order]
    genes = list(gn)
    if case['mode'] == 'raw':
        X = (2 ** V - 1).astype(float)
        fill = 1e6 - X.sum(axis=1)
        pos = rng.randrange(NG + 1)
        X = np.hstack([X[:, :pos], fill[:, None], X[:, pos:]])
        genes = genes[:pos] + ['filler'] + genes[pos:]
        if case['seed'] % 2 == 0:
            # counts as many tools store them: 32-bit integers (every count, and every cell's total of 10^6, fits)
            X = X.astype(np.int32)
    else:
        X = V.astype(float)
    M = sp.csr_matrix(X) if case['enc'] == 'csr' else sp.csc_matrix(X) if case['enc'] == 'csc' else X
    anndata.AnnData(X=M, obs=pd.DataFrame(obs).set_index('cell_id'),
                    var=pd.DataFrame(index=pd.Index(genes, name='gene'))).write_h5ad(pathlib.Path(d) / 'ref.h5ad')
    # the harness's own view: integer sums and cell counts per leaf NAME, lineage per leaf
    sums, ncell, lineage = {}, {}, {}
    for o, v in zip(obs, V):
        sums.setdefault(o['cluster'], np.zeros(NG, dtype=int))
        sums[o['cluster']] += v
        ncell[o['cluster']] = ncell.get(o['cluster'], 0) + 1
        lineage[o['cluster']] = {'class': o['class'], 'subclass': o['subclass'], 'cluster': o['cluster']}
    fill_mean = {}
    if case['mode'] == 'raw':
        for lf in sums:
            vals = [np.log2(1.0 + f) for o, f in zip(obs, fill) if o['cluster'] == lf]
            fill_mean[lf] = float(np.sum(vals)) / ncell[lf]
    return {'genes': genes, 'int_genes': gn, 'sums': sums, 'ncell': ncell, 'lineage': lineage,
            'fill_mean': fill_mean}


def _norm(vec):
    """shift by the minimum and divide by the gcd: Cov / Var relations used by the premise are invariant"""
    m = min(vec)
    w = [x - m for x in vec]
    g = 0
    for x in w:
        g = math.gcd(g, x)
    return [x // g for x in w] if g > 1 else w


def _fits(q, vecs, draws):
    """all intermediate integers of Pipeline!Premise stay below 2^31"""
    for S in draws:
        n = len(S)
        for a in vecs:
            sq = sum(q[i] for i in S)
            sa = sum(a[i] for i in S)
            t1 = n * sum(q[i] * a[i] for i in S)
            vq = n * sum(q[i] * q[i] for i in S)
            va = n * sum(a[i] * a[i] for i in S)
            cov = t1 - sq * sa
            if max(t1, vq, va, sq * sa, sq * sq, sa * sa, cov * cov, (vq - sq * sq) * (va - sa * sa)) > INT_MAX:
                return False
    return True


def _case(args):
    case, wd = args
    d = pathlib.Path(tempfile.mkdtemp(dir=wd))
    recs, issues, info = [], [], {'visits': 0, 'skipped_filler': 0, 'skipped_big': 0, 'cells': 0}
    try:
        (d / 'scratch').mkdir()
        ref = build_reference(case, d)
        H = case['hier']
        leaves = sorted(ref['sums'])
        stage = 'statistics'
        try:
            with warnings.catch_warnings(), build.redirect_fds(str(d / 'stdio.txt')):
                warnings.simplefilter('ignore')
                stages.precompute(str(d / 'ref.h5ad'), d / 'stats.h5', d / 'scratch', n_proc=case['pre']['P'],
                                  rows_at_a_time=case['pre']['R'],
                                  normalization='raw' if case['mode'] == 'raw' else 'log2CPM', hierarchy=H)
                stage = 'reference markers'
                stages.ref_markers(d / 'stats.h5', d / 'refm.h5', d / 'scratch', n_proc=case['rm']['P'])
                qrng = random.Random(case['seed'] + 1)
                qgenes = list(ref['genes']) + ['unk_q1', 'unk_q2']
                qrng.shuffle(qgenes)
                stage = 'query markers'
                lookup = stages.query_markers(d / 'refm.h5', qgenes, d / 'scratch', n_proc=case['qm']['P'],
                                              n_per_utility=case['qm']['n_per_utility'],
                                              behemoth_cutoff=case['qm']['cutoff'])
                lookup['metadata'] = {'config': {'written_by': 'harness, as cli/query_markers.py does'}}
                json.dump(lookup, open(d / 'm.json', 'w'), indent=2)
        except Exception as e:
            issues.append((1805, f'{stage}: {type(e).__name__}: {e} | {traceback.format_exc()[-500:]}'))
            return recs, issues, info
        # centroid query written from the harness's own sums
        qorder = list(leaves)
        qrng.shuffle(qorder)
        gpos = {g: j for j, g in enumerate(ref['int_genes'])}
        Q = np.zeros((len(qorder), len(qgenes)))
        for r, lf in enumerate(qorder):
            for c, g in enumerate(qgenes):
                if g in gpos:
                    Q[r, c] = ref['sums'][lf][gpos[g]] / ref['ncell'][lf]
                elif g == 'filler':
                    Q[r, c] = ref['fill_mean'][lf]
                else:
                    Q[r, c] = qrng.randint(0, 3)
        build.write_h5ad(d / 'q.h5ad', Q, [f'q_{lf}' for lf in qorder], qgenes, case['map']['qenc'])
        m = case['map']
        conf = build.mapping_config(d, d / 'q.h5ad', d / 'stats.h5', d / 'm.json',
                                    {'B': m['B'], 'fnum': m['f'][0], 'fden': m['f'][1], 'chunk': m['chunk'],
                                     'seed': m['seed'], 'K': m['K'], 'P': m['P'], 'norm': 'log2CPM',
                                     'max_gb': m.get('max_gb', 1)})
        RH = list(H)                      # the levels the run votes on
        if case.get('reduce') == 'flatten':
            conf['flatten'] = True
            RH = [H[-1]]
        elif case.get('reduce') == 'drop' and len(H) > 1:
            dl = H[case['seed'] % (len(H) - 1)]
            conf['drop_level'] = dl
            RH = [x for x in H if x != dl]
        r = build.run_mapping(conf, trace_dir=str(d / 'tr'))
        root_key_empty = len(lookup.get('None', [])) == 0
        if not r['ok']:
            if root_key_empty:
                info['root_without_markers'] = 1
            else:
                issues.append((1805, f'mapping: {r["error"]} | {(r.get("traceback") or "")[-500:]}'))
            return recs, issues, info
        js = json.load(open(conf['extended_result_path']))
        # ------------------------------------------------------------ artefact record
        with h5py.File(d / 'stats.h5', 'r') as f:
            st_genes = json.loads(f['col_names'][()].decode())
            st_clusters = sorted(json.loads(f['cluster_to_row'][()].decode()))
        with h5py.File(d / 'refm.h5', 'r') as f:
            rm_genes = json.loads(f['gene_names'][()].decode())
            p2i = json.loads(f['pair_to_idx'][()].decode())
            n_pairs = int(f['n_pairs'][()])
            meta = json.loads(f['metadata'][()].decode()) if 'metadata' in f else {}
        lidx = {lf: j + 1 for j, lf in enumerate(leaves)}
        pairs, idxs = [], []
        extra_levels = [k for k in p2i if k != H[-1]]
        for a, dd in p2i.get(H[-1], {}).items():
            for b, ix in dd.items():
                ia, ib = lidx.get(a, 0), lidx.get(b, 0)
                pairs.append([min(ia, ib), max(ia, ib)])
                idxs.append(int(ix))
        parents = ['None']
        for li, lev in enumerate(H[:-1]):
            for node in sorted(set(ref['lineage'][lf][lev] for lf in leaves)):
                parents.append(f'{lev}/{node}')
        lk_keys = sorted(k for k in lookup if k not in ('log', 'metadata'))
        lk_genes = sorted(set(g for k in lk_keys for g in lookup[k]))
        used = sorted(set(g for k, v in js.get('marker_genes', {}).items() if isinstance(v, list) for g in v))
        levels_out = [k for k in js['results'][0] if k != 'cell_id'] if js.get('results') else []
        recs.append({'kind': 'artefacts',
                     'st': {'genes': st_genes, 'clusters': st_clusters, 'leaves': leaves},
                     'rm': {'genes': rm_genes, 'pairs': pairs, 'idx': idxs,
                            'back': bool(str(meta.get('precomputed_path', '')).endswith('stats.h5'))
                            and not extra_levels and len(pairs) == n_pairs},
                     'nleaves': len(leaves),
                     'lk': {'keys': lk_keys, 'genes': lk_genes}, 'mp': {'used': used, 'levels': levels_out},
                     'parents': parents, 'qgenes': qgenes, 'hier': H, 'events': [0]})
        # ------------------------------------------------------------ centroid records
        node_idx = {lev: {n: j + 1 for j, n in enumerate(sorted(set(ref['lineage'][lf][lev] for lf in leaves)))}
                    for lev in H}
        by_cell = {rec['cell_id']: rec for rec in js['results']}
        visits = {lf: [] for lf in leaves}
        undecidable = set()
        for pid, evs in r['traces'].items():
            names, rows, cur = None, None, None
            for e in evs:
                if e['ev'] == 'WStart':
                    names = e['names']
                elif e['ev'] == 'Visit':
                    rows = e['rows']
                elif e['ev'] == 'Genes':
                    cur = {'parent': e['parent'], 'genes': e['genes'], 'leaves': e['leaves'], 'rows': rows, 'draws': []}
                    for row in rows:
                        lf = names[row][2:]
                        visits.setdefault(lf, []).append(cur)
                elif e['ev'] == 'Draw' and cur is not None:
                    cur['draws'].append(e['idx'])
        for lf in leaves:
            info['cells'] += 1
            vs = []
            for v in visits.get(lf, []):
                if lf not in v['leaves']:
                    continue                     # the cell left its lineage; the node above decides
                if 'filler' in v['genes'] or any(g not in gpos for g in v['genes']):
                    undecidable.add(lf)
                    info['skipped_filler'] += 1
                    continue
                plev = None if v['parent'] is None else v['parent'][0]
                if plev is not None and plev not in RH:
                    issues.append((1810, f'a node of the removed level {plev} was visited'))
                    continue
                clev = RH[0] if plev is None else RH[RH.index(plev) + 1]
                pos = [gpos[g] for g in v['genes']]
                q = _norm([int(ref['sums'][lf][p]) for p in pos])
                M = [[lidx[b], _norm([int(ref['sums'][b][p]) for p in pos])] for b in v['leaves'] if b in lidx]
                if not _fits(q, [x[1] for x in M], v['draws']):
                    undecidable.add(lf)
                    info['skipped_big'] += 1
                    continue
                out = by_cell[f'q_{lf}'][clev]
                vs.append({'lev': -1 if plev is None else H.index(plev), 'q': q, 'M': M, 'draws': v['draws'],
                           'child': node_idx[clev][ref['lineage'][lf][clev]],
                           'out': {'a': node_idx[clev].get(out['assignment'], 0),
                                   'k': int(round(out['bootstrapping_probability'] * m['B'])),
                                   'one': bool(abs(out['avg_correlation'] - 1.0) <= 1e-9
                                               and abs(out['bootstrapping_probability'] * m['B']
                                                       - round(out['bootstrapping_probability'] * m['B'])) < 1e-9)}})
            if lf in undecidable:
                continue
            vs.sort(key=lambda x: x['lev'])
            for x in vs:
                x.pop('lev')
            info['visits'] += len(vs)
            rec = by_cell[f'q_{lf}']
            recs.append({'kind': 'centroid', 'own': lidx[lf], 'B': m['B'], 'visits': vs,
                         'path': [node_idx[lev][ref['lineage'][lf][lev]] for lev in H],
                         'assigned': [node_idx[lev].get(rec[lev]['assignment'], 0) if lev in rec else -1 for lev in H],
                         'leaf': lf, 'events': [0]})
    except MachineryError:
        raise
    except Exception:
        return None, [(-1, traceback.format_exc())], info
    finally:
        shutil.rmtree(d, ignore_errors=True)
    return recs, issues, info


def _mc(ctx, quick):
    dims = (3, 2, 3) if quick else (4, 2, 3)
    cfg = ('SPECIFICATION Spec\nCONSTANTS NG = %d V = %d NL = %d\n' % dims +
           'INVARIANT Lemma\nINVARIANT Tight\nINVARIANT ConstTies\nCHECK_DEADLOCK FALSE\n')
    res = run_tlc('Pipeline_MC', cfg_text=cfg, timeout=7200)
    ctx.add_tlc('Pipeline_MC', res)
    if not res.ok:
        raise MachineryError('centroid lemma does not hold in the model:\n' + res.error_trace[:3000])
    ctx.part('mc', genes=dims[0], max_value=dims[1], leaves=dims[2], states=res.distinct)


def _validate(ctx, recs, name, impl=True):
    return validate(ctx, 'Pipeline_Trace', recs, name, counts_as_impl=impl)


def run(ctx):
    quick = ctx.tier == 'quick'
    rng = random.Random(ctx.seed + 18)
    ctx.cov['rule'] = ('one case = one generated reference (2-9 leaves, hierarchy variant, naming, raw / log input) x '
                       'stage configurations x bootstrap factor x seed x query gene order, run through the four real '
                       'stages; per case one artefact record and one record per leaf centroid; non-trivial = a '
                       'centroid record with at least one node visit whose genes are decidable; distinct by canonical '
                       'JSON of the case.')
    ctx.cov['trusted_base'] = ['TLC 1.8', 'harness generator of the reference cells and of the centroid query',
                               '1e-9 tolerance on the reported correlation']
    if ctx.only in (None, 'mc'):
        _mc(ctx, quick)
    if ctx.only in (None, 'c2s'):
        wd = str(ctx.tmpdir('c18_'))
        n = 36 if quick else 600
        cases = [gen_case(rng, i) for i in range(n)]
        with cf.ProcessPoolExecutor(max_workers=8) as ex:
            outs = list(ex.map(_case, [(c, wd) for c in cases], chunksize=1))
        allrecs, owners = [], []
        tot = {'visits': 0, 'skipped_filler': 0, 'skipped_big': 0, 'cells': 0, 'root_without_markers': 0}
        for case, (recs, issues, info) in zip(cases, outs):
            if recs is None:
                raise MachineryError('harness error:\n' + issues[0][1])
            for k, v in info.items():
                tot[k] = tot.get(k, 0) + v
            ctx.count({'case': case}, nontrivial=any(r['kind'] == 'centroid' and r['visits'] for r in recs))
            for code, msg in issues[:2]:
                ctx.report(f'clause:{code}', f'{CL.get(code, code)}: {msg}', {'case': case})
            for r_ in recs:
                allrecs.append(r_)
                owners.append(case)
        vs = _validate(ctx, allrecs, 'Pipeline_Trace')
        rej = 0
        for case, rec, v in zip(owners, allrecs, vs):
            if not v['accepted']:
                rej += 1
                ctx.report(f'clause:{v["inv"]}', f'{CL.get(v["inv"], v["inv"])} - '
                           f'{rec["kind"]} {rec.get("leaf", "")} assigned={rec.get("assigned")} path={rec.get("path")} '
                           f'outs={[x["out"] for x in rec.get("visits", [])]}', {'case': case})
        claimed = [t for t in ctx.last_tlc.tuples('CLAIMED')] if getattr(ctx, 'last_tlc', None) else []
        ctx.sample({'case': cases[0], 'records': [r for r, o in zip(allrecs, owners) if o is cases[0]][:2]})
        ctx.part('c2s', cases=len(cases), records=len(allrecs), rejected=rej, centroid_cells=tot['cells'],
                 node_visits=tot['visits'], visits_skipped_filler_gene=tot['skipped_filler'],
                 visits_skipped_int32=tot['skipped_big'], root_without_markers=tot['root_without_markers'],
                 claimed=claimed)
        # binding self-test: corrupt winner / votes / name tables
        st = []
        for rec in allrecs:
            if rec['kind'] == 'centroid' and rec['visits'] and len(st) < 24:
                r2 = copy.deepcopy(rec)
                r2['visits'][0]['out']['k'] = max(0, r2['visits'][0]['out']['k'] - 1)
                r2['tag'] = 'votes'
                st.append(r2)
            if rec['kind'] == 'artefacts' and len(st) < 24 and len(rec['rm']['pairs']) > 1:
                r2 = copy.deepcopy(rec)
                r2['rm']['pairs'][0] = r2['rm']['pairs'][1]
                r2['tag'] = 'pairs'
                st.append(r2)
        if st:
            sv = _validate(ctx, st, 'selftest', impl=False)
            # a corrupted vote count is only rejected where the premise holds at the first node
            acc_pairs = sum(1 for r_, v in zip(st, sv) if r_['tag'] == 'pairs' and v['accepted'])
            rej_votes = sum(1 for r_, v in zip(st, sv) if r_['tag'] == 'votes' and not v['accepted'])
            ctx.cov['selftest'] = {'corrupted': len(st), 'pairs_accepted': acc_pairs, 'votes_rejected': rej_votes}
            if acc_pairs or (rej_votes == 0 and any(r_['tag'] == 'votes' for r_ in st)):
                raise MachineryError('self-test: corrupted records accepted')


def replay(ctx, path):
    case = json.load(open(pathlib.Path(path) / 'replay.json'))['case']
    wd = str(ctx.tmpdir('c18_'))
    recs, issues, info = _case((case['case'], wd))
    if recs is None:
        raise MachineryError(issues[0][1])
    for code, msg in issues:
        ctx.report(f'clause:{code}', msg, case)
    if recs:
        for rec, v in zip(recs, _validate(ctx, recs, 'replay')):
            if not v['accepted']:
                ctx.report(f'clause:{v["inv"]}', CL.get(v['inv']), case)
    ctx.count(case)
