"""X03 (extension suite, not one of the 20 listed statements) - building the taxonomy from the CSV
tables of a data release (TaxonomyTree.from_data_release).

1. MC   : DataRelease_MC - over every tree shape of Taxonomy_MC (<= 4 levels / 5 leaves): the canonical
          tables of a tree are accepted and build the same tree; without a cell table the same tree without
          cells; a leaf cluster that owns no cell makes the tables unusable when a cell table is given.
2. C->S : random trees are turned into the three CSV files (rows shuffled, identical rows repeated, extra
          columns, rows of term sets outside the hierarchy, top-level terms with empty parent) with at most
          one injected defect (parent in the wrong level, a term set with two names, a level without rows,
          a label with two aliases / names, an alias / name used twice, a cell listed twice, an unknown
          cluster alias, a leaf without cells, a term with two parents); the real constructor is called with
          and without the cell table.  DataRelease_Trace evaluates the spec ON THE ROWS: accepted iff no
          reason to refuse is present, refused for a reason that is present, and the tree built (nodes,
          children, cells, name / alias / level-name tables) equals the spec's.
"""
import concurrent.futures as cf
import copy
import json
import os
import pathlib
import random
import shutil
import tempfile
import traceback
import warnings

from harness import maptrace
from harness.tlc import run_tlc, MachineryError
from harness.traces import validate

PID = 'X03'
CL = {2301: 'the tables were accepted / refused against the rule',
      2302: 'the tables were refused for a reason that is not present in them',
      2303: 'nodes of a level differ from the spec', 2304: 'children of a node differ from the spec',
      2305: 'cells of a leaf differ from the spec', 2306: 'name table differs from the membership rows',
      2307: 'alias table differs from the membership rows', 2308: 'level-name table differs from the membership rows'}
DEFECTS = ['none', 'none', 'none', 'parent_level', 'parent_empty', 'level_two_names', 'missing_level', 'label_two_aliases',
           'label_two_names', 'alias_twice', 'name_twice', 'cell_twice', 'alias_unknown', 'empty_leaf',
           'two_parents']


def lev_s(l):
    if l == -1:
        return ''                          # a term whose parent columns are empty
    return f'TS{l}' if l else 'OTHERSET'


def lab_s(x):
    return f'T{x}'


def gen_case(rng, i):
    while True:
        tj = maptrace.random_tree(rng, 4, 6, 2)
        if len(tj['hier']) >= 2:
            break
    hier = tj['hier']                       # level ids (ints), top first
    nodes = {l: tj['nodes'][k] for k, l in enumerate(hier)}
    kids = {l: dict((a, b) for a, b in tj['kids'][k]) for k, l in enumerate(hier[:-1])}
    lab = lambda l, n: 100 * l + n          # labels unique across levels, as in a release
    parent = {}
    for k, l in enumerate(hier[:-1]):
        for p, cs in kids[l].items():
            for c in cs:
                parent[(hier[k + 1], c)] = (l, p)

    def anc(leaf, lev):
        cur = (hier[-1], leaf)
        while cur[0] != lev:
            cur = parent[cur]
        return cur[1]
    ann = []
    for (cl, c), (pl, p) in parent.items():
        ann.append({'lev': cl, 'label': lab(cl, c), 'plev': pl, 'parent': lab(pl, p)})
    mem = []
    for leaf in nodes[hier[-1]]:
        for l in hier:
            a = anc(leaf, l)
            mem.append({'lev': l, 'levname': 900 + l, 'alias': 5000 + leaf, 'label': lab(l, a), 'name': 7000 + lab(l, a)})
    cel = []
    cid = 1
    for leaf in nodes[hier[-1]]:
        for _ in range(rng.randint(1, 3)):
            cel.append({'cell': cid, 'alias': 5000 + leaf})
            cid += 1
    rng.shuffle(cel)
    defect = DEFECTS[i % len(DEFECTS)]
    leafl = hier[-1]
    if defect == 'parent_level' and len(hier) >= 3:
        r = rng.choice([x for x in ann if x['lev'] != hier[1]] or ann)
        r['plev'] = hier[0] if r['plev'] != hier[0] else 0
    elif defect == 'parent_level':
        rng.choice(ann)['plev'] = 0
    elif defect == 'parent_empty':
        rng.choice(ann)['plev'] = -1
    elif defect == 'level_two_names':
        r = dict(rng.choice(mem))
        r['levname'] += 50
        mem.append(r)
    elif defect == 'missing_level':
        k = rng.randrange(1, len(hier))
        ann = [x for x in ann if x['lev'] != hier[k]]
    elif defect == 'label_two_aliases':
        r = dict(rng.choice([x for x in mem if x['lev'] == leafl]))
        r['alias'] += 300
        mem.append(r)
    elif defect == 'label_two_names':
        r = dict(rng.choice(mem))
        r['name'] += 300
        mem.append(r)
    elif defect == 'alias_twice' and len(nodes[leafl]) >= 2:
        a, b = rng.sample(nodes[leafl], 2)
        for x in mem:
            if x['alias'] == 5000 + b:
                x['alias'] = 5000 + a
        for x in cel:
            if x['alias'] == 5000 + b:
                x['alias'] = 5000 + a
    elif defect == 'name_twice':
        l = rng.choice(hier)
        if len(nodes[l]) >= 2:
            a, b = rng.sample(nodes[l], 2)
            for x in mem:
                if x['lev'] == l and x['label'] == lab(l, b):
                    x['name'] = 7000 + lab(l, a)
    elif defect == 'cell_twice':
        r = dict(rng.choice(cel))
        if rng.random() < 0.5 and len(nodes[leafl]) >= 2:
            r['alias'] = 5000 + rng.choice([n for n in nodes[leafl] if 5000 + n != r['alias']])
        cel.insert(rng.randrange(len(cel) + 1), r)
    elif defect == 'alias_unknown':
        rng.choice(cel)['alias'] = 5999
    elif defect == 'empty_leaf' and len(nodes[leafl]) >= 2:
        gone = 5000 + rng.choice(nodes[leafl])
        cel = [x for x in cel if x['alias'] != gone]
    elif defect == 'two_parents':
        l = rng.choice(hier[:-1])
        if len(nodes[l]) >= 2:
            r = dict(rng.choice([x for x in ann if x['plev'] == l]))
            r['parent'] = lab(l, rng.choice([n for n in nodes[l] if lab(l, n) != r['parent']]))
            ann.append(r)
    # benign noise
    if rng.random() < 0.5:
        ann.append(dict(rng.choice(ann))) if ann else None
        mem.append(dict(rng.choice(mem)))
    if rng.random() < 0.5:
        ann.append({'lev': 0, 'label': 42, 'plev': 0, 'parent': 43})
        mem.append({'lev': 0, 'levname': 900, 'alias': 5000 + nodes[leafl][0], 'label': 42, 'name': 7042})
    rng.shuffle(ann)
    rng.shuffle(mem)
    return {'hier': hier, 'ann': ann, 'mem': mem, 'cel': cel, 'defect': defect, 'top': [lab(hier[0], n) for n in nodes[hier[0]]],
            'extra_cols': rng.random() < 0.5, 'seed': rng.randrange(10 ** 6),
            # identifiers that look like numbers and do not survive a numeric round trip (zero padded): they are text
            'padded': rng.random() < 0.3}


def _alias_s(case, a):
    return f'{a:07d}' if case.get('padded') else str(a)


def _cell_s(case, c):
    return f'{c:06d}' if case.get('padded') else f'cell{c}'


def _cell_inv(case, s_):
    if case.get('padded'):
        return int(s_) if (isinstance(s_, str) and len(s_) == 6 and s_.isdigit()) else -7
    return int(s_[4:])


def _alias_inv(case, s_):
    if case.get('padded'):
        return int(s_) if (isinstance(s_, str) and len(s_) == 7 and s_.isdigit()) else -7
    return int(s_)


def write_csvs(case, d):
    rng = random.Random(case['seed'])

    def table(path, cols, rows):
        cols = list(cols)
        extra = []
        if case['extra_cols']:
            extra = ['color_hex_triplet', 'order']
        allc = cols + extra
        rng.shuffle(allc)
        with open(path, 'w') as f:
            f.write(','.join(allc) + '\n')
            for r in rows:
                vals = dict(r)
                for e in extra:
                    vals[e] = f'#{rng.randrange(16 ** 6):06x}'
                f.write(','.join(str(vals[c]) for c in allc) + '\n')
    ann_rows = [{'label': lab_s(r['label']), 'cluster_annotation_term_set_label': lev_s(r['lev']),
                 'parent_term_label': lab_s(r['parent']), 'parent_term_set_label': lev_s(r['plev'])} for r in case['ann']]
    for t in case['top']:                 # top-level terms have no parent
        ann_rows.append({'label': lab_s(t), 'cluster_annotation_term_set_label': lev_s(case['hier'][0]),
                         'parent_term_label': '', 'parent_term_set_label': ''})
    rng.shuffle(ann_rows)
    table(d / 'cluster_annotation_term.csv', ['label', 'cluster_annotation_term_set_label', 'parent_term_label',
                                               'parent_term_set_label'], ann_rows)
    mem_rows = [{'cluster_annotation_term_set_label': lev_s(r['lev']), 'cluster_annotation_term_set_name': f'set {r["levname"]}',
                 'cluster_alias': _alias_s(case, r['alias']), 'cluster_annotation_term_label': lab_s(r['label']),
                 'cluster_annotation_term_name': f'name {r["name"]}'} for r in case['mem']]
    table(d / 'cluster_to_cluster_annotation_membership.csv',
          ['cluster_annotation_term_set_label', 'cluster_annotation_term_set_name', 'cluster_alias',
           'cluster_annotation_term_label', 'cluster_annotation_term_name'], mem_rows)
    cel_rows = [{'cell_label': _cell_s(case, r['cell']), 'cluster_alias': _alias_s(case, r['alias'])} for r in case['cel']]
    table(d / 'cell_metadata.csv', ['cell_label', 'cluster_alias'], cel_rows)


def _kind(e, case):
    msg = str(e)
    if isinstance(e, KeyError):
        key = msg.strip("'\"")
        if key.startswith('TS') or key == 'OTHERSET':
            return 'missing_level'
        return 'alias_unknown' if key.isdigit() else f'KeyError {key}'
    if 'expected to have a parent at level' in msg:
        return 'parent_level'
    if 'maps to at least two names' in msg:
        return 'level_two_names'
    if 'listed more than once in' in msg and 'with mappings' in msg:
        return 'label_two_values'
    if 'used more than once at level' in msg:
        return 'value_twice'
    if msg.startswith('cell ') and 'listed more than once' in msg:
        return 'cell_twice'
    return 'invalid_tree'


def _case(args):
    case, wd = args
    from cell_type_mapper.taxonomy.taxonomy_tree import TaxonomyTree
    d = pathlib.Path(tempfile.mkdtemp(dir=wd))
    recs = []
    try:
        write_csvs(case, d)
        for has in (True, False):
            rec = {'hier': case['hier'], 'ann': case['ann'], 'mem': case['mem'], 'cel': case['cel'] if has else [],
                   'hasCells': has, 'ok': True, 'kind': '', 'nodes': [], 'kids': [], 'cells': [], 'names': [],
                   'aliases': [], 'levnames': [], 'events': [0], 'message': ''}
            try:
                with warnings.catch_warnings():
                    warnings.simplefilter('ignore')
                    tree = TaxonomyTree.from_data_release(
                        cell_metadata_path=str(d / 'cell_metadata.csv') if has else None,
                        cluster_annotation_path=str(d / 'cluster_annotation_term.csv'),
                        cluster_membership_path=str(d / 'cluster_to_cluster_annotation_membership.csv'),
                        hierarchy=[lev_s(l) for l in case['hier']])
                data = json.loads(tree.to_str())
                inv = lambda s: int(s[1:])
                for l in case['hier']:
                    tab = data[lev_s(l)]
                    rec['nodes'].append([l, sorted(inv(k) for k in tab)])
                    if l != case['hier'][-1]:
                        for k, v in tab.items():
                            rec['kids'].append([l, inv(k), sorted(inv(c) for c in v)])
                    else:
                        for k, v in tab.items():
                            rec['cells'].append([inv(k), sorted(_cell_inv(case, c) for c in v)])
                for L, tab in data.get('name_mapper', {}).items():
                    l = 0 if L == 'OTHERSET' else int(L[2:])
                    for k, v in tab.items():
                        if 'name' in v:
                            rec['names'].append([l, inv(k), int(v['name'].split()[1])])
                        if 'alias' in v:
                            rec['aliases'].append([inv(k), _alias_inv(case, v['alias'])])
                for L, nm in data.get('hierarchy_mapper', {}).items():
                    rec['levnames'].append([0 if L == 'OTHERSET' else int(L[2:]), int(nm.split()[1])])
            except (RuntimeError, KeyError) as e:
                rec['ok'] = False
                rec['kind'] = _kind(e, case)
                rec['message'] = f'{type(e).__name__}: {str(e)[:200]}'
            recs.append(rec)
    except Exception:
        return None, traceback.format_exc()
    finally:
        shutil.rmtree(d, ignore_errors=True)
    return recs, None


def run(ctx):
    quick = ctx.tier == 'quick'
    rng = random.Random(ctx.seed + 103)
    ctx.cov['rule'] = ('one case = one random tree (2-4 levels, <= 6 leaves) x one injected defect (or none) x benign '
                       'noise, written as the three CSV files and given to the real constructor with and without the '
                       'cell table; non-trivial = every case; distinct by canonical JSON.')
    ctx.cov['trusted_base'] = ['TLC 1.8', 'harness mapping between strings in the CSV files and integers in the trace']
    ctx.assumptions += ['text parsing (splitting a line at commas) is not modelled: generated names contain no comma']
    res = run_tlc('DataRelease_MC', cfg='DataRelease_MC.cfg', timeout=3600)
    ctx.add_tlc('DataRelease_MC', res)
    if not res.ok:
        raise MachineryError(res.error_trace or res.stdout[-1500:])
    n = 140 if quick else 2800
    cases = [gen_case(rng, i) for i in range(n)]
    wd = str(ctx.tmpdir('x03_'))
    with cf.ProcessPoolExecutor(max_workers=8) as ex:
        outs = list(ex.map(_case, [(c, wd) for c in cases], chunksize=4))
    allrecs, owners = [], []
    for case, (recs, err) in zip(cases, outs):
        if recs is None:
            raise MachineryError(err)
        ctx.count({'case': case})
        for r in recs:
            allrecs.append(r)
            owners.append(case)
    vs = validate(ctx, 'DataRelease_Trace', allrecs, 'DataRelease_Trace')
    rej = 0
    for case, rec, v in zip(owners, allrecs, vs):
        if not v['accepted']:
            rej += 1
            ctx.report(f'clause:{v["inv"]}', f'{CL.get(v["inv"], v["inv"])} - injected defect "{case["defect"]}", cell '
                       f'table {rec["hasCells"]}: ok={rec["ok"]} kind={rec["kind"]} message={rec["message"]}',
                       {'case': case})
    by = {}
    for case, rec in zip(owners, allrecs):
        k = (case['defect'], rec['ok'], rec['kind'])
        by[str(k)] = by.get(str(k), 0) + 1
    ctx.sample({'case': {k: cases[3][k] for k in ('hier', 'defect')}, 'observed': {k: allrecs[6][k] for k in ('ok', 'kind', 'nodes')}})
    ctx.part('c2s', cases=len(cases), calls=len(allrecs), rejected=rej, outcomes=by)
    st = []
    for r in allrecs:
        if r['ok'] and r['kids'] and len(st) < 20:
            r2 = copy.deepcopy(r)
            r2['kids'][0][2] = r2['kids'][0][2][1:] + [9999]
            st.append(r2)
    if st:
        sv = validate(ctx, 'DataRelease_Trace', st, 'selftest', counts_as_impl=False)
        acc = sum(1 for v in sv if v['accepted'])
        ctx.cov['selftest'] = {'corrupted': len(st), 'rejected': len(st) - acc}
        if acc:
            raise MachineryError('self-test: corrupted tree accepted')


def replay(ctx, path):
    case = json.load(open(pathlib.Path(path) / 'replay.json'))['case']['case']
    wd = str(ctx.tmpdir('x03_'))
    recs, err = _case((case, wd))
    if recs is None:
        raise MachineryError(err)
    for rec, v in zip(recs, validate(ctx, 'DataRelease_Trace', recs, 'replay')):
        if not v['accepted']:
            ctx.report(f'clause:{v["inv"]}', CL.get(v['inv']), {'case': case})
    ctx.count(case)
