"""X12 (extension suite, not one of the 20 listed statements) - scoring a mapping against the truth
(evaluation/f1_scores.py: avg_f1).

1. MC   : Evaluate_MC - the scoring as the code performs it (cell after cell, running aggregate probability, per
          correlation cut the flag "an ancestor level already failed") against the set definitions of Evaluate.tla, for every
          sequence of <= 2 cells over 2 levels x 2 nodes: the counters agree; every cell is the true positive or the false
          negative of its true node exactly once; false positives never exceed false negatives; a cut that stops a cell at a
          level stops it at every finer level; micro F1 in [0, 1].
2. C->S : random mappings (1-3 levels, 2-3 nodes per level, <= 6 cells, votes out of B, correlations in tenths, probability
          and correlation cuts) are scored by the real function on a real TaxonomyTree; Evaluate_Trace recomputes every
          count and every score as an exact fraction from the cells and compares (floats arrive as nearest small fractions).
"""
import copy
import json
import math
import pathlib
import random
import warnings
from fractions import Fraction

from harness.tlc import run_tlc, MachineryError
from harness.traces import validate

PID = 'X12'
CL = {3101: 'true positives differ', 3102: 'false positives differ', 3103: 'false negatives differ', 3104: 'number of cells differs',
      3105: 'number of classes with a defined F1 differs', 3106: 'micro-averaged F1 differs', 3107: 'macro-averaged F1 differs',
      3108: 'adjusted macro-averaged F1 differs', 3109: 'estimated false positives differ',
      3110: 'a (level, cut) pair has no result of its own'}


def _frac(x):
    if x is None or (isinstance(x, float) and (math.isnan(x) or math.isinf(x))):
        return [0, 1, 1]
    f = Fraction(float(x)).limit_denominator(50000)
    return [f.numerator, f.denominator, 0]


def _case(rng):
    from cell_type_mapper.taxonomy.taxonomy_tree import TaxonomyTree
    from cell_type_mapper.evaluation.f1_scores import avg_f1
    L = rng.randint(1, 3)
    B = rng.choice([2, 3, 4, 5])
    # a strict tree with 2-3 nodes at the top, every node 1-2 children, at most 3 nodes per level kept small
    counts = [rng.randint(2, 3)]
    for _ in range(L - 1):
        counts.append(min(3, counts[-1] + rng.randint(0, 1)))
    names = [[f'L{i + 1}_n{j + 1}' for j in range(counts[i])] for i in range(L)]
    parent = []
    for i in range(1, L):
        par = list(range(counts[i - 1])) + [rng.randrange(counts[i - 1]) for _ in range(counts[i] - counts[i - 1])]
        parent.append(sorted(par))
    data = {'hierarchy': [f'lev{i + 1}' for i in range(L)]}
    for i in range(L):
        if i == L - 1:
            data[f'lev{i + 1}'] = {n: [] for n in names[i]}
        else:
            data[f'lev{i + 1}'] = {names[i][p]: [names[i + 1][c] for c in range(counts[i + 1]) if parent[i][c] == p]
                                  for p in range(counts[i])}
    with warnings.catch_warnings():
        warnings.simplefilter('ignore')
        tree = TaxonomyTree(data=data)
    ncell = rng.randint(0, 6)
    cells, mapping, truth = [], [], {}
    for c in range(ncell):
        leaf = rng.randrange(counts[-1])
        tr = [0] * L
        cur = leaf
        for i in range(L - 1, -1, -1):
            tr[i] = cur
            if i > 0:
                cur = parent[i - 1][cur]
        asg = [tr[i] if rng.random() < 0.6 else rng.randrange(counts[i]) for i in range(L)]
        k = [rng.randint(0 if rng.random() < 0.1 else 1, B) for _ in range(L)]
        corr = [rng.randint(0, 10) for _ in range(L)]
        cells.append({'truth': [x + 1 for x in tr], 'asg': [x + 1 for x in asg], 'k': k, 'corr': corr})
        rec = {'cell_id': f'c{c}'}
        for i in range(L):
            rec[f'lev{i + 1}'] = {'assignment': names[i][asg[i]], 'bootstrapping_probability': k[i] / B,
                                  'avg_correlation': corr[i] / 10.0}
        mapping.append(rec)
        truth[f'c{c}'] = {f'lev{i + 1}': names[i][tr[i]] for i in range(L)}
    pcuts = sorted(set(rng.sample([(0, 1), (1, 4), (1, 2), (3, 4), (9, 10), (1, 1), (1, 3), (2, 3)], rng.randint(1, 3))))
    ccuts = sorted(set(rng.sample(range(0, 11), rng.randint(0, 2))))
    # cuts are keyed by their value to two decimals: keep them distinct there
    pvals, seen = [], set()
    for n_, d_ in pcuts:
        key = f'{n_ / d_:.2f}'
        if key not in seen:
            seen.add(key)
            pvals.append((n_, d_))
    with warnings.catch_warnings():
        warnings.simplefilter('ignore')
        res = avg_f1(mapping=mapping, truth=truth, taxonomy_tree=tree,
                     probability_cut_list=[n_ / d_ for n_, d_ in pvals], correlation_cut_list=[c / 10.0 for c in ccuts])
    cuts = [['p', n_, d_] for n_, d_ in pvals] + [['c', c, 0] for c in ccuts]
    out = []
    for i in range(L):
        for ci, cut in enumerate(cuts):
            kind = 'probability' if cut[0] == 'p' else 'correlation'
            val = cut[1] / cut[2] if cut[0] == 'p' else cut[1] / 10.0
            r = res[f'lev{i + 1}'].get(kind, {}).get(f'{val:.2f}')
            if r is None:
                continue
            out.append({'lev': i + 1, 'cut': ci + 1, 'tp': int(r['true_pos']), 'fp': int(r['false_pos']), 'fn': int(r['false_neg']),
                        'n': int(r['n_cells']), 'valid': int(r['valid_classes']), 'micro': _frac(r['micro']),
                        'macro': _frac(r['macro']), 'adj': _frac(r['macro_adjusted']), 'est': _frac(r.get('est_false_pos', 0.0))})
    return {'L': L, 'B': B, 'nodes': [list(range(1, counts[i] + 1)) for i in range(L)], 'cells': cells, 'cuts': cuts, 'res': out,
            'events': [0]}


def run(ctx):
    quick = ctx.tier == 'quick'
    rng = random.Random(ctx.seed + 112)
    ctx.cov['rule'] = ('one case = one real call of avg_f1 on a random mapping; non-trivial = at least two cells and a wrong '
                       'assignment; distinct by canonical JSON.')
    ctx.cov['trusted_base'] = ['TLC 1.8', 'python fractions for turning the returned floats into small fractions']
    if ctx.only in (None, 'mc'):
        res = run_tlc('Evaluate_MC', cfg='Evaluate_MC.cfg', timeout=7200)
        ctx.add_tlc('Evaluate_MC', res)
        if not res.ok:
            raise MachineryError('Evaluate_MC: ' + (res.error_trace or res.stdout[-1500:]))
        ctx.part('mc', distinct=res.distinct)
    if ctx.only in (None, 'c2s'):
        recs = [_case(rng) for _ in range(300 if quick else 4000)]
        for r in recs:
            ctx.count({'r': {k: r[k] for k in ('cells', 'cuts', 'B')}},
                      nontrivial=len(r['cells']) >= 2 and any(c['truth'] != c['asg'] for c in r['cells']))
        vs = validate(ctx, 'Evaluate_Trace', recs, 'Evaluate_Trace', cfg='Evaluate_Trace.cfg')
        rej = 0
        for r, v in zip(recs, vs):
            if not v['accepted']:
                rej += 1
                ctx.report(f'clause:{v["inv"]}', f'{CL.get(v["inv"], v["inv"])} - B={r["B"]} cells={r["cells"]} cuts={r["cuts"]} '
                           f'results={json.dumps(r["res"])[:500]}', {'case': {k: r[k] for k in r if k != 'events'}})
        ctx.part('c2s', calls=len(recs), rejected=rej, results=sum(len(r['res']) for r in recs))
        ctx.sample({k: recs[0][k] for k in ('L', 'B', 'cells', 'cuts', 'res')})
        st = []
        for r in recs:
            if len(st) >= 60:
                break
            if not r['res'] or not r['cells']:
                continue
            r2 = copy.deepcopy(r)
            m = len(st) % 3
            if m == 0:
                r2['res'][0]['tp'] += 1
            elif m == 1:
                r2['res'][-1]['micro'] = [r2['res'][-1]['micro'][0] + r2['res'][-1]['micro'][1] + 1, r2['res'][-1]['micro'][1], 0]
            else:
                r2['res'] = r2['res'][1:]
            st.append(r2)
        if st:
            sv = validate(ctx, 'Evaluate_Trace', st, 'selftest', cfg='Evaluate_Trace.cfg', counts_as_impl=False)
            acc = sum(1 for v in sv if v['accepted'])
            ctx.cov['selftest'] = {'corrupted': len(st), 'rejected': len(st) - acc}
            if acc:
                raise MachineryError(f'self-test: {acc} corrupted score records accepted')


def replay(ctx, path):
    case = json.load(open(pathlib.Path(path) / 'replay.json'))['case']['case']
    case['events'] = [0]
    v = validate(ctx, 'Evaluate_Trace', [case], 'replay', cfg='Evaluate_Trace.cfg')[0]
    if not v['accepted']:
        ctx.report(f'clause:{v["inv"]}', CL.get(v['inv']), {'case': case})
    ctx.count(case)
