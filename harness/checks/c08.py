"""C08 - marker genes are reconciled with the query by name, with ancestor fallback.

1. MC   : MarkerTable_MC - every table over the choice parents of a fixed 3-level taxonomy and
          a small gene universe x query gene set x reference gene set x minimum x flatten x
          dropped level; six design invariants of Reconcile.
2. S->C : the same enumeration emitted with the expected per-parent gene sets / error kinds and
          replayed into create_marker_cache_from_specified_markers + serialize_markers.
3. C->S : (a) random trees / tables / gene orders through the same two functions, observations
          validated by MarkerTable_Trace (81x); (b) full mapping runs incl. unusable tables,
          validated by MapRun_Trace: the genes *used* at each node (hook) equal the reconciled
          set (801), runs fail exactly when the spec says so (830, 130).
"""
import json
import random
import tempfile
import warnings

import h5py
import numpy as np

from harness import maptrace, taxo, build
from harness.campaign import campaign, report_for
from harness.tlc import run_tlc, MachineryError
from harness.traces import validate

PID = 'C08'

FIXED_TREE = {'hier': [1, 2, 3], 'keys': [1, 2, 3],
              'nodes': [[1, 2], [1, 2, 3], [1, 2, 3, 4, 5]],
              'kids': [[[1, [1, 2]], [2, [3]]], [[1, [1, 2]], [2, [3]], [3, [4, 5]]],
                       [[n, []] for n in range(1, 6)]],
              'cells': [[n, []] for n in range(1, 6)]}


DEEP_TREE = {'hier': [1, 2, 3, 4], 'keys': [1, 2, 3, 4],
             'nodes': [[1, 2], [1, 2, 3], [1, 2, 3, 4], [1, 2, 3, 4, 5]],
             'kids': [[[1, [1, 2]], [2, [3]]], [[1, [1, 2]], [2, [3]], [3, [4]]],
                      [[1, [1, 2]], [2, [3]], [3, [4]], [4, [5]]], [[n, []] for n in range(1, 6)]],
             'cells': [[n, []] for n in range(1, 6)]}


def observe(tj, drop, table, qgenes, rgenes, minm, scheme, workdir):
    """call the real reconciliation; returns dict(outcome, genes, paired, error)"""
    from cell_type_mapper.taxonomy.taxonomy_tree import TaxonomyTree
    from cell_type_mapper.type_assignment.marker_cache_v2 import (
        create_marker_cache_from_specified_markers, serialize_markers)
    nm = taxo.Naming(scheme)
    tree = TaxonomyTree(data=taxo.dict_from_tree(tj, nm))
    if drop and nm.level(drop) in tree.hierarchy:
        tree = tree.drop_level(nm.level(drop))
    lookup = {}
    for key, genes in table:
        k = 'None' if key == [0, 0] else f'{nm.level(key[0])}/{nm.node(key[0], key[1])}'
        lookup[k] = [build.gene_name(g, scheme) for g in genes]
    qn = [build.gene_name(g, scheme) for g in qgenes]
    rn = [build.gene_name(g, scheme) for g in rgenes]
    path = tempfile.mktemp(prefix='cache_', suffix='.h5', dir=workdir)
    try:
        with warnings.catch_warnings():
            warnings.simplefilter('ignore')
            create_marker_cache_from_specified_markers(
                marker_lookup=lookup, reference_gene_names=rn, query_gene_names=qn,
                output_cache_path=path, taxonomy_tree=tree, min_markers=minm)
            ser = serialize_markers(path, tree)
    except RuntimeError as e:
        return {'outcome': 'error', 'genes': [], 'paired': True, 'error': str(e)}
    except KeyError as e:
        return {'outcome': 'error', 'genes': [], 'paired': True, 'error': 'KeyError: ' + str(e)}
    hier = tj['hier']
    genes = []
    for k, v in ser.items():
        if k == 'None':
            key = [0, 0]
        else:
            l, n = k.split('/', 1)
            li = nm.inv_level(l, hier)
            key = [li, nm.inv_node(li, n)]
        genes.append([key, sorted(build.gene_id(g, scheme) for g in v)])
    # pairing by name inside the cache, sorted by reference index
    paired = True
    with h5py.File(path, 'r') as f:
        rnames = json.loads(f['reference_gene_names'][()].decode())
        qnames = json.loads(f['query_gene_names'][()].decode())
        for k in ser:
            if k not in f:
                continue
            ref = f[k]['reference'][()]
            qry = f[k]['query'][()]
            if len(ref) != len(qry) or any(rnames[a] != qnames[b] for a, b in zip(ref, qry)) or \
                    any(ref[i] >= ref[i + 1] for i in range(len(ref) - 1)):
                paired = False
            if sorted(rnames[a] for a in ref) != sorted(ser[k]) and len(ser[k]) > 0:
                paired = False
    return {'outcome': 'ok', 'genes': genes, 'paired': paired, 'error': None}


def irrelevant_key(msg, scheme, s):
    """the code refused a key that the run never consults (finding F4)"""
    import re
    m = re.search(r"No markers at parent node '([^']*)' were present", msg or '')
    if not m or m.group(1) == 'None':
        return False
    nm = taxo.Naming(scheme)
    l, n = m.group(1).split('/', 1)
    li = nm.inv_level(l, [1, 2, 3, 4])
    key = [li, nm.inv_node(li, n)]
    return key not in [e['key'] for e in s['rec']]


def is_f12(table, QG, RG, minm, consulted):
    """only failure kind = unknown marker, and every unknown marker sits in a non-root consulted
    list that gets patched (own usable genes < minimum) and is absent from the query."""
    found = False
    for key, genes in table:
        unk = [g for g in genes if g not in RG]
        if not unk:
            continue
        if key == [0, 0] or any(g in QG for g in unk):
            return False
        if len(set(genes) & set(QG)) >= minm:
            return False
        found = True
    return found


def _s2c_one(args):
    s, scheme, wd = args
    table = [[e['key'], e['genes']] for e in s['table']]
    rg = sorted(s['RG'])
    qg = list(s['QG'])
    random.Random(len(table) + s['minm']).shuffle(qg)
    o = observe(DEEP_TREE if s['deep'] else FIXED_TREE, s['drop'], table, qg, rg, s['minm'], scheme, wd)
    want_err = len(s['errs']) > 0
    if want_err and o['outcome'] == 'ok':
        if s['errs'] == ['unknown_to_reference'] and is_f12(table, s['QG'], s['RG'], s['minm'], None):
            return 'cache:unknown-marker-dropped-by-patch', f'{s}', o
        return 'clause:810', f'spec requires an error {s["errs"]} but the cache was built: {s}', o
    if not want_err and o['outcome'] == 'error':
        if irrelevant_key(o['error'], scheme, s):
            return 'map:irrelevant-key-no-overlap', f'{o["error"][:200]}: {s}', o
        return 'clause:811', f'spec expects success, code raised {o["error"][:200]}: {s}', o
    if not want_err:
        got = {tuple(k2): v for k2, v in o['genes']}
        for e in s['rec']:
            if got.get(tuple(e['key'])) != sorted(e['genes']):
                return 'clause:812', (f'parent {e["key"]}: code uses {got.get(tuple(e["key"]))}, spec '
                                      f'{sorted(e["genes"])} (scheme {scheme}): {s}'), o
        if not o['paired']:
            return 'clause:814', f'cache columns not paired by name: {s}', o
    return 'ok', '', o


def run(ctx):
    quick = ctx.tier == 'quick'
    rng = random.Random(ctx.seed + 8)
    ctx.cov['rule'] = (
        'S->C: every (table over the 4 choice parents of a fixed 3-level tree, query gene set, '
        'reference gene set, minimum, dropped level) for a small gene universe, emitted by TLC with '
        'expected gene sets/error kinds; C->S: random trees/tables through the real functions and '
        'full mapping runs. Non-trivial = table lists at least one non-root parent or fallback is '
        'needed; distinct by canonical JSON.')
    ctx.cov['trusted_base'] = ['TLC 1.8', 'harness projection']
    ng, mm = (2, 2) if quick else (3, 3)
    if ctx.only in (None, 'mc'):
        cfg = ('SPECIFICATION Spec\n' f'CONSTANTS NGenes = {ng} MaxMin = {mm} Deep = TRUE\n' +
               ''.join(f'INVARIANT {i}\n' for i in ('OnlyQueryGenes', 'OwnKept', 'EnoughOwnMeansOnlyOwn',
                                                    'AddedFromAncestors', 'RootUsableAllUsable',
                                                    'MinReached')) + 'CHECK_DEADLOCK FALSE\n')
        res = run_tlc('MarkerTable_MC', cfg_text=cfg, timeout=7200)
        ctx.add_tlc('MarkerTable_MC', res)
        if not res.ok:
            raise MachineryError('MarkerTable_MC violated:\n' + res.error_trace)
    wd = ctx.tmpdir('c08_')
    if ctx.only in (None, 's2c'):
        scns = []
        for deep in ('FALSE', 'TRUE'):
            cfg = (f'SPECIFICATION GenSpec\nCONSTANTS NGenes = 2 MaxMin = 2 Deep = {deep}\n'
                   'CHECK_DEADLOCK FALSE\n')
            res = run_tlc('MarkerTable_MC', cfg_text=cfg, workers=1, timeout=3600)
            ctx.add_tlc(f'MarkerTable_MC_gen_{deep}', res)
            part = [json.loads(t[1]) for t in res.tuples('SCN')]
            for x in part:
                x['deep'] = deep == 'TRUE'
            scns += part
        def interesting(x):
            # fallback happens at a non-root parent that has at least two proper ancestors
            own = {tuple(e['key']): set(e['genes']) for e in x['table']}
            for e in x['rec']:
                k = tuple(e['key'])
                if k[0] >= 3 and len(own.get(k, set()) & set(x['QG'])) < x['minm']:
                    return True
            return False
        scns = [x for x in scns if not x['flat']]
        if quick:
            hot = [x for x in scns if x['deep'] and x['drop'] == 0 and interesting(x)]
            rest = [x for x in scns if not (x['deep'] and x['drop'] == 0 and interesting(x))]
            scns = rng.sample(hot, min(len(hot), 1500)) + rng.sample(rest, 1500)
        else:
            ctx.cov['exhaustive'] = True
        bad = 0
        import concurrent.futures as cf
        jobs = [(x, sch, str(wd)) for x in scns for sch in ('structural', 'reversed', 'shared')]
        with cf.ProcessPoolExecutor(max_workers=12) as ex:
            outs = list(ex.map(_s2c_one, jobs, chunksize=200))
        for (x, scheme, _), (kind, msg, o) in zip(jobs, outs):
            if scheme == 'structural':
                ctx.count({'s': x}, nontrivial=len(x['table']) > 1)
            else:
                ctx.cov['evaluations'] += 1
            if kind == 'ok':
                continue
            if kind in ('cache:unknown-marker-dropped-by-patch', 'map:irrelevant-key-no-overlap'):
                ctx.report(kind, msg, {'scenario': x, 'scheme': scheme})
            else:
                bad += 1
                ctx.report(kind, msg, {'scenario': x, 'scheme': scheme})
        if scns:
            ctx.sample({'kind': 'emitted', 'scenario': scns[0]})
        ctx.part('s2c', scenarios=len(scns), disagreements=bad)
    if ctx.only in (None, 'c2s'):
        n = 400 if quick else 6000
        recs = []

        def chain_case(i):
            """two nested choice parents that are both short of the minimum, the deeper one satisfied by its
            parent's LISTED markers alone; plus listed (query-present) genes at single-child parents"""
            for _ in range(300):
                tj = maptrace.random_tree(rng, 4, 7, 3)
                hier = tj['hier']
                if len(hier) < 3:
                    continue
                kid = [dict((a, b) for a, b in tj['kids'][k]) for k in range(len(hier) - 1)]
                found = None
                for k in range(len(hier) - 2):
                    for a, cs in kid[k].items():
                        if len(cs) < 2:
                            continue
                        for b in cs:
                            if len(kid[k + 1][b]) >= 2:
                                found = ([hier[k], a], [hier[k + 1], b])
                if found:
                    break
            else:
                return None
            A, Bn = found
            G = 8
            minm = rng.randint(2, 3)
            genes = list(range(1, G + 1))
            rng.shuffle(genes)
            kb = rng.randint(0, minm - 1)
            ka = rng.randint(minm - kb, minm - 1) if minm - kb <= minm - 1 else minm - 1
            own_b, own_a, rest = genes[:kb], genes[kb:kb + ka], genes[kb + ka:]
            table = [[[0, 0], rest[:rng.randint(minm, len(rest))]], [A, own_a], [Bn, own_b]]
            # listed, query-present genes at single-child parents: used nowhere, reported nowhere
            for p in maptrace.all_parents(tj)[1:]:
                kids = dict((a, b) for a, b in tj['kids'][tj['hier'].index(p[0])])[p[1]]
                if len(kids) == 1 and rng.random() < 0.7:
                    table.append([p, rng.sample(genes, 2)])
            qg = list(genes)
            rng.shuffle(qg)
            return tj, G, table, qg, minm

        def chain3_case(i):
            """a choice parent with two ancestors below the root, whose own list names genes the query lacks: its own
            usable genes plus the nearest ancestor's are short of the minimum (although the LISTED ones would reach it),
            the second ancestor's complete it; the root's list is different and not needed"""
            for _ in range(300):
                tj = maptrace.random_tree(rng, 5, 8, 4)
                hier = tj['hier']
                if len(hier) < 4:
                    continue
                kid = [dict((a, b) for a, b in tj['kids'][k]) for k in range(len(hier) - 1)]
                par = [dict((c, a) for a, cs in kid[k].items() for c in cs) for k in range(len(hier) - 1)]
                cands = [(k, b) for k in range(2, len(hier) - 1) for b, cs in kid[k].items() if len(cs) >= 2]
                if cands:
                    break
            else:
                return None
            k, b = rng.choice(cands)
            a1 = par[k - 1][b]
            a2 = par[k - 2][a1]
            G = 10
            minm = rng.randint(2, 3)
            genes = list(range(1, G + 1))
            rng.shuffle(genes)
            u = rng.randint(0, minm - 2)
            k1 = minm - 1 - u
            ab = rng.randint(1, 2)
            own = genes[:u + ab]
            absent = own[u:]
            l1 = genes[u + ab:u + ab + k1]
            l2 = genes[u + ab + k1:u + ab + k1 + rng.randint(1, 2)]
            rest = genes[u + ab + k1 + len(l2):]
            table = [[[0, 0], rest[:max(minm, 2)]], [[hier[k - 2], a2], l2], [[hier[k - 1], a1], l1], [[hier[k], b], own]]
            qg = [g for g in genes if g not in absent]
            rng.shuffle(qg)
            return tj, G, table, qg, minm

        def dup_case(i):
            """a choice parent whose list repeats a gene: entries present in the query reach the minimum, distinct
            genes do not, so the ancestors' lists are needed"""
            for _ in range(200):
                tj = maptrace.random_tree(rng, 3, 6, 3)
                if len(tj['hier']) < 2:
                    continue
                cands = [p for p in maptrace.all_parents(tj)[1:]
                         if len(dict((a, b) for a, b in tj['kids'][tj['hier'].index(p[0])])[p[1]]) >= 2]
                if cands:
                    break
            else:
                return None
            p = rng.choice(cands)
            G = 8
            genes = list(range(1, G + 1))
            rng.shuffle(genes)
            minm = rng.randint(2, 3)
            own = [genes[0]] * minm if minm == 2 else [genes[0], genes[0], genes[1]]
            table = [[[0, 0], genes[3:6]], [p, own]]
            qg = list(genes)
            rng.shuffle(qg)
            return tj, G, table, qg, minm

        for i in range(n):
            chain = chain_case(i) if i % 4 == 0 else dup_case(i) if i % 4 == 2 else chain3_case(i) if i % 8 == 1 else None
            if chain is not None:
                tj, G, table, qg, minm = chain
                scheme = ['reversed', 'structural', 'shared', 'reversed'][(i // 4) % 4]
                rg = list(range(1, G + 1))
                o = observe(tj, 0, table, qg, rg, minm, scheme, wd)
                recs.append({'tree': tj, 'drop': 0, 'flat': False, 'table': table, 'qg': qg, 'rg': rg,
                             'minm': minm, 'outcome': o['outcome'], 'genes': o['genes'],
                             'paired': o['paired'], 'error': o['error'], 'events': [0]})
                continue
            tj = maptrace.random_tree(rng, 5 if i % 2 else 4, 7, 2)
            G = rng.randint(3, 6)
            pars = maptrace.all_parents(tj)
            table = []
            for p in pars:
                r = rng.random()
                if p == [0, 0]:
                    if r < 0.92:
                        table.append([p, rng.sample(range(1, G + 2), rng.randint(0 if r < 0.05 else 1, G))])
                    continue
                kids = dict((a, b) for a, b in tj['kids'][tj['hier'].index(p[0])])[p[1]]
                if len(kids) < 2:
                    continue
                if r < 0.7:
                    genes = rng.sample(range(1, G + 2), rng.randint(0, G))
                    if rng.random() < 0.2 and genes:
                        genes = genes + [genes[0]]          # duplicated entry
                    table.append([p, genes])
            # query: shuffled subset of 1..G+1 (gene G+1 is unknown to the reference but in the
            # query whenever it is listed, see finding F12)
            qg = rng.sample(range(1, G + 1), rng.randint(1, G)) + [G + 1, G + 2]
            rng.shuffle(qg)
            drop = rng.choice(tj['hier'][:-1]) if len(tj['hier']) > 1 and rng.random() < 0.25 else 0
            if drop:
                # keys of parents at the dropped level would be irrelevant keys (finding F4)
                table = [t for t in table if t[0][0] != drop]
            # 0 = no minimum; only on trees whose root is a choice (a single top node cannot be mapped: F10, and the
            # statement is ambiguous there: MarkerTable!MayFail)
            minm = rng.randint(0, 4) if len(tj['nodes'][0]) > 1 else rng.randint(1, 4)
            scheme = ['structural', 'reversed', 'shared'][i % 3]
            rg = list(range(1, G + 1))
            o = observe(tj, drop, table, qg, rg, minm, scheme, wd)
            recs.append({'tree': tj, 'drop': drop, 'flat': False, 'table': table, 'qg': qg, 'rg': rg,
                         'minm': minm, 'outcome': o['outcome'], 'genes': o['genes'],
                         'paired': o['paired'], 'error': o['error'], 'events': [0]})
        vs = validate(ctx, 'MarkerTable_Trace', recs, 'MarkerTable_Trace')
        rej = 0
        for r, v in zip(recs, vs):
            ctx.count({'r': {k: r[k] for k in ('tree', 'table', 'qg', 'minm', 'drop')}},
                      nontrivial=len(r['table']) > 1)
            if not v['accepted']:
                rej += 1
                ctx.report(f'clause:{v["inv"]}', f'observation rejected by MarkerTable_Trace clause '
                           f'{v["inv"]}: {json.dumps(r)[:700]}', {'record': r})
        ctx.sample({'kind': 'observation', 'record': recs[0]})
        ctx.part('c2s_direct', observations=len(recs), rejected=rej,
                 errors_observed=sum(1 for r in recs if r['outcome'] == 'error'))
        # self-test: corrupt observed gene sets -> rejected
        st = []
        for r, v0 in zip(recs, vs):
            if not v0['accepted']:
                continue                     # the binding self-test corrupts observations the spec accepted
            if r['outcome'] == 'ok' and any(g for _, g in r['genes']):
                r2 = json.loads(json.dumps(r))
                tj_ = r['tree']
                choice = {(0, 0)} if len(tj_['nodes'][0]) > 1 else set()
                for k_, lev in enumerate(tj_['hier'][:-1]):
                    for n_, kids_ in tj_['kids'][k_]:
                        if len(kids_) > 1:
                            choice.add((lev, n_))
                hit = False
                for e in r2['genes']:
                    if e[1] and tuple(e[0]) in choice and (r['drop'] == 0 or e[0][0] != r['drop']):
                        e[1] = e[1][:-1]
                        hit = True
                        break
                if hit and r['drop'] == 0:
                    st.append(r2)
            if len(st) >= 30:
                break
        if st:
            vs = validate(ctx, 'MarkerTable_Trace', st, 'selftest', counts_as_impl=False)
            acc = sum(1 for v in vs if v['accepted'])
            ctx.cov['selftest'] = {'corrupted': len(st), 'rejected': len(st) - acc}
            if acc:
                raise MachineryError(f'self-test: {acc} corrupted observations accepted')
    if ctx.only in (None, 'runs'):
        n = 60 if quick else 600
        scns = []
        for i in range(n):
            s = maptrace.gen_scenario(rng, max_levels=3, max_leaves=6, min_leaves=2, ncell=rng.randint(1, 5))
            s['cfg']['minm'] = rng.randint(1, 4)
            s['cfg']['B'] = rng.randint(1, 3)
            G = s['G']
            r = rng.random()
            if r < 0.10:
                s['markers'].pop('0/0')                          # no root list
            elif r < 0.18:
                s['markers']['0/0'] = []                         # empty root list
            elif r < 0.26:
                s['markers']['0/0'] = [g for g in range(1, G + 1) if g not in s['qgenes']] or []
            elif r < 0.36:
                # marker unknown to the reference (present in the query), in a consulted list
                unk = G + 1
                if unk not in s['qgenes']:
                    s['qgenes'].append(unk)
                    for row in s['Q']:
                        row.append(rng.randint(0, 4))
                s['markers']['0/0'] = s['markers'].get('0/0', []) + [unk]
            elif r < 0.46:
                k = rng.choice(list(s['markers']))
                if s['markers'][k]:
                    s['markers'][k] = s['markers'][k] + [s['markers'][k][0]]   # duplicate
            if i % 6 in (1, 3):
                # a level of a >= 3-level taxonomy is dropped while the marker table still lists its nodes:
                # (1) with flatten, the root pools EVERY list of the table, those of the dropped nodes included;
                # (3) without, a parent below the dropped level that is short of markers is topped up from its ancestors
                #     in the reduced taxonomy, never from the dropped node
                for _ in range(100):
                    t = maptrace.random_tree(rng, 4, 6, 3)
                    if len(t['hier']) >= 3 and len(t['nodes'][0]) > 1:
                        break
                else:
                    t = None
                if t is not None:
                    s = maptrace.gen_scenario(rng, tree=t, ncell=rng.randint(1, 4), G=6)
                    s['qgenes'] = rng.sample(range(1, 7), 6)
                    s['Q'] = [[rng.randint(0, 4) for _ in range(6)] for _ in s['cells']]
                    hier_ = t['hier']
                    lev = rng.choice(hier_[:-1] if i % 6 == 1 else hier_[:-2])
                    il = hier_.index(lev)
                    genes = rng.sample(range(1, 7), 6)
                    s['markers'] = {'0/0': sorted(genes[:2])}
                    for n_, ks_ in t['kids'][il]:
                        s['markers'][f'{lev}/{n_}'] = sorted(genes[2:4])
                    for j_ in range(il + 1, len(hier_) - 1):
                        for n_, ks_ in t['kids'][j_]:
                            if len(ks_) > 1:
                                s['markers'][f'{hier_[j_]}/{n_}'] = [genes[4]]
                    s['cfg'].update(drop=lev, flatten=(i % 6 == 1), minm=rng.randint(2, 3), B=rng.randint(1, 3))
            scns.append(s)
        rs = campaign(ctx, scns, 'MapRun_Trace_c08')
        nviol, blocked = report_for(ctx, rs, PID)
        for r in rs:
            ctx.count(r['scn'], nontrivial=True)
        ctx.part('runs', total=len(rs), failed_runs=sum(1 for r in rs if not r['ok']),
                 blocked_by_other_property=blocked,
                 accepted=sum(1 for r in rs if r['verdict']['accepted']))


def replay(ctx, path):
    import pathlib
    case = json.load(open(pathlib.Path(path) / 'replay.json'))['case']
    if 'scn' in case:
        from harness.checks.c01 import replay as rp
        return rp(ctx, path)
    wd = ctx.tmpdir('c08_')
    if 'record' in case:
        r = case['record']
        o = observe(r['tree'], r['drop'], r['table'], r['qg'], r['rg'], r['minm'], 'structural', wd)
        r.update(outcome=o['outcome'], genes=o['genes'], paired=o['paired'])
        v = validate(ctx, 'MarkerTable_Trace', [r], 'replay')[0]
        if not v['accepted']:
            ctx.report(f'clause:{v["inv"]}', f'rejected {v}', case)
    ctx.count(case)
