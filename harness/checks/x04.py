"""X04 (extension suite, not one of the 20 listed statements) - the FileTracker that stages the
query and statistics files of a mapping run in scratch space.

1. MC   : FileTracker.tla, two paths x {file, directory, free, orphan} x every sequence of <= 3 operations
          (add as input / output, write through the handed-out location, release), with and without a
          scratch directory: nothing outside scratch changes while the tracker is alive, a file that existed
          when it was added is never overwritten, new outputs are delivered at release with what was last
          written, the scratch directory is gone after release, only requested outputs are created.
2. S->C : every released history of the model is replayed into the real class on a real file system
          (gc-driven release) and FileTracker_Trace compares, after every call, the outcome, what exists at
          the user's paths and with which content, the working copies, and the scratch directory.
"""
import concurrent.futures as cf
import copy
import gc
import json
import os
import pathlib
import random
import shutil
import tempfile
import traceback

from harness.tlc import run_tlc, MachineryError
from harness.traces import validate

PID = 'X04'
CL = {2401: 'outcome of the call differs (accepted / refused for which reason)',
      2402: 'what exists at the user\'s paths differs', 2403: 'content at the user\'s paths differs',
      2404: 'scratch directory present / gone differs', 2405: 'content of a working copy differs',
      0: 'call not possible in the model at this point'}


def _obs(paths, d, tracker, tracked, use):
    kind, data, tmp = {}, {}, {}
    for k, p in paths.items():
        if p.is_file():
            kind[k] = 'file'
            t = p.read_text()
            data[k] = int(t) if t.strip() else -1
        elif p.is_dir():
            kind[k], data[k] = 'dir', 0
        else:
            kind[k], data[k] = ('free' if p.parent.is_dir() else 'orphan'), 0
    for k in paths:
        tmp[k] = 0
    if tracker is not None:
        for k in tracked:
            lp = tracker.real_location(paths[k])
            if lp.is_file():
                t = lp.read_text()
                tmp[k] = int(t) if t.strip() else -1
            else:
                tmp[k] = -1
    scratch = use and any(x.startswith('file_tracker_') for x in os.listdir(d / 'scratch'))
    return kind, data, tmp, scratch


def _case(args):
    scn, wd = args
    from cell_type_mapper.file_tracker.file_tracker import FileTracker
    d = pathlib.Path(tempfile.mkdtemp(dir=wd))
    try:
        (d / 'scratch').mkdir()
        (d / 'user').mkdir()
        init = scn['init']
        paths = {}
        for k, kd in init.items():
            p = d / 'user' / (f'{k}.txt' if kd != 'orphan' else f'nodir_{k}/{k}.txt')
            paths[k] = p
            if kd == 'file':
                p.write_text('1')
            elif kd == 'dir':
                p.mkdir()
        tracker = FileTracker(tmp_dir=str(d / 'scratch') if scn['use'] else None)
        tracked = []
        events = []
        for op in scn['ops']:
            outcome = 'ok'
            if op['op'] == 'add':
                try:
                    tracker.add_file(paths[op['p']], input_only=bool(op['io']))
                    if op['p'] not in tracked:
                        tracked.append(op['p'])
                except RuntimeError as e:
                    m = str(e)
                    outcome = ('not_a_file' if 'exists but is not a file' in m else
                               'missing' if 'is not a file' in m else
                               'no_parent' if 'will not be able to write' in m else 'other: ' + m[:80])
            elif op['op'] == 'write':
                tracker.real_location(paths[op['p']]).write_text(str(op['v']))
                outcome = 'written'
            else:
                del tracker
                gc.collect()
                tracker = None
                outcome = 'released'
            kind, data, tmp, scratch = _obs(paths, d, tracker, tracked, scn['use'])
            events.append({'op': op['op'], 'p': op['p'] or 'a', 'io': bool(op['io']), 'v': op['v'], 'outcome': outcome,
                           'kind': kind, 'data': data, 'tmp': tmp, 'scratch': bool(scratch)})
        return {'init': init, 'events': events}, None
    except Exception:
        return None, traceback.format_exc()
    finally:
        shutil.rmtree(d, ignore_errors=True)


def run(ctx):
    quick = ctx.tier == 'quick'
    rng = random.Random(ctx.seed + 104)
    ctx.cov['rule'] = ('one case = one released history of FileTracker.tla (<= 3 operations over two paths of every '
                       'kind) replayed into the real class; non-trivial = the history adds a path; distinct by '
                       'canonical JSON.')
    ctx.cov['trusted_base'] = ['TLC 1.8', 'CPython reference counting + gc.collect() for the release']
    total = {}
    for use in ('TRUE', 'FALSE'):
        cfg = open(os.path.join(os.path.dirname(__file__), '..', '..', 'spec', f'FileTracker_MC_{use}.cfg')).read()
        cfg = cfg.replace('MaxOps = 3', 'MaxOps = 4' if not quick else 'MaxOps = 3') + 'CONSTRAINT Emit\n'
        res = run_tlc('FileTracker_MC', cfg_text=cfg, workers=1, timeout=3600)
        ctx.add_tlc(f'FileTracker_MC_{use}', res)
        if not res.ok:
            raise MachineryError(res.error_trace or res.stdout[-1500:])
        scns = [json.loads(t[1]) for t in res.tuples('SCN')]
        scns = list({json.dumps(s, sort_keys=True): s for s in scns}.values())
        if quick:
            scns = rng.sample(scns, min(len(scns), 400))
        wd = str(ctx.tmpdir('x04_'))
        with cf.ProcessPoolExecutor(max_workers=8) as ex:
            outs = list(ex.map(_case, [(s, wd) for s in scns], chunksize=16))
        recs = []
        for s, (rec, err) in zip(scns, outs):
            if rec is None:
                raise MachineryError(err)
            ctx.count({'s': s}, nontrivial=any(o['op'] == 'add' for o in s['ops']))
            recs.append(rec)
        vs = validate(ctx, 'FileTracker_Trace', recs, f'FileTracker_Trace_{use}', cfg=f'FileTracker_Trace_{use}.cfg')
        rej = 0
        for s, rec, v in zip(scns, recs, vs):
            if not v['accepted']:
                rej += 1
                ev = rec['events'][v['reached'] - 1] if v['reached'] - 1 < len(rec['events']) else None
                ctx.report(f'clause:{v["inv"]}', f'{CL.get(v["inv"], v["inv"])} - scratch={use} init={rec["init"]} '
                           f'ops={[(o["op"], o["p"], o["io"]) for o in s["ops"]]} at call {v["reached"]}: {ev}',
                           {'scenario': s})
        total[use] = {'histories': len(scns), 'rejected': rej}
        if use == 'TRUE' and recs:
            ctx.sample({'scenario': scns[0], 'observed': recs[0]['events'][:2]})
            st = []
            for r in recs[:40]:
                r2 = copy.deepcopy(r)
                r2['events'][-1]['scratch'] = not r2['events'][-1]['scratch']
                st.append(r2)
            sv = validate(ctx, 'FileTracker_Trace', st, 'selftest', cfg='FileTracker_Trace_TRUE.cfg', counts_as_impl=False)
            acc = sum(1 for v in sv if v['accepted'])
            ctx.cov['selftest'] = {'corrupted': len(st), 'rejected': len(st) - acc}
            if acc:
                raise MachineryError('self-test: corrupted tracker traces accepted')
    ctx.part('s2c', **{f'scratch_{k}': v for k, v in total.items()})
    if not quick:
        ctx.cov['exhaustive'] = True


def replay(ctx, path):
    case = json.load(open(pathlib.Path(path) / 'replay.json'))['case']['scenario']
    wd = str(ctx.tmpdir('x04_'))
    rec, err = _case((case, wd))
    if rec is None:
        raise MachineryError(err)
    use = 'TRUE' if case['use'] else 'FALSE'
    v = validate(ctx, 'FileTracker_Trace', [rec], 'replay', cfg=f'FileTracker_Trace_{use}.cfg')[0]
    if not v['accepted']:
        ctx.report(f'clause:{v["inv"]}', CL.get(v['inv']), {'scenario': case})
    ctx.count(case)
