"""X02 (extension suite, not one of the 20 listed statements) - flat correlation mapping
(corr/correlate_cells.py).

1. MC   : FlatMap_MC - the gene matching rule over every (reference genes, query genes, optional marker
          list) on a 3-gene universe: the call succeeds iff a gene is left to correlate on, genes used are
          known to both files and listed, a marker list only removes genes.
2. S->C : each of those cases is materialised (statistics file + query h5ad with random integer profiles,
          gene columns in shuffled order) and given to corrmap_cells and correlate_cells; FlatMap_Trace
          decides: fails exactly when / for the reason the rule says; one record per query cell (as a set:
          the records come back in completion order); every assignment is a nearest cluster in the exact
          integer Pearson order of Election.tla on exactly the used genes; the matrix has one row per cell
          in query order, columns following the statistics file's own cluster table, and its row maxima
          are exactly the nearest clusters.
3. C->S : random larger cases (<= 8 genes, <= 6 clusters, <= 20 cells, chunk sizes, 1-3 workers, three
          encodings).  Reported confidences and matrix entries are a numeric leaf (1e-9 against a float64
          Pearson recomputation on the used genes).
"""
import concurrent.futures as cf
import copy
import json
import os
import pathlib
import random
import shutil
import tempfile
import traceback
import warnings

import h5py
import numpy as np

from harness import build, maptrace
from harness.tlc import run_tlc, MachineryError
from harness.traces import validate

PID = 'X02'
CL = {2201: 'the call failed / succeeded against the gene matching rule', 2208: 'the call failed for another reason',
      2202: 'records are not exactly one per query cell', 2203: 'assignment is not a nearest cluster on the used genes',
      2204: 'row maxima of the correlation matrix are not the nearest clusters',
      2205: 'matrix columns do not follow the cluster table of the statistics file',
      2206: 'matrix has a wrong number of rows', 2207: 'matrix rows are not in query order',
      2210: 'confidence / matrix entry differs from the float64 recomputation', 2211: 'scratch left behind'}


def gen_case(rng, sc=None, big=False):
    if sc is None:
        ng = rng.randint(2, 8)
        universe = [f'g{i}' for i in range(1, ng + 3)]
        ref = rng.sample(universe, rng.randint(1, ng))
        q = rng.sample(universe, rng.randint(1, ng))
        has = rng.random() < 0.5
        markers = rng.sample(universe, rng.randint(1, len(universe))) if has else []
    else:
        ref, q, has, markers = list(sc['ref']), list(sc['q']), sc['has'], list(sc['markers'])
        rng.shuffle(ref)
        rng.shuffle(q)
    ncl = rng.randint(2, 6 if big else 4)
    names = rng.sample(['k10', 'k9', 'K1', 'b', 'A', 'k2', 'zz'], ncl)
    M = [[c, [rng.randint(0, 3) for _ in ref]] for c in names]
    ncell = rng.randint(1, 20 if big else 6)
    cells = [[f'c{i}', [rng.randint(0, 3) for _ in q]] for i in rng.sample(range(100), ncell)]
    return {'ref': ref, 'q': q, 'has': has, 'markers': markers, 'M': M, 'cells': cells,
            'ncells': [rng.randint(1, 3) for _ in names], 'R': rng.randint(1, 8), 'P': rng.randint(1, 3),
            'enc': rng.choice(['dense', 'csr', 'csc']), 'c2r': rng.sample(range(ncl), ncl)}


def _kind(msg):
    if 'No marker genes appeared in query' in msg:
        return 'no_marker_in_query'
    if 'No marker genes in reference' in msg:
        return 'no_marker_in_reference'
    if 'no gene overlaps' in msg:
        return 'no_overlap'
    return 'other: ' + msg[:120]


def _case(args):
    case, wd = args
    from cell_type_mapper.corr.correlate_cells import corrmap_cells, correlate_cells
    d = pathlib.Path(tempfile.mkdtemp(dir=wd))
    recs, issues = [], []
    try:
        (d / 'scratch').mkdir()
        ncl = len(case['M'])
        S = np.zeros((ncl, len(case['ref'])))
        c2r = {}
        for (name, vec), n, row in zip(case['M'], case['ncells'], case['c2r']):
            S[row] = np.array(vec, dtype=float) * n
            c2r[name] = row
        nvec = np.zeros(ncl, dtype=int)
        for (name, _), n in zip(case['M'], case['ncells']):
            nvec[c2r[name]] = n
        with h5py.File(d / 'stats.h5', 'w') as f:
            f.create_dataset('metadata', data=json.dumps({}).encode())
            f.create_dataset('cluster_to_row', data=json.dumps(c2r).encode())
            f.create_dataset('col_names', data=json.dumps(case['ref']).encode())
            f.create_dataset('n_cells', data=nvec)
            f.create_dataset('sum', data=S)
        Q = np.array([v for _, v in case['cells']], dtype=float).reshape((len(case['cells']), len(case['q'])))
        enc = case['enc']
        if enc == 'csc' and not Q.any():
            enc = 'csr'
        build.write_h5ad(d / 'q.h5ad', Q, [c for c, _ in case['cells']], case['q'], enc)
        ml = case['markers'] if case['has'] else None
        base = {'ref': case['ref'], 'q': case['q'], 'has': case['has'], 'markers': case['markers'],
                'M': case['M'], 'cells': case['cells'], 'events': [0]}
        used = sorted(set(case['ref']) & set(case['q']) & (set(ml) if ml is not None else set(case['ref'])))

        def pearson_used(qv, mv):
            a = [qv[case['q'].index(g)] for g in used]
            b = [mv[case['ref'].index(g)] for g in used]
            return maptrace.pearson(a, b)
        # ---------------------------------------------------------------- corrmap_cells
        rec = dict(base, mode='corrmap', recs=[], rows=[], cols_ok=True, kind='')
        try:
            with warnings.catch_warnings(), build.redirect_fds(str(d / 'stdio.txt')):
                warnings.simplefilter('ignore')
                out = corrmap_cells(str(d / 'q.h5ad'), str(d / 'stats.h5'), marker_gene_list=ml,
                                    rows_at_a_time=case['R'], n_processors=case['P'], tmp_dir=str(d / 'scratch'),
                                    query_normalization='log2CPM', max_gb=1)
            rec['ok'] = True
            rec['recs'] = [[o['cell_id'], o['cluster']['assignment']] for o in out]
            cv = dict((c, v) for c, v in case['cells'])
            mv = dict((c, v) for c, v in case['M'])
            for o in out:
                if o['cell_id'] in cv and o['cluster']['assignment'] in mv:
                    want = pearson_used(cv[o['cell_id']], mv[o['cluster']['assignment']])
                    if abs(float(o['cluster']['confidence']) - want) > 1e-9:
                        issues.append((2210, f'confidence of {o["cell_id"]}: {o["cluster"]["confidence"]} vs {want}'))
        except RuntimeError as e:
            rec['ok'] = False
            rec['kind'] = _kind(str(e))
        recs.append(rec)
        # ---------------------------------------------------------------- correlate_cells
        rec = dict(base, mode='matrix', recs=[], rows=[], cols_ok=True, kind='')
        try:
            with warnings.catch_warnings(), build.redirect_fds(str(d / 'stdio.txt')):
                warnings.simplefilter('ignore')
                correlate_cells(str(d / 'q.h5ad'), str(d / 'stats.h5'), str(d / 'corr.h5'), marker_gene_list=ml,
                                rows_at_a_time=case['R'], n_processors=case['P'], tmp_dir=str(d / 'scratch'))
            rec['ok'] = True
            with h5py.File(d / 'corr.h5', 'r') as f:
                C = f['correlation'][()]
                c2c = json.loads(f['cluster_to_col'][()].decode())
            rec['cols_ok'] = c2c == c2r and C.shape[1] == ncl
            col2name = {v: k for k, v in c2c.items()}
            for i in range(C.shape[0]):
                row = C[i]
                top = [col2name.get(j, f'?{j}') for j in range(len(row)) if row[j] >= row.max() - 1e-9]
                rec['rows'].append({'id': case['cells'][i][0] if i < len(case['cells']) else '?', 'top': top})
                if i < len(case['cells']):
                    for (name, vec) in case['M']:
                        want = pearson_used(case['cells'][i][1], vec)
                        if name in c2c and abs(row[c2c[name]] - want) > 1e-9:
                            issues.append((2210, f'matrix[{i}, {name}] = {row[c2c[name]]} vs {want}'))
        except RuntimeError as e:
            rec['ok'] = False
            rec['kind'] = _kind(str(e))
        recs.append(rec)
        import gc
        gc.collect()
        left = os.listdir(d / "scratch")
        if left:
            issues.append((2211, f'{left}'))
    except Exception:
        return None, [(-1, traceback.format_exc())]
    finally:
        shutil.rmtree(d, ignore_errors=True)
    return recs, issues[:3]


def run(ctx):
    quick = ctx.tier == 'quick'
    rng = random.Random(ctx.seed + 102)
    ctx.cov['rule'] = ('one case = (reference genes, query genes, marker list) x random integer profiles x cells x '
                       'chunking x workers, given to corrmap_cells and correlate_cells; non-trivial = the call '
                       'succeeds with at least two used genes; distinct by canonical JSON of the case.')
    ctx.cov['trusted_base'] = ['TLC 1.8', 'float64 Pearson recomputation for the numeric leaf']
    res = run_tlc('FlatMap_MC', cfg='FlatMap_MC.cfg', workers=1, timeout=1800)
    ctx.add_tlc('FlatMap_MC', res)
    if not res.ok:
        raise MachineryError(res.error_trace or res.stdout[-1500:])
    scs = [json.loads(t[1]) for t in res.tuples('SCN')]
    if quick:
        scs = rng.sample(scs, 120)
    cases = [gen_case(rng, sc) for sc in scs] + [gen_case(rng, big=True) for _ in range(60 if quick else 600)]
    wd = str(ctx.tmpdir('x02_'))
    with cf.ProcessPoolExecutor(max_workers=8) as ex:
        outs = list(ex.map(_case, [(c, wd) for c in cases], chunksize=2))
    allrecs, owners = [], []
    for case, (recs, issues) in zip(cases, outs):
        if recs is None:
            raise MachineryError(issues[0][1])
        used = set(case['ref']) & set(case['q']) & (set(case['markers']) if case['has'] else set(case['ref']))
        ctx.count({'case': case}, nontrivial=len(used) >= 2)
        for code, msg in issues:
            ctx.report(f'clause:{code}', f'{CL.get(code, code)}: {msg}', {'case': case})
        for r in recs:
            allrecs.append(r)
            owners.append(case)
    vs = validate(ctx, 'FlatMap_Trace', allrecs, 'FlatMap_Trace')
    rej = 0
    for case, rec, v in zip(owners, allrecs, vs):
        if not v['accepted']:
            rej += 1
            ctx.report(f'clause:{v["inv"]}', f'{CL.get(v["inv"], v["inv"])} - {rec["mode"]} ok={rec["ok"]} '
                       f'kind={rec["kind"]} recs={rec["recs"][:4]} rows={rec["rows"][:3]}', {'case': case})
    ctx.sample({'case': cases[0], 'observed': {k: allrecs[0][k] for k in ('ok', 'kind', 'recs')}})
    ctx.part('runs', cases=len(cases), calls=len(allrecs), rejected=rej,
             failing_calls=sum(1 for r in allrecs if not r['ok']))
    st = []
    for r in allrecs:
        if r['ok'] and r['mode'] == 'corrmap' and len(r['recs']) > 0 and len(st) < 20:
            r2 = copy.deepcopy(r)
            r2['recs'] = r2['recs'][1:]
            st.append(r2)
    if st:
        sv = validate(ctx, 'FlatMap_Trace', st, 'selftest', counts_as_impl=False)
        acc = sum(1 for v in sv if v['accepted'])
        ctx.cov['selftest'] = {'corrupted': len(st), 'rejected': len(st) - acc}
        if acc:
            raise MachineryError('self-test: a dropped record was accepted')


def replay(ctx, path):
    case = json.load(open(pathlib.Path(path) / 'replay.json'))['case']['case']
    wd = str(ctx.tmpdir('x02_'))
    recs, issues = _case((case, wd))
    if recs is None:
        raise MachineryError(issues[0][1])
    for code, msg in issues:
        ctx.report(f'clause:{code}', msg, {'case': case})
    for rec, v in zip(recs, validate(ctx, 'FlatMap_Trace', recs, 'replay')):
        if not v['accepted']:
            ctx.report(f'clause:{v["inv"]}', CL.get(v['inv']), {'case': case})
    ctx.count(case)
