"""C11 - reference markers are sound and complete for the stated criteria.

1. MC   : RefMarkers_MC - the restricted Holm correction of the code decides "corrected p < threshold"
          exactly like the full step-down procedure for every p-value vector on a grid; Holm is
          monotone in every component (justifies the interval atoms).
2. C->S : random reference statistics (integer log2(CPM+1) cells, cluster sizes from 1, zero-variance
          genes, ties, genes exactly on a threshold) are given to the real stage - direct route and
          p-value-mask route - with random rational thresholds (strict above floor), gene lists,
          exact / approximate penetrance, 1-3 workers and several memory budgets; every (pair, gene)
          decision of the written file is validated by RefMarkers_Trace: soundness (cells >= 2, floors,
          corrected p, gene list, exact mode), completeness (strict genes present), direction,
          no gene both up and down; pair-major vs gene-major tables; pair-swap symmetry; independence
          of worker count and memory budget.
   Raw Welch p-values enter as interval atoms computed with scipy.stats.ttest_ind_from_stats (a
   code path the package does not use); a decision whose interval straddles the threshold, or whose
   statistic is undefined (zero variance in both clusters), is not asserted.
"""
import concurrent.futures as cf
import json
import os
import pathlib
import random
import shutil
import tempfile
import warnings

import h5py
import numpy as np
import scipy.stats

from harness import build, stages
from harness.stagejob import h5_digest
from harness.tlc import run_tlc, MachineryError
from harness.traces import validate

PID = 'C11'
UNIT = 10 ** 7
CL = {1101: 'a gene is recorded both up and down for a pair', 1102: 'markers recorded for a pair with a cluster of fewer than two cells',
      1103: 'marker outside the requested gene list', 1104: 'marker below a minimum penetrance / fold-change floor',
      1105: 'marker whose Holm-corrected Welch p-value is not below the threshold',
      1106: 'exact penetrance requested but a marker does not pass the strict thresholds',
      1116: 'exact penetrance requested but a marker has its penetrance exactly on (not above) the strict threshold',
      1107: 'up marker whose mean difference has the other sign', 1108: 'down marker whose mean difference has the other sign',
      1109: 'a gene passing the strict thresholds is not recorded', 1110: 'pair-major and gene-major tables are not transposes',
      1111: 'swapping the order of a pair changes more than the direction',
      1112: 'output depends on worker count / memory budget', 1113: 'stage raised', 1199: 'unknown observation'}

FR = {'q1': [(1, 2), (3, 5)], 'q1min': [(1, 10), (1, 4)], 'qdiff': [(7, 10), (1, 2)], 'qdiffmin': [(1, 10), (1, 5)],
      'fold': [(1, 1), (2, 1)], 'foldmin': [(4, 5), (1, 2)]}


def gen_reference(rng, wide=False):
    ncl = rng.randint(2, 5)
    ng = rng.randint(3, 9)
    if wide:
        # 12-14 well separated clusters of 5-6 cells over 9 genes: more than 100 up and more than 100 down entries,
        # so that a tiny memory budget makes the gene-major table be assembled from several load chunks
        ncl, ng = rng.randint(12, 14), 9
    clusters = []
    for k in range(ncl):
        n = rng.choice([1, 2, 2, 3, 4, 5, 6]) if not wide else rng.randint(5, 6)
        on = set(rng.sample(range(ng), rng.randint(0, min(3, ng)) if not wide else rng.randint(2, 4)))
        cells = []
        for _ in range(n):
            row = []
            for g in range(ng):
                if g in on:
                    row.append(rng.choice([3, 4, 4, 5, 6]))
                else:
                    row.append(rng.choice([0, 0, 0, 0, 1, 1, 2]))
            cells.append(row)
        if rng.random() < 0.3 and n > 1:
            g = rng.randrange(ng)
            v = rng.choice([0, 2, 5])
            for row in cells:
                row[g] = v                       # zero variance gene
        clusters.append(cells)
    T = {k: rng.choice(v) for k, v in FR.items()}
    T['pth'] = rng.choice([UNIT // 100, UNIT // 20])
    exact = rng.random() < 0.4
    if wide:
        conf = {'T': T, 'exact': exact, 'n_valid': 30, 'gene_list': None, 'P': rng.randint(1, 3),
                'max_gb': rng.choice([1e-6, 1e-7]), 'pad_list': False}
        return {'clusters': clusters, 'ng': ng, 'conf': conf, 'two_level': rng.random() < 0.5}
    if rng.random() < 0.25:
        # a clearly significant gene whose penetrance sits exactly on the strict threshold q1 = c/d:
        # cluster 0 has d*m cells, the gene is expressed (value 5..6) in exactly c*m of them and absent elsewhere
        c, d = T['q1']
        m = rng.choice([x for x in (2, 3, 4, 5, 6, 10, 12) if 10 <= d * x <= 24])
        g = rng.randrange(ng)
        big = []
        for i in range(d * m):
            row = [rng.choice([0, 0, 0, 1, 1, 2]) for _ in range(ng)]
            row[g] = rng.choice([5, 6]) if i < c * m else 0
            big.append(row)
        rng.shuffle(big)
        clusters[0] = big
        for k in range(1, ncl):
            n = rng.randint(10, 16)
            others = [[rng.choice([0, 0, 0, 1, 1, 2]) for _ in range(ng)] for _ in range(n)]
            for row in others:
                row[g] = 0
            clusters[k] = others
        exact = rng.random() < 0.7
    if rng.random() < 0.25 and ncl >= 2:
        # a gene expressed in (nearly) every cell of two clusters but at very different levels: significant,
        # large fold change, differential penetrance 1/6 - between the two values a floor can take
        g = rng.randrange(ng)
        lowc = [[rng.choice([0, 0, 0, 1, 1, 2]) for _ in range(ng)] for _ in range(6)]
        highc = [[rng.choice([0, 0, 0, 1, 1, 2]) for _ in range(ng)] for _ in range(6)]
        for i, row in enumerate(lowc):
            row[g] = [1, 2, 1, 2, 1, 0][i]
        for i, row in enumerate(highc):
            row[g] = [5, 6, 5, 6, 5, 6][i]
        clusters[0], clusters[1] = lowc, highc
        T['q1min'], T['qdiffmin'] = rng.choice([((1, 10), (1, 5)), ((1, 4), (1, 10)), ((1, 10), (1, 10))])
    f32 = False
    if rng.random() < 0.12:
        # statistics stored in single precision (every number exactly representable) with a gene expressed at a high,
        # nearly constant level in one cluster and absent elsewhere: sum^2 needs more than 24 bits
        g = rng.randrange(ng)
        hot = []
        for i in range(3):
            row = [rng.choice([0, 0, 0, 1, 1, 2]) for _ in range(ng)]
            row[g] = 2500 + (1 if i >= 1 else 0)       # 2500, 2501, 2501: sum and sum of squares are exact in single precision
            hot.append(row)
        clusters[0] = hot
        for k in range(1, ncl):
            if len(clusters[k]) < 2:
                clusters[k] = clusters[k] + [list(clusters[k][0])]
            for row in clusters[k]:
                row[g] = 0
        f32 = True
    if (not f32) and rng.random() < 0.3 and ncl >= 2:
        # a cluster of ONE cell far away from a well-populated cluster with spread: no marker may be recorded for the pair,
        # by either route
        g = rng.randrange(ng)
        lone = [[rng.choice([0, 0, 0, 1]) for _ in range(ng)]]
        lone[0][g] = 0
        crowd = [[rng.choice([0, 0, 0, 1, 1, 2]) for _ in range(ng)] for _ in range(rng.randint(3, 5))]
        for i, row in enumerate(crowd):
            row[g] = [10, 13, 16, 12, 15][i]
        clusters[0], clusters[1] = lone, crowd
        exact = False
    faint = (not f32) and rng.random() < 0.12
    if faint:
        # a gene below 1 (log2 CPM) in every cell of two clusters - penetrance 0 in both, differential penetrance 0 - but
        # clearly and significantly brighter in one of them: with a penetrance floor of 0 only the differential floor
        # keeps it out.  Binary fractions: the per-cluster sums are whole numbers.
        g = rng.randrange(ng)
        dim = [[rng.choice([0, 0, 0, 1, 1, 2]) for _ in range(ng)] for _ in range(6)]
        dark = [[rng.choice([0, 0, 0, 1, 1, 2]) for _ in range(ng)] for _ in range(6)]
        for i, row in enumerate(dim):
            row[g] = [0.5, 0.75, 0.875, 0.875, 0.5, 0.5][i]
        for row in dark:
            row[g] = 0
        clusters[0], clusters[1] = dim, dark
        T['q1min'] = (0, 1)
        T['foldmin'] = rng.choice([(0, 1), (1, 2)])
        exact = False
    zero_floors = (not faint) and rng.random() < 0.15
    if zero_floors:
        # every minimum floor at 0 (legal: the strict thresholds stay above), a short gene list, approximate mode
        T['q1min'] = T['qdiffmin'] = T['foldmin'] = (0, 1)
        exact = False
    conf = {'T': T, 'exact': exact, 'n_valid': rng.choice([1, 2, 3, 5, 30]) if not (zero_floors or faint) else rng.choice([5, 30]),
            'gene_list': sorted(rng.sample(range(ng), rng.randint(1, ng) if not zero_floors else rng.randint(1, 2)))
            if (rng.random() < 0.3 or zero_floors) else None,
            'P': rng.randint(1, 3), 'max_gb': rng.choice([1, 1e-3, 1e-7]), 'pad_list': rng.random() < 0.5, 'f32': f32}
    two_level = rng.random() < 0.5
    return {'clusters': clusters, 'ng': ng, 'conf': conf, 'two_level': two_level}


def write_stats_full(path, ref, names):
    ng = ref['ng']
    genes = [f'g{g}' for g in range(ng)]
    ncl = len(names)
    arr = {k: np.zeros((ncl, ng)) for k in ('sum', 'sumsq')}
    cnt = {k: np.zeros((ncl, ng), dtype=int) for k in ('gt0', 'gt1', 'ge1')}
    n = np.zeros(ncl, dtype=int)
    order = sorted(range(ncl), key=lambda i: names[i])
    c2r = {}
    for r, i in enumerate(order):
        X = np.array(ref['clusters'][i], dtype=float).reshape((len(ref['clusters'][i]), ng))
        c2r[names[i]] = r
        n[r] = X.shape[0]
        arr['sum'][r] = X.sum(axis=0)
        arr['sumsq'][r] = (X ** 2).sum(axis=0)
        cnt['gt0'][r] = (X > 0).sum(axis=0)
        cnt['gt1'][r] = (X > 1).sum(axis=0)
        cnt['ge1'][r] = (X >= 1).sum(axis=0)
    if ref['two_level']:
        half = max(1, ncl // 2)
        srt = sorted(names)
        tree = {'hierarchy': ['class', 'cluster'], 'class': {'A': srt[:half], 'B': srt[half:]} if half < ncl else {'A': srt},
                'cluster': {nm: [] for nm in names}}
    else:
        tree = {'hierarchy': ['cluster'], 'cluster': {nm: [] for nm in names}}
    with h5py.File(path, 'w') as f:
        f.create_dataset('metadata', data=json.dumps({}).encode())
        f.create_dataset('cluster_to_row', data=json.dumps(c2r).encode())
        f.create_dataset('col_names', data=json.dumps(genes).encode())
        f.create_dataset('taxonomy_tree', data=json.dumps(tree).encode())
        f.create_dataset('n_cells', data=n)
        for k in arr:
            f.create_dataset(k, data=arr[k].astype(np.float32) if ref['conf'].get('f32') else arr[k])
        for k in cnt:
            f.create_dataset(k, data=cnt[k])
    return genes


def read_markers(path):
    with h5py.File(path, 'r') as f:
        p2i = json.loads(f['pair_to_idx'][()].decode())
        genes = json.loads(f['gene_names'][()].decode())
        out = {}
        bypair, bygene = [], []
        bp = f['sparse_by_pair']
        bg = f['sparse_by_gene']
        upp, upg = bp['up_pair_idx'][()], bp['up_gene_idx'][()]
        dnp, dng = bp['down_pair_idx'][()], bp['down_gene_idx'][()]
        for lvl in p2i:
            for a in p2i[lvl]:
                for b, idx in p2i[lvl][a].items():
                    up = [int(x) for x in upg[upp[idx]:upp[idx + 1]]]
                    dn = [int(x) for x in dng[dnp[idx]:dnp[idx + 1]]]
                    out[(a, b)] = (up, dn, idx)
                    bypair += [[idx, g, 1] for g in up] + [[idx, g, 2] for g in dn]
        gup, gupp = bg['up_gene_idx'][()], bg['up_pair_idx'][()]
        gdn, gdnp = bg['down_gene_idx'][()], bg['down_pair_idx'][()]
        for g in range(len(genes)):
            bygene += [[int(p), g, 1] for p in gupp[gup[g]:gup[g + 1]]]
            bygene += [[int(p), g, 2] for p in gdnp[gdn[g]:gdn[g + 1]]]
    return out, bypair, bygene


def p_atoms(c1, c2, ng):
    lo, hi = [], []
    X1 = np.array(c1, dtype=float).reshape((len(c1), ng))
    X2 = np.array(c2, dtype=float).reshape((len(c2), ng))
    for g in range(ng):
        n1, n2 = X1.shape[0], X2.shape[0]
        if n1 < 2 or n2 < 2:
            lo.append(0)
            hi.append(UNIT)
            continue
        m1, m2 = X1[:, g].mean(), X2[:, g].mean()
        v1, v2 = X1[:, g].var(ddof=1), X2[:, g].var(ddof=1)
        if v1 == 0 and v2 == 0:
            if m1 == m2:
                lo.append(UNIT)
                hi.append(UNIT)
            else:
                lo.append(0)       # undefined statistic (x/0): not asserted
                hi.append(UNIT)
            continue
        with warnings.catch_warnings():
            warnings.simplefilter('ignore')
            p = float(scipy.stats.ttest_ind_from_stats(m1, np.sqrt(v1), n1, m2, np.sqrt(v2), n2, equal_var=False).pvalue)
        if not np.isfinite(p):
            lo.append(0)
            hi.append(UNIT)
            continue
        lo.append(max(0, int(np.floor(p * (1 - 1e-6) * UNIT)) - 2))
        hi.append(min(UNIT, int(np.ceil(p * (1 + 1e-6) * UNIT)) + 2))
    return lo, hi


def _run_routes(ref, names, d, P, max_gb, tag):
    T = ref['conf']['T']
    kw = dict(p_th=T['pth'] / UNIT, q1_th=T['q1'][0] / T['q1'][1], qdiff_th=T['qdiff'][0] / T['qdiff'][1],
              log2_fold_th=T['fold'][0] / T['fold'][1], q1_min_th=T['q1min'][0] / T['q1min'][1],
              qdiff_min_th=T['qdiffmin'][0] / T['qdiffmin'][1], log2_fold_min_th=T['foldmin'][0] / T['foldmin'][1])
    stats = os.path.join(d, f'stats_{tag}.h5')
    genes = write_stats_full(stats, ref, names)
    gl = None if ref['conf']['gene_list'] is None else [genes[g] for g in ref['conf']['gene_list']]
    if gl is not None and ref['conf'].get('pad_list'):
        # a query panel: longer than the reference gene list, but covering only part of it
        gl = gl + [f'panel_only_{i}' for i in range(len(genes) + 1)]
    out1 = os.path.join(d, f'refm_{tag}.h5')
    os.makedirs(os.path.join(d, 'scratch'), exist_ok=True)
    stages.ref_markers(stats, out1, os.path.join(d, 'scratch'), n_proc=P, max_gb=max_gb,
                       n_valid=ref['conf']['n_valid'], exact=ref['conf']['exact'], gene_list=gl, **kw)
    out2 = None
    if not ref['conf']['exact']:
        mask = os.path.join(d, f'mask_{tag}.h5')
        stages.p_value_mask(stats, mask, os.path.join(d, 'scratch'), n_proc=P, n_per=3, **kw)
        out2 = os.path.join(d, f'pm_{tag}.h5')
        stages.markers_from_p_mask(stats, mask, out2, os.path.join(d, 'scratch'), n_proc=P, max_gb=max_gb,
                                   n_valid=ref['conf']['n_valid'], gene_list=gl)
    return out1, out2


def _case(args):
    ref, wd = args
    d = tempfile.mkdtemp(dir=wd)
    recs, issues = [], []
    try:
        ncl = len(ref['clusters'])
        names = [f'k{i:02d}' for i in range(ncl)]
        conf = ref['conf']
        with warnings.catch_warnings(), build.redirect_fds(os.path.join(d, 'stdio.txt')):
            warnings.simplefilter('ignore')
            try:
                out1, out2 = _run_routes(ref, names, d, conf['P'], conf['max_gb'], 'a')
            except Exception as e:
                none_dir = 'hunk' in str(e) or 'zero-size' in str(e)
                issues.append((1113 if not none_dir else 1114, f'{type(e).__name__}: {str(e)[:300]}'))
                return recs, issues
            # renamed clusters: reverse alphabetical order swaps every pair
            rev = [f'z{ncl - i:02d}' for i in range(ncl)]
            try:
                sw1, _ = _run_routes(ref, rev, d, 1, 1, 'swap')
            except Exception:
                sw1 = None
            # other worker count / budget
            v1, v2 = _run_routes(ref, names, d, 1 if conf['P'] > 1 else 2, 1 if conf['max_gb'] != 1 else 1e-6, 'var')
        if h5_digest(out1, exclude=('metadata', 'n_pairs')) != h5_digest(v1, exclude=('metadata', 'n_pairs')):
            issues.append((1112, 'direct route: file differs between worker counts / budgets'))
        if out2 and h5_digest(out2, exclude=('metadata', 'n_pairs')) != h5_digest(v2, exclude=('metadata', 'n_pairs')):
            issues.append((1112, 'p-value-mask route: file differs between worker counts / budgets'))
        ng = ref['ng']
        inlist = list(range(1, ng + 1)) if conf['gene_list'] is None else [g + 1 for g in conf['gene_list']]
        T = dict(conf['T'])
        for route, path in (('direct', out1), ('pmask', out2)):
            if path is None:
                continue
            mk, bypair, bygene = read_markers(path)
            recs.append({'kind': 'tables', 'bypair': bypair, 'bygene': bygene, 'route': route})
            for (a, b), (up, dn, idx) in mk.items():
                i, j = names.index(a), names.index(b)
                c1, c2 = ref['clusters'][i], ref['clusters'][j]
                lo, hi = p_atoms(c1, c2, ng)

                def cl(c):
                    X = np.array(c).reshape((len(c), ng))
                    return {'n': len(c), 'ge1': [int(x) for x in (X >= 1).sum(axis=0)],
                            's': [int(x) for x in X.sum(axis=0)]}
                recs.append({'kind': 'pair', 'c1': cl(c1), 'c2': cl(c2), 'plo': lo, 'phi': hi, 'T': T,
                             'inlist': inlist, 'exact': conf['exact'] if route == 'direct' else False,
                             'up': [g + 1 for g in up], 'down': [g + 1 for g in dn], 'route': route,
                             'pair': [a, b]})
        if sw1 is not None:
            mk1, _, _ = read_markers(out1)
            mk2, _, _ = read_markers(sw1)
            for (a, b), (up, dn, idx) in mk1.items():
                ra, rb = rev[names.index(a)], rev[names.index(b)]
                key = (ra, rb) if (ra, rb) in mk2 else (rb, ra)
                up2, dn2, _ = mk2[key]
                recs.append({'kind': 'swap', 'up1': up, 'down1': dn, 'up2': up2, 'down2': dn2, 'pair': [a, b]})
        left = os.listdir(os.path.join(d, 'scratch'))
        if left:
            issues.append((1115, f'scratch left: {left}'))
    except Exception as e:
        import traceback
        issues.append((1113, f'{type(e).__name__}: {e} | {traceback.format_exc()[-600:]}'))
    finally:
        shutil.rmtree(d, ignore_errors=True)
    return recs, issues


def run(ctx):
    quick = ctx.tier == 'quick'
    rng = random.Random(ctx.seed + 11)
    ctx.cov['rule'] = ('one case = one (pair of clusters, route) of one random reference (2-5 clusters of 1-6 cells, 3-9 '
                       'genes, integer log2CPM values, zero-variance genes, random rational thresholds, gene lists, exact / '
                       'approximate penetrance); every gene of the pair is one decision. Non-trivial = pair with both '
                       'clusters >= 2 cells; distinct by canonical JSON of the observation.')
    ctx.cov['trusted_base'] = ['TLC 1.8', 'scipy.stats.ttest_ind_from_stats for the Welch p-value atoms (not the code path '
                               'of the package)']
    ctx.assumptions += ['a decision whose p-value interval straddles the threshold, a value exactly on a strict threshold, '
                        'and genes with zero variance in both clusters (undefined statistic) are not asserted']
    if ctx.only in (None, 'mc'):
        for ng in (3, 4) if quick else (3, 4, 5):
            cfg = (f'SPECIFICATION Spec\nCONSTANTS NG = {ng} Grid = {{0, 10000, 30000, 60000, 100000, 200000, 5000000}} '
                   'Th = 100000\nINVARIANT SameDecision\nINVARIANT Monotone\nINVARIANT AdjustedNotBelowRaw\n'
                   'CHECK_DEADLOCK FALSE\n')
            res = run_tlc('RefMarkers_MC', cfg_text=cfg, timeout=3600)
            ctx.add_tlc(f'RefMarkers_MC_{ng}', res)
            if not res.ok:
                raise MachineryError(res.error_trace)
    if ctx.only in (None, 'c2s'):
        wd = str(ctx.tmpdir('c11_'))
        n = 80 if quick else 2400
        refs = [gen_reference(rng, wide=(i % 27 == 5)) for i in range(n)]
        with cf.ProcessPoolExecutor(max_workers=8) as ex:
            outs = list(ex.map(_case, [(r, wd) for r in refs]))
        recs, owners = [], []
        nraise = 0
        for ref, (rs, issues) in zip(refs, outs):
            for code, msg in issues[:2]:
                if code == 1114:
                    nraise += 1
                    ctx.report('refmarkers:no-marker-in-one-direction', f'{msg}', {'reference': ref})
                else:
                    ctx.report(f'clause:{code}', f'{CL.get(code, code)}: {msg}', {'reference': ref})
            for r in rs:
                ctx.count({'r': r}, nontrivial=(r['kind'] != 'pair' or (r['c1']['n'] >= 2 and r['c2']['n'] >= 2)))
                r['events'] = [0]
                recs.append(r)
                owners.append(ref)
        vs = validate(ctx, 'RefMarkers_Trace', recs, 'RefMarkers_Trace')
        rej = 0
        for r, ref, v in zip(recs, owners, vs):
            if not v['accepted']:
                rej += 1
                ctx.report(f'clause:{v["inv"]}', f'{CL.get(v["inv"], v["inv"])} - {r.get("route", "")} pair {r.get("pair")}: '
                           f'{json.dumps({k: r[k] for k in r if k in ("up", "down", "c1", "c2", "exact", "inlist", "T")})[:500]}',
                           {'reference': ref, 'pair': r.get('pair')})
        prs = [r for r in recs if r['kind'] == 'pair' and (r['up'] or r['down'])]
        if prs:
            ctx.sample({k: prs[0][k] for k in ('c1', 'c2', 'plo', 'phi', 'T', 'exact', 'up', 'down', 'route')})
        ctx.part('c2s', references=len(refs), observations=len(recs), rejected=rej, stage_failures=nraise,
                 pairs=sum(1 for r in recs if r['kind'] == 'pair'),
                 markers=sum(len(r['up']) + len(r['down']) for r in recs if r['kind'] == 'pair'))
        import copy
        st = []
        for r in prs[:30]:
            r2 = copy.deepcopy(r)
            if r2['up']:
                r2['down'] = r2['down'] + [r2['up'][0]]
            else:
                r2['up'] = [r2['down'][0]]
                r2['down'] = r2['down'][1:]
            st.append(r2)
        if st:
            sv = validate(ctx, 'RefMarkers_Trace', st, 'selftest', counts_as_impl=False)
            acc = sum(1 for v in sv if v['accepted'])
            ctx.cov['selftest'] = {'corrupted': len(st), 'rejected': len(st) - acc}
            if acc:
                raise MachineryError('self-test: corrupted marker observations accepted')


def replay(ctx, path):
    case = json.load(open(pathlib.Path(path) / 'replay.json'))['case']
    wd = str(ctx.tmpdir('c11_'))
    rs, issues = _case((case['reference'], wd))
    for code, msg in issues:
        ctx.report(f'clause:{code}', msg, case)
    for r in rs:
        r['events'] = [0]
    for r, v in zip(rs, validate(ctx, 'RefMarkers_Trace', rs, 'replay')):
        if not v['accepted']:
            ctx.report(f'clause:{v["inv"]}', CL.get(v['inv']), case)
    ctx.count(case)
