"""X09 (extension suite, not one of the 20 listed statements) - the HDF5 copier copy_h5_excluding_data
(utils/h5_utils.py; used by validate_h5ad, merge_precompute_files, transcribe_to_obs).

1. MC   : H5Copy_MC - the walk as the code performs it (a set of paths still to visit) over every tree on two names and
          depth <= 2 with every choice of the two exclusion sets: only kept objects are ever created, parents before
          members, at the end exactly the kept objects as they were; identity and monotonicity of exclusion; the tiling
          partitions every axis for every shape / budget in range (ASSUME, evaluated by TLC), tile edge <= per_dim.
2. S->C : every (tree, exclusion sets) initial state of the model is built as a real HDF5 file (groups / data sets of
          random shape, type, chunking, compression, attributes), copied by the real function with a small
          max_elements and read back; random deeper trees with look-alike names on top; the slice lists of
          _get_slices_for_copy for every shape / budget.  H5Copy_Trace decides every call.
"""
import concurrent.futures as cf
import copy
import json
import pathlib
import random
import shutil
import tempfile
import traceback

from harness.tlc import run_tlc, MachineryError
from harness.traces import validate

PID = 'X09'
CL = {2800: 'harness built a malformed tree', 2801: 'set of copied objects differs from the kept objects',
      2802: 'an object changed its kind', 2803: 'a copied object differs from its source (content, type, shape, chunks, '
      'compression or attributes)', 2804: 'the copy raised', 2811: 'number of axes differs',
      2812: 'slice list is not the run structure for an admissible per_dim', 2813: 'slices do not partition an axis'}
REAL = {'a': 'obs', 'b': 'X'}


def _mk_dataset(rng, h, path):
    import numpy as np
    kind = rng.choice(['scalar', 'i1', 'f2', 'f3', 'str', 'bytes', 'empty'])
    kw = {}
    if kind == 'scalar':
        data = np.int64(rng.randint(-5, 5))
    elif kind == 'i1':
        dt = rng.choice(['i4', 'i8', 'u1'])
        data = np.array([rng.randint(0 if dt == 'u1' else -9, 9) for _ in range(rng.randint(1, 40))], dtype=dt)
    elif kind == 'f2':
        data = np.array([[rng.random() for _ in range(rng.randint(1, 7))] for _ in range(1)] * rng.randint(1, 9))
        data = data + np.arange(data.shape[0])[:, None]
        data = data.astype(rng.choice(['f4', 'f8']))
    elif kind == 'f3':
        data = np.arange(rng.randint(1, 4) * rng.randint(1, 4) * 5, dtype='f8')
        data = data.reshape((-1, 5))
        data = data.reshape((data.shape[0], 5, 1)) * np.ones((1, 1, rng.randint(1, 3)))
    elif kind == 'str':
        data = np.array([f'n{rng.randint(0, 99)}é' for _ in range(rng.randint(1, 6))], dtype=object)
    elif kind == 'bytes':
        data = json.dumps({'k': rng.randint(0, 9)}).encode()
    else:
        data = np.zeros((0, 3), dtype='f8')
    if kind in ('i1', 'f2', 'f3') and rng.random() < 0.7:
        kw['chunks'] = tuple(max(1, s // rng.randint(1, 3)) for s in data.shape)
        if rng.random() < 0.5:
            kw['compression'] = 'gzip'
            kw['compression_opts'] = rng.randint(1, 6)
    if kind == 'empty' and rng.random() < 0.5:
        kw['chunks'] = (1, 3)
        kw['maxshape'] = (None, 3)
    if kind == 'str':
        import h5py
        ds = h.create_dataset(path, data=data, dtype=h5py.string_dtype(), **({'chunks': (1,)} if rng.random() < 0.5 else {}))
    else:
        ds = h.create_dataset(path, data=data, **kw)
    _mk_attrs(rng, ds)


def _mk_attrs(rng, obj):
    import numpy as np
    for k in rng.sample(['encoding-type', 'n', 'order', 'note'], rng.randint(0, 3)):
        obj.attrs.create(name=k, data=rng.choice(['csr_matrix', 7, np.array([1, 2, 3]), 2.5, 'x y']))


def _same(a, b):
    import h5py
    import numpy as np
    if dict(a.attrs).keys() != dict(b.attrs).keys():
        return False
    for k in a.attrs:
        if not np.array_equal(np.asarray(a.attrs[k]), np.asarray(b.attrs[k])):
            return False
    if isinstance(a, h5py.Dataset):
        if a.shape != b.shape or a.dtype != b.dtype or a.chunks != b.chunks or a.compression != b.compression \
                or a.compression_opts != b.compression_opts:
            return False
        x, y = a[()], b[()]
        if isinstance(x, np.ndarray):
            return bool(np.array_equal(x, y))
        return x == y
    return True


def _walk_case(args):
    scn, wd = args
    import h5py
    from cell_type_mapper.utils.h5_utils import copy_h5_excluding_data
    d = pathlib.Path(tempfile.mkdtemp(dir=wd))
    rng = random.Random(scn['seed'])
    try:
        names = scn['names']

        def real(p):
            return '/'.join(names.get(x, x) for x in p)
        src = d / 'src.h5'
        with h5py.File(src, 'w') as h:
            for nd in sorted(scn['nodes'], key=lambda r: len(r['path'])):
                if nd['kind'] == 'g':
                    g = h.create_group(real(nd['path']))
                    _mk_attrs(rng, g)
                else:
                    _mk_dataset(rng, h, real(nd['path']))
            h.attrs.create(name='encoding-type', data='anndata')
        rec = {'kind': 'walk', 'nodes': scn['nodes'], 'xg': scn['xg'], 'xd': scn['xd'], 'ok': True, 'dst': [],
               'shape': [], 'm': 0, 'runs': []}
        try:
            copy_h5_excluding_data(src_path=src, dst_path=d / 'dst.h5',
                                   excluded_groups=[real(p) for p in scn['xg']] if scn['xg'] or rng.random() < 0.5 else None,
                                   excluded_datasets=[real(p) for p in scn['xd']] if scn['xd'] or rng.random() < 0.5 else None,
                                   max_elements=scn['m'])
        except Exception as e:                            # noqa
            rec['ok'] = False
            rec['error'] = f'{type(e).__name__}: {str(e)[:200]}'
            return rec, None
        inv = {v: k for k, v in names.items()}
        with h5py.File(src, 'r') as a, h5py.File(d / 'dst.h5', 'r') as b:
            found = []
            b.visititems(lambda name, obj: found.append((name, obj)))
            for name, obj in found:
                path = [inv.get(x, x) for x in name.split('/')]
                rec['dst'].append({'path': path, 'kind': 'd' if isinstance(obj, h5py.Dataset) else 'g',
                                   'same': bool(name in a and type(a[name]) is type(obj) and _same(a[name], obj))})
            rec['root_attrs_copied'] = dict(b.attrs) != {}
        return rec, None
    except Exception:
        return None, traceback.format_exc()
    finally:
        shutil.rmtree(d, ignore_errors=True)


def _random_tree(rng):
    pool = ['obs', 'ob', 'obs2', 'X', 'layers', 'raw', 'var', 'data', 'indices', 'x']
    nodes = []

    def grow(prefix, depth):
        for nm in rng.sample(pool, rng.randint(1, 3)):
            p = prefix + [nm]
            if depth < 3 and rng.random() < 0.5:
                nodes.append({'path': p, 'kind': 'g'})
                if rng.random() < 0.85:
                    grow(p, depth + 1)
            else:
                nodes.append({'path': p, 'kind': 'd'})
    grow([], 1)
    paths = [n['path'] for n in nodes]
    cand = paths + [p[:-1] + [p[-1][:-1]] for p in paths if len(p[-1]) > 1] + [['nothing']]
    xg = [list(x) for x in {tuple(p) for p in rng.sample(cand, rng.randint(0, min(3, len(cand))))}]
    xd = [list(x) for x in {tuple(p) for p in rng.sample(cand, rng.randint(0, min(3, len(cand))))}]
    return {'nodes': nodes, 'xg': xg, 'xd': xd, 'names': {}, 'm': rng.choice([1, 2, 3, 7, 10, 27, 100000]),
            'seed': rng.randint(0, 10 ** 6)}


def run(ctx):
    quick = ctx.tier == 'quick'
    rng = random.Random(ctx.seed + 109)
    ctx.cov['rule'] = ('one case = one real copy (tree and exclusion sets from TLC\'s initial states, or a random deeper tree '
                       'with look-alike names) or one slice list of _get_slices_for_copy; non-trivial = something is '
                       'excluded / the shape has more than one tile; distinct by canonical JSON.')
    ctx.cov['trusted_base'] = ['TLC 1.8', 'h5py for building and reading the files']
    deep = '{"a"}' if quick else '{"a", "b"}'
    if ctx.only in (None, 'mc'):
        cfg = (f'SPECIFICATION Spec\nCONSTANTS MaxN = {12 if quick else 20} MaxM = {30 if quick else 70} Deep = {deep}\n'
               + ''.join(f'INVARIANT {i}\n' for i in ('InvPartial', 'InvFinal', 'InvResultWellFormed', 'InvIdentity',
                                                      'InvMonotone')) + 'CHECK_DEADLOCK FALSE\n')
        res = run_tlc('H5Copy_MC', cfg_text=cfg, timeout=7200)
        ctx.add_tlc('H5Copy_MC', res)
        if not res.ok:
            raise MachineryError('H5Copy_MC: design invariant violated:\n' + (res.error_trace or res.stdout[-1500:]))
        ctx.part('mc', deep=deep, distinct=res.distinct)
    recs, scns = [], []
    if ctx.only in (None, 's2c'):
        res = run_tlc('H5Copy_MC', cfg_text='SPECIFICATION GenSpec\nCONSTANTS MaxN = 2 MaxM = 2 Deep = {"a"}\n'
                                            'CHECK_DEADLOCK FALSE\n', workers=1, timeout=3600)
        ctx.add_tlc('H5Copy_Gen', res)
        if not res.ok:
            raise MachineryError(res.error_trace or res.stdout[-1500:])
        em = [json.loads(t[1]) for t in res.tuples('SCN')]
        ctx.part('emitted', initial_states=len(em))
        if quick:
            em = rng.sample(em, min(len(em), 600))
        else:
            ctx.cov['exhaustive_small'] = True
        for e in em:
            scns.append({'nodes': e['nodes'], 'xg': e['xg'], 'xd': e['xd'], 'names': REAL, 'm': rng.choice([1, 2, 5, 9, 1000]),
                         'seed': rng.randint(0, 10 ** 6), 'kept': e['kept']})
        scns += [_random_tree(rng) for _ in range(200 if quick else 3000)]
        wd = str(ctx.tmpdir('x09_'))
        with cf.ProcessPoolExecutor(max_workers=8) as ex:
            outs = list(ex.map(_walk_case, [(s, wd) for s in scns], chunksize=16))
        nroot = 0
        for s, (rec, err) in zip(scns, outs):
            if rec is None:
                raise MachineryError(err)
            if 'kept' in s and rec['ok'] and sorted(map(tuple, s['kept'])) != sorted(tuple(r['path']) for r in rec['dst']):
                pass                                      # decided by TLC below (clause 2801); kept for the replay record
            nroot += 1 if rec.get('root_attrs_copied') else 0
            ctx.count({'s': s}, nontrivial=bool(s['xg'] or s['xd']))
            recs.append(rec)
        ctx.part('walks', copies=len(scns), root_attributes_copied=nroot)
    tiles = []
    if ctx.only in (None, 'tiles', 's2c'):
        from cell_type_mapper.utils.h5_utils import _get_slices_for_copy
        shapes = []
        for n in range(0, 13):
            shapes.append((n,))
        for _ in range(150 if quick else 2500):
            d = rng.randint(1, 3)
            shapes.append(tuple(rng.randint(0, 12 if quick else 20) for _ in range(d)))
        for sh in shapes:
            m = rng.choice([1, 2, 3, 4, 7, 8, 9, 16, 25, 27, 30, 64] if len(sh) > 1 else list(range(1, 15)))
            sl = _get_slices_for_copy(data_shape=sh, max_elements=m)
            t = {'kind': 'tiles', 'shape': list(sh), 'm': m, 'runs': [[[int(s.start), int(s.stop)] for s in ax] for ax in sl],
                 'nodes': [], 'xg': [], 'xd': [], 'ok': True, 'dst': []}
            tiles.append(t)
            ctx.count({'t': t}, nontrivial=any(len(ax) > 1 for ax in sl))
    allrecs = recs + tiles
    vs = validate(ctx, 'H5Copy_Trace', allrecs, 'H5Copy_Trace', cfg='H5Copy_Trace.cfg')
    rej = 0
    for i, (rec, v) in enumerate(zip(allrecs, vs)):
        if not v['accepted']:
            rej += 1
            if rec['kind'] == 'walk':
                s = scns[i]
                ctx.report(f'clause:{v["inv"]}', f'{CL.get(v["inv"], v["inv"])} - nodes {rec["nodes"]} excluded groups '
                           f'{rec["xg"]} data sets {rec["xd"]}: copied {[(r["path"], r["same"]) for r in rec["dst"]]} '
                           f'{rec.get("error", "")}', {'walk': s})
            else:
                ctx.report(f'clause:{v["inv"]}', f'{CL.get(v["inv"], v["inv"])} - shape {rec["shape"]} max_elements '
                           f'{rec["m"]}: {rec["runs"]}', {'tiles': {'shape': rec['shape'], 'm': rec['m']}})
    ctx.part('decided', calls=len(allrecs), rejected=rej, slice_lists=len(tiles))
    if recs:
        ctx.sample({'walk': {k: recs[0][k] for k in ('nodes', 'xg', 'xd', 'dst')}, 'tiles': tiles[-1] if tiles else None})
        st = []
        for r in recs[:200]:
            if len(st) >= 40 or not r['ok'] or not r['dst']:
                continue
            r2 = copy.deepcopy(r)
            if len(st) % 2 == 0:
                r2['dst'] = r2['dst'][1:] if len({len(x['path']) for x in r2['dst']}) == 1 else \
                    [x for x in r2['dst'] if len(x['path']) > 1]
            else:
                r2['dst'][0]['same'] = False
            st.append(r2)
        for t in tiles[:200]:
            if len(st) >= 60 or not t['runs'] or not t['runs'][0]:
                continue
            t2 = copy.deepcopy(t)
            t2['runs'][0][-1][1] += 1
            st.append(t2)
        if st:
            sv = validate(ctx, 'H5Copy_Trace', st, 'selftest', cfg='H5Copy_Trace.cfg', counts_as_impl=False)
            acc = sum(1 for v in sv if v['accepted'])
            ctx.cov['selftest'] = {'corrupted': len(st), 'rejected': len(st) - acc}
            if acc:
                raise MachineryError('self-test: corrupted copies / slice lists accepted')


def replay(ctx, path):
    case = json.load(open(pathlib.Path(path) / 'replay.json'))['case']
    if 'walk' in case:
        wd = str(ctx.tmpdir('x09_'))
        rec, err = _walk_case((case['walk'], wd))
        if rec is None:
            raise MachineryError(err)
    else:
        from cell_type_mapper.utils.h5_utils import _get_slices_for_copy
        sh, m = case['tiles']['shape'], case['tiles']['m']
        sl = _get_slices_for_copy(data_shape=tuple(sh), max_elements=m)
        rec = {'kind': 'tiles', 'shape': sh, 'm': m, 'runs': [[[int(s.start), int(s.stop)] for s in ax] for ax in sl],
               'nodes': [], 'xg': [], 'xd': [], 'ok': True, 'dst': []}
    v = validate(ctx, 'H5Copy_Trace', [rec], 'replay', cfg='H5Copy_Trace.cfg')[0]
    if not v['accepted']:
        ctx.report(f'clause:{v["inv"]}', CL.get(v['inv']), case)
    ctx.count(case)
