"""X15 (extension suite, not one of the 20 listed statements) - what a mapping run owns while it lives and what is left when
it ends (cli/from_specified_markers.py: run_mapping), as a state machine with a failure possible at every step.

1. MC   : MapLifecycle_MC - for a run with and without a configured scratch directory and a failure at each step (check of
          the outputs, result buffer, marker cache, mapping, writing): nothing owned is left at the end (NothingLeft), a
          run that raised has no results (RaisedHasNoResults), a complete run has everything (DoneHasEverything), a refused
          run writes nothing (RefusedWritesNothing).  The two designs the package had before the fix commits 264d93e / 36562b8
          (no per-run directory without a scratch directory; per-run directory made before the outputs are checked) are
          model-checked too: TLC must REFUTE NothingLeft for both (the model is not vacuous).
2. C->S : real mapping runs, each with a system temporary directory of its own (TMPDIR), with and without a configured
          scratch directory, ending normally or failing at one of the steps (result / log path in a missing directory;
          marker table without a usable root gene; a worker that raises mid-way / after its work; CSV path in a missing
          directory): outcome, what is left in the scratch, the system temporary and the output directory, whether the log
          and the result records were written - validated by MapLifecycle_Trace against MapLifecycle!Expected.
"""
import copy
import json
import os
import pathlib
import random
import shutil

from harness import pooltrace, sub
from harness.checks.c04 import base_scenario
from harness.tlc import run_tlc, MachineryError
from harness.traces import validate

PID = 'X15'
CL = {3401: 'the run ended / did not end with an error', 3402: 'something is left in the scratch / system temporary / output directory',
      3403: 'log written exactly when the run got as far as its try block', 3404: 'result records exactly after a complete run'}
STEPS = ['{}', '{"check"}', '{"buffer"}', '{"cache"}', '{"map"}', '{"write"}']
# class of run -> (model fault, damage for build.run_scenario, worker fault (k, point) or None)
CLASSES = {'ok': ('none', None, None), 'missing_out_dir': ('check', 'missing_out_dir', None),
           'missing_log_dir': ('check', 'missing_log_dir', None), 'root_unusable': ('cache', None, None),
           'worker_mid': ('map', None, (2, 'mid')), 'worker_after': ('map', None, (3, 'after')),
           'missing_csv_dir': ('write', 'missing_csv_dir', None)}


def _cfg(given, always, order, faults, invs):
    return (f'SPECIFICATION Spec\nCONSTANTS Given = {given} PerRunAlways = {always} Order = "{order}" Faults = {faults}\n'
            + ''.join(f'INVARIANT {i}\n' for i in invs) + 'CHECK_DEADLOCK FALSE\n')


def run(ctx):
    quick = ctx.tier == 'quick'
    rng = random.Random(ctx.seed + 115)
    ctx.cov['rule'] = ('one case = one real mapping run (class of ending x scratch directory configured or not x scenario) with '
                       'its own TMPDIR, observed at the end; non-trivial = every run that does not end normally; distinct by '
                       'canonical JSON.')
    ctx.cov['trusted_base'] = ['TLC 1.8', 'guarded gates inject the worker failure', 'directory listings after the call']
    invs = ['NothingLeft', 'RaisedHasNoResults', 'DoneHasEverything', 'RefusedWritesNothing']
    for given in ('TRUE', 'FALSE'):
        for f in STEPS:
            res = run_tlc('MapLifecycle_MC', cfg_text=_cfg(given, 'TRUE', 'check_first', f, invs), workers=1, timeout=600)
            ctx.add_tlc(f'MapLifecycle_MC_{given}_{f}', res)
            if not res.ok:
                raise MachineryError('MapLifecycle_MC: ' + (res.error_trace or res.stdout[-1500:]))
    # the two earlier designs must be refuted (F19, F23)
    refuted = 0
    for given, always, order, f in (('FALSE', 'FALSE', 'check_first', '{}'), ('TRUE', 'TRUE', 'mkdir_first', '{"check"}')):
        res = run_tlc('MapLifecycle_MC', cfg_text=_cfg(given, always, order, f, ['NothingLeft']), workers=1, timeout=600)
        if res.ok or 'NothingLeft' not in (res.stdout or ''):
            raise MachineryError('MapLifecycle_MC accepts a design that leaves its scratch behind: the model is vacuous')
        refuted += 1
    ctx.part('mc', configurations=2 * len(STEPS), earlier_designs_refuted=refuted)
    jobs, meta = [], []
    n_scn = 1 if quick else 4
    for si in range(n_scn):
        s = None
        while s is None:
            s = base_scenario(rng, 3, 3)
        for cls, (fault, damage, wf) in CLASSES.items():
            for given in (True, False):
                s2 = copy.deepcopy(s)
                if cls == 'root_unusable':
                    s2['markers']['0/0'] = [g for g in range(1, s2['G'] + 1) if g not in s2['qgenes']][:1] or [s2['G'] + 3]
                st = ctx.scratch / f'x15_systmp_{len(jobs)}'
                st.mkdir(parents=True, exist_ok=True)
                plan = None
                if wf:
                    pp = ctx.scratch / f'x15_plan_{len(jobs)}.json'
                    json.dump(pooltrace.fault_plan(s2, wf[0], wf[1], 'raise'), open(pp, 'w'))
                    plan = str(pp)
                dmg = damage
                if not given:
                    # no scratch directory configured: combine with the other damage where the runner supports one only
                    dmg = {'missing_out_dir': 'no_tmp_dir+missing_out_dir', 'missing_log_dir': 'no_tmp_dir+missing_log_dir',
                           'missing_csv_dir': 'no_tmp_dir+missing_csv_dir', None: 'no_tmp_dir'}[damage]
                jobs.append({'job': {'scn': s2, 'scheme': 'structural', 'plan': plan, 'mode': 'cli', 'damage': dmg, 'keep': True},
                             'env': {'TMPDIR': str(st)}})
                meta.append((cls, fault, given, st))
    outs = sub.run_jobs(ctx, jobs)
    traces = []
    for (cls, fault, given, st), o in zip(meta, outs):
        left = sorted(x for x in os.listdir(st) if not x.startswith('pymp-'))
        left += [f'scratch/{x}' for x in o.get('scratch_left', [])]
        left += [f'out/{x}' for x in o.get('out_listing', []) if x not in ('res.json', 'log.txt', 'res.h5', 'res.csv')
                 and not x.startswith('run_0')]
        d = pathlib.Path(o['dir'])
        logp = d / 'out' / 'log.txt'
        t = {'given': given, 'fault': fault, 'outcome': 'done' if o['ok'] else 'raised', 'left': left,
             'log': logp.exists() and logp.stat().st_size > 0, 'results': bool(o.get('has_results')), 'events': [0]}
        ctx.count({'cls': cls, 'given': given, 'scn': jobs[len(traces)]['job']['scn']}, nontrivial=fault != 'none')
        traces.append(t)
        shutil.rmtree(d, ignore_errors=True)
    vs = validate(ctx, 'MapLifecycle_Trace', traces, 'MapLifecycle_Trace', cfg='MapLifecycle_Trace.cfg')
    rej = 0
    for (cls, fault, given, st), t, o, v in zip(meta, traces, outs, vs):
        if not v['accepted']:
            rej += 1
            ctx.report(f'clause:{v["inv"]}:{cls}', f'{CL.get(v["inv"], v["inv"])} - run class {cls}, scratch directory '
                       f'{"configured" if given else "not configured"}: {json.dumps({k: t[k] for k in ("outcome", "left", "log", "results")})} '
                       f'error={o.get("error")}', {'cls': cls, 'given': given})
    ctx.part('decided', runs=len(traces), rejected=rej, raised=sum(1 for t in traces if t['outcome'] == 'raised'),
             classes=sorted(CLASSES))
    if traces:
        ctx.sample({'run': {k: traces[1][k] for k in ('given', 'fault', 'outcome', 'left', 'log', 'results')}})
        st = []
        for i, t in enumerate(traces[:12]):
            t2 = copy.deepcopy(t)
            if i % 3 == 0:
                t2['left'] = ['cell_type_mapper_x']
            elif i % 3 == 1:
                t2['outcome'] = 'done' if t2['outcome'] == 'raised' else 'raised'
            else:
                t2['results'] = not t2['results']
            st.append(t2)
        sv = validate(ctx, 'MapLifecycle_Trace', st, 'selftest', cfg='MapLifecycle_Trace.cfg', counts_as_impl=False)
        acc = sum(1 for v in sv if v['accepted'])
        ctx.cov['selftest'] = {'corrupted': len(st), 'rejected': len(st) - acc}
        if acc:
            raise MachineryError('self-test: corrupted life-cycle observations accepted')


def replay(ctx, path):
    case = json.load(open(pathlib.Path(path) / 'replay.json'))['case']
    print(json.dumps(case))
    ctx.count(case)
