"""C01 - every query cell gets one complete, ordered, tree-consistent assignment.

1. MC   : MapRun_MC - every small tree shape x drop/flatten x cells x chunk size x workers,
          votes abstracted; C01 as invariant (FinalErr(ExpectedRecs)=0), PathInv, NoStuck.
2. S->C : the initial states of that model are emitted as scenarios and replayed into the real
          mapper (all encodings, three naming schemes); the runs' traces are validated by
          MapRun_Trace (clauses 1xx).
3. C->S : random larger runs (<=4 levels, <=8 leaves, <=30 cells) validated the same way.
"""
import json
import random

from harness import maptrace
from harness.campaign import campaign, report_for
from harness.tlc import run_tlc, MachineryError

PID = 'C01'


def mc_cfg(L, lv, nc, cs, P, B, K, spec='Spec', inv=True):
    s = (f'SPECIFICATION {spec}\nCONSTANTS MaxLevels = {L} MaxLeaves = {lv} MaxCells = {nc} '
         f'MaxChunk = {cs} MaxP = {P} BB = {B} KK = {K}\nCHECK_DEADLOCK FALSE\n')
    if inv:
        s += ''.join(f'INVARIANT {i}\n' for i in ('TypeOK', 'PathInv', 'VotesInv', 'C01Holds', 'NoStuck'))
    else:
        s += 'CONSTRAINT Emit\n'
    return s


def emitted_scenarios(ctx, L, lv, nc, cs, P):
    res = run_tlc('MapRun_MC', cfg_text=mc_cfg(L, lv, nc, cs, P, 2, 1, 'GenSpec', inv=False),
                  workers=1, timeout=1800)
    ctx.add_tlc('MapRun_MC_gen', res)
    seen, out = set(), []
    for t in res.tuples('SCN'):
        if t[1] not in seen:
            seen.add(t[1])
            out.append(json.loads(t[1]))
    return out


def fill(rng, e):
    """turn an emitted (tree, drop, flat, ncell, chunk, P) into a full scenario: separable
    integer centroids, a marker table that lists the root only (fallback everywhere else)."""
    tj = dict(e['tree'])
    tj['cells'] = [[n, []] for n in tj['nodes'][-1]]
    scn = maptrace.gen_scenario(rng, tree=tj, ncell=e['ncell'],
                                cfg={'chunk': e['chunk'], 'P': e['P'], 'flatten': e['flat'],
                                     'drop': e['drop'] or None})
    if rng.random() < 0.5:
        scn['markers'] = {'0/0': scn['markers']['0/0']}
    return scn


def run(ctx):
    quick = ctx.tier == 'quick'
    rng = random.Random(ctx.seed + 1)
    ctx.cov['rule'] = (
        'scenario = (tree shape, drop/flatten, n cells, chunk size, workers) emitted by TLC from the '
        'initial states of MapRun_MC, filled with random integer centroids / query / marker table '
        '(root always usable) and run through the real mapper; plus random larger runs. A run is '
        'non-trivial when it has >1 cell or >1 level; distinct by canonical JSON of the scenario. '
        'Every run is validated as a behaviour of MapRun by TLC (clauses 1xx = C01).')
    ctx.cov['trusted_base'] = ['TLC 1.8', 'harness projection of JSON output and hook events']
    if ctx.only in (None, 'mc'):
        dims = (3, 3, 2, 2, 2, 2, 1) if quick else (3, 4, 3, 3, 2, 2, 1)
        res = run_tlc('MapRun_MC', cfg_text=mc_cfg(*dims), timeout=7200)
        ctx.add_tlc('MapRun_MC', res)
        if not res.ok:
            raise MachineryError('MapRun_MC: design invariant violated:\n' + res.error_trace)
        ctx.part('mc', dims=str(dims), distinct=res.distinct, exhaustive=True)
    results = []
    if ctx.only in (None, 's2c'):
        em = emitted_scenarios(ctx, 3, 4, 4, 5, 3)
        ctx.part('s2c', emitted=len(em))
        if quick:
            em = rng.sample(em, 160)
        else:
            ctx.cov['exhaustive'] = True
        scns = [fill(rng, e) for e in em]
        results += campaign(ctx, scns, 'MapRun_Trace_s2c')
    if ctx.only in (None, 'c2s'):
        n = 60 if quick else 600
        scns = [maptrace.gen_scenario(rng, max_levels=4, max_leaves=8, ncell=rng.randint(1, 30))
                for _ in range(n)]
        # runs of 91..140 cells in chunks of 3..9: more than ten chunks, so that the per-chunk result files
        # (named by their row range) do not sort into row order - only the first and last stay in place
        for i in range(4 if quick else 40):
            ch = rng.randint(3, 9)
            nc = rng.randint(91, 140)
            if i % 2 == 0:
                # ... and the last chunk starts at a row in 90..99, the alphabetically last range
                start = rng.choice([s0 for s0 in range(90, 100) if s0 % ch == 0])
                nc = start + rng.randint(1, ch)
            scns.append(maptrace.gen_scenario(rng, max_levels=3, max_leaves=5, ncell=nc,
                                              cfg={'chunk': ch, 'P': rng.randint(2, 3)}))
        results += campaign(ctx, scns, 'MapRun_Trace_c2s')
        accepted_but_refused(ctx, rng)
    nviol, blocked = report_for(ctx, results, PID)
    failed = sum(1 for r in results if not r['ok'])
    for r in results:
        s = r['scn']
        ctx.count(s, nontrivial=len(s['cells']) > 1 or len(s['tree']['hier']) > 1)
    if results:
        r = results[0]
        ctx.sample({'scenario': r['scn'], 'events': r['trace']['events'][:3], 'verdict': r['verdict']})
    ctx.part('runs', total=len(results), failed_runs=failed, blocked_by_other_property=blocked,
             accepted=sum(1 for r in results if r['verdict']['accepted']))


def replay(ctx, path):
    import pathlib
    case = json.load(open(pathlib.Path(path) / 'replay.json'))['case']
    results = campaign(ctx, [case['scn']], 'replay', schemes=[case['scheme']], jobs=1)
    report_for(ctx, results, ctx.pid)
    ctx.count(case['scn'])
    ctx.sample({'verdict': results[0]['verdict'], 'clauses': [c[:3] for c in results[0]['clauses']]})


def accepted_but_refused(ctx, rng):
    """two kinds of taxonomy that the tree validator accepts and that cannot be mapped (known findings F25, F26): a
    non-leaf node without children, a level called 'cell_id'"""
    import copy
    import warnings
    from harness import build, maptrace
    from cell_type_mapper.taxonomy.taxonomy_tree import TaxonomyTree
    from harness import taxo
    scn = None
    for _ in range(200):
        scn = maptrace.gen_scenario(rng, max_levels=3, max_leaves=5, min_leaves=3, G=6, ncell=4,
                                    cfg={'drop': None, 'flatten': False, 'enc': 'dense'})
        if len(scn['tree']['hier']) >= 2 and len(scn['tree']['nodes'][0]) > 1 and scn['tree']['hier'][0] == 1:
            break
    wd = str(ctx.tmpdir('c01_special_'))
    # (i) an extra top-level node without children
    s1 = copy.deepcopy(scn)
    t = s1['tree']
    new = max(t['nodes'][0]) + 1
    t['nodes'][0].append(new)
    t['kids'][0].append([new, []])
    with warnings.catch_warnings():
        warnings.simplefilter('ignore')
        try:
            TaxonomyTree(data=taxo.dict_from_tree(t, taxo.Naming('structural')))
            acc = True
        except Exception:                                   # noqa
            acc = False
        r = build.run_scenario(s1, wd) if acc else None
    ctx.count({'special': 'childless_internal_node', 'scn': s1}, nontrivial=True)
    if acc and not r['ok']:
        sig = 'map:childless-internal-node' if 'marker cache is missing' in (r['error'] or '') else 'map:childless-internal-node:other'
        ctx.report(sig, f'a taxonomy the validator accepts (a top-level node without children) is not mapped: {r["error"]}',
                   {'scn': s1, 'scheme': 'structural'})
    # (ii) a level called 'cell_id'
    with warnings.catch_warnings():
        warnings.simplefilter('ignore')
        try:
            TaxonomyTree(data=taxo.dict_from_tree(scn['tree'], taxo.Naming('cellid')))
            acc = True
        except Exception:                                   # noqa
            acc = False
        r = build.run_scenario(scn, wd, scheme='cellid') if acc else None
    ctx.count({'special': 'level_named_cell_id', 'scn': scn}, nontrivial=True)
    if acc and not r['ok']:
        txt = (r['error'] or '') + (r.get('traceback') or '') + (r.get('stdout') or '')
        sig = 'map:level-named-cell_id' if "does not support item assignment" in txt or 'exited with code' in txt else 'map:level-named-cell_id:other'
        ctx.report(sig, f'a taxonomy the validator accepts (a level called cell_id) is not mapped: {r["error"]}',
                   {'scn': scn, 'scheme': 'cellid'})
    ctx.part('special', accepted_but_refused_cases=2)

