"""C09 - reference statistics equal direct computation and are additive.

1. MC   : Stats_MC - every small dataset (values, labels incl. unlabelled cells and one-cell
          clusters, split into files) x chunk size x worker count: the sum of the workers' partial
          accumulators equals the direct definition, the work split is an ordered partition of the
          chunks into at most P lists, collapsing the hierarchy equals the statistics of the coarse
          labels.
2. C->S : random datasets (integer log2(CPM+1) values, so sums are exact) written as 1-3 h5ad files
          in mixed encodings are pushed through the real stage with random chunk sizes and worker
          counts; the written file (addressed through its own cluster / gene tables), the WorkSplit
          hook event, the collapsed file (truncate_precomputed_stats_file) and the merge of two
          per-dataset files are validated by Stats_Trace.  Raw-count references are compared with
          a float64 recomputation (numeric leaf, 1e-9).
"""
import concurrent.futures as cf
import json
import os
import pathlib
import random
import shutil
import tempfile
import warnings

import anndata
import h5py
import numpy as np
import pandas as pd
import scipy.sparse as sp

from harness import build
from harness.tlc import run_tlc, MachineryError
from harness.traces import validate

PID = 'C09'
CL = {901: 'work split differs from the rule (a chunk in two lists / missing / out of order / too many workers)',
      902: 'number of member cells differs', 903: 'sum or sum of squares differs',
      904: 'count of cells above 0 / above 1 / at least 1 CPM differs',
      905: 'collapsed (coarser) hierarchy differs from the statistics of the coarse labels',
      907: 'collapse over two levels (direct or chained through the intermediate file) differs',
      906: 'merged file does not keep, per cluster, the row of the dataset with the most cells',
      910: 'taxonomy stored in the statistics file differs from the input taxonomy',
      911: 'raw-count statistics differ from the float64 recomputation', 912: 'stage raised'}


def gen_dataset(rng, raw=False):
    n = rng.randint(2, 14)
    NCl = rng.randint(1, 4)
    NG = rng.randint(1, 3)
    NF = rng.randint(1, 3)
    lab = [rng.choice([0] + list(range(1, NCl + 1)) * 3) for _ in range(n)]
    for k in range(1, NCl + 1):          # every cluster has at least one cell
        if k not in lab:
            lab[rng.randrange(n)] = k
    for k in range(1, NCl + 1):
        if k not in lab:
            return gen_dataset(rng, raw)
    vmax = 40 if raw else 4
    cells = [{'vec': [rng.randint(0, vmax) for _ in range(NG)], 'lab': lab[i], 'fil': rng.randint(1, NF)}
             for i in range(n)]
    if raw:
        for c in cells:
            if rng.random() < 0.4:
                c['vec'][rng.randrange(NG)] = rng.randint(2000, 6000)      # a highly expressed gene
        if rng.random() < 0.3:
            # fractional "counts" whose total per cell lies strictly between 0 and 1 (stored as floating point)
            for c in rng.sample(cells, max(1, len(cells) // 3)):
                c['vec'] = [rng.choice([0, 0.0625, 0.125, 0.25]) for _ in range(NG)]
                if sum(c['vec']) == 0:
                    c['vec'][0] = 0.125
        if NG >= 2 and rng.random() < 0.5:
            # one count in a cell of 999 999 counts: 1.000001 CPM, just above the "more than 1 CPM" threshold
            c = rng.choice(cells)
            c['vec'] = [0] * NG
            c['vec'][0], c['vec'][1] = 999998, 1
    par = [rng.randint(1, 2) for _ in range(NCl)]
    ds = {'NF': NF, 'R': rng.randint(1, 6), 'P': rng.randint(1, 4), 'NCl': NCl, 'NG': NG, 'cells': cells,
            'par': par, 'raw': raw, 'enc': [rng.choice(['dense', 'csr', 'csc']) for _ in range(NF)],
            # three-level variant: class K -> super class par2[K-1]; class and super-class names are chosen
            # so that the order in which they are met walking the tree is not their alphabetical order
            'par2': [rng.randint(1, 2), rng.randint(1, 2)] if rng.random() < 0.5 else None,
            # stage the inputs in scratch first (copy_data_over); the files then share one base name in
            # different directories
            'copy_over': rng.random() < 0.3,
            # numeric type of the stored counts (raw input): 32-bit integers with counts in the thousands
            'dtype': rng.choice(['float64', 'float32', 'int32', 'uint32', 'int64']) if raw else 'float64'}
    if raw and any(v != int(v) for c in cells for v in c['vec']):
        ds['dtype'] = rng.choice(['float64', 'float32'])      # fractional values need a floating-point file
    return ds


def _write_files(ds, d, which=None, reverse=False):
    paths = []
    for f in range(1, ds['NF'] + 1):
        idx = [i for i, c in enumerate(ds['cells']) if c['fil'] == f and (which is None or i in which)]
        if not idx:
            continue
        if reverse:
            idx = idx[::-1]
        X = np.array([ds['cells'][i]['vec'] for i in idx], dtype=ds.get('dtype', 'float64')).reshape((len(idx), ds['NG']))
        enc = ds['enc'][f - 1]
        M = sp.csr_matrix(X) if enc == 'csr' else sp.csc_matrix(X) if enc == 'csc' else X
        obs = pd.DataFrame(index=pd.Index([f'cell{i + 1}' for i in idx], name='cell_id'))
        var = pd.DataFrame(index=pd.Index([f'g{g + 1}' for g in range(ds['NG'])], name='gene'))
        if ds.get('copy_over'):
            os.makedirs(os.path.join(d, f'set{f}'), exist_ok=True)
            p = os.path.join(d, f'set{f}', 'expression.h5ad')
        else:
            p = os.path.join(d, f'f{f}.h5ad')
        anndata.AnnData(X=M, obs=obs, var=var).write_h5ad(p)
        paths.append(p)
    return paths


def _tree(ds, which=None):
    classes = sorted(set(ds['par']))
    t = {'hierarchy': ['class', 'cluster'],
         'class': {_K(K): [f'k{k + 1}' for k in range(ds['NCl']) if ds['par'][k] == K] for K in classes},
         'cluster': {f'k{k}': [f'cell{i + 1}' for i, c in enumerate(ds['cells'])
                               if c['lab'] == k and (which is None or i in which)]
                     for k in range(1, ds['NCl'] + 1)}}
    if ds.get('par2'):
        t['hierarchy'] = ['sup', 'class', 'cluster']
        t['sup'] = {}
        for K in classes:
            t['sup'].setdefault(_U(ds['par2'][K - 1]), []).append(_K(K))
    return t


def _K(K):
    return {1: 'Kz', 2: 'Ka'}[K]       # met in the order Kz, Ka: not alphabetical


def _U(U):
    return {1: 'Uq', 2: 'Ub'}[U]


def _permuted_copy(src, dst, rng):
    """the same statistics with the rows stored in another order (its own cluster_to_row says which)"""
    shutil.copy(src, dst)
    with h5py.File(dst, 'a') as f:
        c2r = json.loads(f['cluster_to_row'][()].decode())
        names = sorted(c2r)
        perm = list(range(len(names)))
        rng.shuffle(perm)
        new = {nm: perm[c2r[nm]] for nm in names}
        for k in ('n_cells', 'sum', 'sumsq', 'gt0', 'gt1', 'ge1'):
            a = f[k][()]
            b = np.zeros_like(a)
            for nm in names:
                b[new[nm]] = a[c2r[nm]]
            f[k][...] = b
        del f['cluster_to_row']
        f.create_dataset('cluster_to_row', data=json.dumps(new).encode('utf-8'))


def _read_stats(path, names, genes):
    with h5py.File(path, 'r') as f:
        c2r = json.loads(f['cluster_to_row'][()].decode())
        cols = json.loads(f['col_names'][()].decode())
        arr = {k: f[k][()] for k in ('n_cells', 'sum', 'sumsq', 'gt0', 'gt1', 'ge1')}
        tree = json.loads(f['taxonomy_tree'][()].decode())
    out = []
    for nm, kid in names:
        r = c2r[nm]
        for gi, g in enumerate(genes):
            ci = cols.index(g)
            out.append({'id': kid, 'g': gi + 1, 'n': int(arr['n_cells'][r]), 'sum': float(arr['sum'][r, ci]),
                        'sumsq': float(arr['sumsq'][r, ci]), 'gt0': int(arr['gt0'][r, ci]),
                        'gt1': int(arr['gt1'][r, ci]), 'ge1': int(arr['ge1'][r, ci])})
    return out, tree


def _case(args):
    ds, wd = args
    from cell_type_mapper.diff_exp.precompute_from_anndata import precompute_summary_stats_from_h5ad_list_and_tree
    from cell_type_mapper.diff_exp.truncate_precompute import truncate_precomputed_stats_file
    from cell_type_mapper.diff_exp.precompute_utils import merge_precompute_files
    from cell_type_mapper.taxonomy.taxonomy_tree import TaxonomyTree
    d = tempfile.mkdtemp(dir=wd)
    issues = []
    rec = None
    try:
        os.environ['CELL_TYPE_MAPPER_VERIF_DIR'] = d
        os.makedirs(os.path.join(d, 'scratch'))
        paths = _write_files(ds, d)
        tree = _tree(ds)
        out = os.path.join(d, 'stats.h5')
        genes = [f'g{g + 1}' for g in range(ds['NG'])]
        with warnings.catch_warnings(), build.redirect_fds(os.path.join(d, 'stdio.txt')):
            warnings.simplefilter('ignore')
            precompute_summary_stats_from_h5ad_list_and_tree(
                data_path_list=paths, taxonomy_tree=TaxonomyTree(data=tree), output_path=out,
                rows_at_a_time=ds['R'], normalization='raw' if ds['raw'] else 'log2CPM',
                tmp_dir=os.path.join(d, 'scratch'), n_processors=ds['P'], copy_data_over=bool(ds.get('copy_over')))
            stats, tree_out = _read_stats(out, [(f'k{k}', k) for k in range(1, ds['NCl'] + 1)], genes)
            tree_out.pop('metadata', None)
            if tree_out != tree:
                issues.append((910, 'stored taxonomy differs from the input taxonomy'))
            # the same cells written again AT THE SAME PATHS in reverse row order: same statistics
            _write_files(ds, d, reverse=True)
            out_b = os.path.join(d, 'stats_b.h5')
            precompute_summary_stats_from_h5ad_list_and_tree(
                data_path_list=paths, taxonomy_tree=TaxonomyTree(data=tree), output_path=out_b,
                rows_at_a_time=ds['R'], normalization='raw' if ds['raw'] else 'log2CPM',
                tmp_dir=os.path.join(d, 'scratch'), n_processors=ds['P'])
            stats_b, _ = _read_stats(out_b, [(f'k{k}', k) for k in range(1, ds['NCl'] + 1)], genes)
            stats = stats + stats_b
            # several files, one of them listing the same genes in another order (columns moved with the names): the
            # statistics are those per gene NAME - or the input is refused
            if len(paths) >= 2 and ds['NG'] >= 2:
                import anndata
                a_ = anndata.read_h5ad(paths[-1])
                order_ = list(range(a_.n_vars))
                order_ = order_[1:] + order_[:1]
                a_ = a_[:, order_].copy()
                a_.write_h5ad(paths[-1])
                out_c = os.path.join(d, 'stats_c.h5')
                try:
                    precompute_summary_stats_from_h5ad_list_and_tree(
                        data_path_list=paths, taxonomy_tree=TaxonomyTree(data=tree), output_path=out_c,
                        rows_at_a_time=ds['R'], normalization='raw' if ds['raw'] else 'log2CPM',
                        tmp_dir=os.path.join(d, 'scratch'), n_processors=ds['P'])
                    stats_c, _ = _read_stats(out_c, [(f'k{k}', k) for k in range(1, ds['NCl'] + 1)], genes)
                    stats = stats + stats_c
                except RuntimeError:
                    pass
                _write_files(ds, d, reverse=True)
            cnames = [(_K(K), K) for K in sorted(set(ds['par']))]
            three = bool(ds.get('par2'))
            keep = ['sup', 'class'] if three else ['class']
            coarse_out = os.path.join(d, 'coarse.h5')
            truncate_precomputed_stats_file(out, coarse_out, keep)
            coarse, _ = _read_stats(coarse_out, cnames, genes)
            # the same collapse from a file whose rows are stored in another order
            prng = random.Random(len(ds['cells']) * 7 + ds['R'])
            perm_in = os.path.join(d, 'perm.h5')
            _permuted_copy(out, perm_in, prng)
            perm_out = os.path.join(d, 'coarse_perm.h5')
            truncate_precomputed_stats_file(perm_in, perm_out, keep)
            coarse += _read_stats(perm_out, cnames, genes)[0]
            coarse2 = []
            if three:
                unames = [(_U(U), U) for U in sorted(set(ds['par2'][K - 1] for K in set(ds['par'])))]
                for src in (out, coarse_out, perm_out):      # directly and chained through the class level
                    so = os.path.join(d, 'sup_' + os.path.basename(src))
                    truncate_precomputed_stats_file(src, so, ['sup'])
                    coarse2 += _read_stats(so, unames, genes)[0]
                truncate_precomputed_stats_file(out, os.path.join(d, 'cl_only.h5'), ['class'])
                coarse += _read_stats(os.path.join(d, 'cl_only.h5'), cnames, genes)[0]
            # merge of two per-dataset files: cells with even / odd index
            merged = []
            if not ds['raw'] and len(ds['cells']) >= 4:
                halves = []
                ok = True
                for h, which in enumerate([set(range(0, len(ds['cells']), 2)), set(range(1, len(ds['cells']), 2))]):
                    hd = os.path.join(d, f'half{h}')
                    os.makedirs(hd)
                    hp = _write_files(ds, hd, which)
                    ht = _tree(ds, which)
                    if not hp or not any(ds['cells'][i]['lab'] > 0 for i in which):
                        ok = False          # a half without a single labelled cell is not a reference dataset
                        break
                    ho = os.path.join(d, f'half{h}.h5')
                    precompute_summary_stats_from_h5ad_list_and_tree(
                        data_path_list=hp, taxonomy_tree=TaxonomyTree(data=ht), output_path=ho,
                        rows_at_a_time=ds['R'], normalization='log2CPM', tmp_dir=os.path.join(d, 'scratch'),
                        n_processors=1)
                    halves.append(ho)
                if ok:
                    mo = os.path.join(d, 'merged.h5')
                    merge_precompute_files(list(halves), mo)
                    names = [(f'k{k}', k) for k in range(1, ds['NCl'] + 1)]
                    m, _ = _read_stats(mo, names, genes)
                    a, _ = _read_stats(halves[0], names, genes)
                    b, _ = _read_stats(halves[1], names, genes)
                    for x, y, z in zip(m, a, b):
                        merged.append({'k': x['id'], 'g': x['g'], 'n': x['n'], 'sum': int(x['sum']),
                                       'n1': y['n'], 'sum1': int(y['sum']), 'n2': z['n'], 'sum2': int(z['sum'])})
        evs = [e for v in build.read_traces(d).values() for e in v if e['ev'] == 'WorkSplit']
        split = []
        if evs and not ds.get('copy_over'):      # staged copies carry scratch names: the split is not projected
            for load in evs[0]['work_load']:
                split.append([[int(c[0][1:].split('.')[0]), c[1], c[2]] for c in load])
        left = [x for x in os.listdir(os.path.join(d, 'scratch'))]
        if left:
            issues.append((913, f'scratch left: {left}'))
        if ds['raw']:
            # numeric leaf: float64 recomputation
            for s in stats:
                mem = [c for c in ds['cells'] if c['lab'] == s['id']]
                vals = []
                for c in mem:
                    tot = sum(c['vec'])
                    vals.append(np.log2(1.0 + 1e6 * c['vec'][s['g'] - 1] / (tot if tot > 0 else 1.0)))
                vals = np.array(vals)
                want = (len(mem), vals.sum(), (vals ** 2).sum(), int((vals > 0).sum()), int((vals > 1).sum()),
                        int((vals > 1 - 1e-6).sum()))
                got = (s['n'], s['sum'], s['sumsq'], s['gt0'], s['gt1'], s['ge1'])
                # "sums to rounding": a matrix stored in single precision is normalised in single precision
                tol = 1e-5 if ds.get('dtype') == 'float32' else 1e-9
                if got[0] != want[0] or got[3:] != want[3:] or abs(got[1] - want[1]) > tol * max(1, abs(want[1])) \
                        or abs(got[2] - want[2]) > tol * max(1, abs(want[2])):
                    issues.append((911, f'cluster {s["id"]} gene {s["g"]}: {got} vs {want}'))
            rec = {'NF': ds['NF'], 'R': ds['R'], 'P': ds['P'], 'NCl': ds['NCl'], 'NG': ds['NG'],
                   'cells': ds['cells'], 'split': split, 'stats': [], 'coarse': [], 'par': ds['par'], 'merged': [],
                   'coarse2': [], 'par2': ds.get('par2') or [1, 1]}
        else:
            def ints(rows, key):
                out_ = []
                for s in rows:
                    if s['sum'] != int(s['sum']) or s['sumsq'] != int(s['sumsq']):
                        issues.append((903, f'non-integer sum for integer data: {s}'))
                    out_.append({key: s['id'], 'g': s['g'], 'n': s['n'], 'sum': int(s['sum']),
                                 'sumsq': int(s['sumsq']), 'gt0': s['gt0'], 'gt1': s['gt1'], 'ge1': s['ge1']})
                return out_
            rec = {'NF': ds['NF'], 'R': ds['R'], 'P': ds['P'], 'NCl': ds['NCl'], 'NG': ds['NG'],
                   'cells': ds['cells'], 'split': split, 'stats': ints(stats, 'k'), 'coarse': ints(coarse, 'K'),
                   'par': ds['par'], 'merged': merged, 'coarse2': ints(coarse2, 'U'),
                   'par2': ds.get('par2') or [1, 1]}
    except Exception as e:
        import traceback
        issues.append((912, f'{type(e).__name__}: {e} | {traceback.format_exc()[-600:]}'))
    finally:
        shutil.rmtree(d, ignore_errors=True)
    return rec, issues


def _wide_merge_case(args):
    """two per-dataset files of 37 clusters x 3001 genes (more than 100 000 numbers per array, stored in the chunks the
    statistics stage uses) merged: every cluster keeps the complete row of the dataset with the most cells"""
    seed, wd = args
    import h5py
    from cell_type_mapper.diff_exp.precompute import _create_empty_stats_file
    from cell_type_mapper.diff_exp.precompute_utils import merge_precompute_files
    rng = random.Random(seed)
    d = tempfile.mkdtemp(dir=wd)
    issues, merged = [], []
    try:
        K, G = rng.randint(33, 41), rng.randint(2900, 3100)
        names = [f'cl{k:02d}' for k in range(K)]
        order = list(range(K))
        rng.shuffle(order)
        c2r = {names[k]: order[k] for k in range(K)}
        tree = {'hierarchy': ['cluster'], 'cluster': {n_: [] for n_ in names}}
        genes = [f'g{j}' for j in range(G)]
        files, data = [], []
        for f_ in range(2):
            pth = os.path.join(d, f'dataset_{f_}.h5')
            _create_empty_stats_file(pth, c2r, K, G, col_names=genes)
            n = np.array([rng.randint(0, 9) for _ in range(K)])
            arrs = {}
            with h5py.File(pth, 'a') as h:
                h.create_dataset('taxonomy_tree', data=json.dumps(tree).encode())
                h.create_dataset('metadata', data=json.dumps({'dataset': f_}).encode())
                h['n_cells'][:] = n
                for key in ('sum', 'sumsq', 'gt0', 'gt1', 'ge1'):
                    a = (1 + (np.arange(K)[:, None] * 7 + np.arange(G)[None, :] * 3 + 11 * f_) % 97 + 1000 * f_)
                    a = a.astype(h[key].dtype)
                    h[key][:, :] = a
                    arrs[key] = a
            files.append(pth)
            data.append((n, arrs))
        mo = os.path.join(d, 'merged.h5')
        merge_precompute_files(list(files), mo)
        with h5py.File(mo, 'r') as h:
            mn = h['n_cells'][()]
            marr = {key: h[key][()] for key in ('sum', 'sumsq', 'gt0', 'gt1', 'ge1')}
            mc2r = json.loads(h['cluster_to_row'][()].decode())
        if mc2r != c2r:
            issues.append((906, 'row table of the merged file differs from the datasets\' table'))
        for k in range(K):
            r = c2r[names[k]]
            for g in (0, 1, G // 2, G - 1):
                merged.append({'k': k + 1, 'g': g + 1, 'n': int(mn[r]), 'sum': int(marr['sum'][r, g]),
                               'n1': int(data[0][0][r]), 'sum1': int(data[0][1]['sum'][r, g]),
                               'n2': int(data[1][0][r]), 'sum2': int(data[1][1]['sum'][r, g])})
            # the whole row, every array: equal to the row of a dataset with the maximal number of cells
            cands = [f_ for f_ in range(2) if data[f_][0][r] == max(data[0][0][r], data[1][0][r])]
            if not any(all(np.array_equal(marr[key][r], data[f_][1][key][r]) for key in marr) for f_ in cands):
                bad = [key for key in marr if not any(np.array_equal(marr[key][r], data[f_][1][key][r]) for f_ in cands)]
                issues.append((906, f'{K} clusters x {G} genes: the merged row of cluster {names[k]} (row {r}) is not the complete '
                                    f'row of the dataset with the most cells in {bad}'))
                break
    except Exception as e:
        import traceback
        issues.append((912, f'{type(e).__name__}: {e} | {traceback.format_exc()[-400:]}'))
    finally:
        shutil.rmtree(d, ignore_errors=True)
    rec = {'NF': 1, 'R': 1, 'P': 1, 'NCl': 0, 'NG': 1, 'cells': [], 'split': [], 'stats': [], 'coarse': [], 'par': [],
           'merged': merged, 'coarse2': [], 'par2': [1, 1]}
    return rec, issues


def run(ctx):
    quick = ctx.tier == 'quick'
    rng = random.Random(ctx.seed + 9)
    ctx.assumptions += ['"at least 1 CPM" is counted as the code counts it, log2(CPM+1) > 1 - 1e-6: a cell at 0.999999 CPM is '
                        'counted (the tolerance is the code\'s own, mirrored by the numeric leaf of the harness)']
    ctx.cov['rule'] = ('one case = one random dataset (2-14 cells, 1-4 clusters incl. one-cell clusters and '
                       'unlabelled cells, 1-3 genes, 1-3 files in mixed encodings) x chunk size x worker count, run '
                       'through the real stage + collapse + merge; non-trivial = at least two clusters or files; '
                       'distinct by canonical JSON of the dataset.')
    ctx.cov['trusted_base'] = ['TLC 1.8', 'numpy float64 log2 for the raw-count leaf']
    if ctx.only in (None, 'mc'):
        dims = (3, 2, 2, 2, 3, 3) if quick else (4, 2, 2, 2, 3, 3)
        cfg = ('SPECIFICATION Spec\nCONSTANTS NCells = %d NCl = %d NF = %d V = %d MaxR = %d MaxP = %d\n' % dims +
               'INVARIANT MergedIsDirect\nINVARIANT Partition\nINVARIANT TruncationIsCoarse\nCHECK_DEADLOCK FALSE\n')
        res = run_tlc('Stats_MC', cfg_text=cfg, timeout=7200)
        ctx.add_tlc('Stats_MC', res)
        if not res.ok:
            raise MachineryError(res.error_trace)
    if ctx.only in (None, 'c2s'):
        wd = str(ctx.tmpdir('c09_'))
        n = 60 if quick else 2000
        dss = [gen_dataset(rng, raw=(i % 5 == 4)) for i in range(n)]
        with cf.ProcessPoolExecutor(max_workers=10) as ex:
            outs = list(ex.map(_case, [(ds, wd) for ds in dss], chunksize=2))
        recs, owners = [], []
        # merges of arrays of more than 100 000 numbers (the copy of the base file then runs in several blocks)
        wjobs = [(ctx.seed * 100 + i, wd) for i in range(1 if quick else 6)]
        with cf.ProcessPoolExecutor(max_workers=3) as ex:
            wouts = list(ex.map(_wide_merge_case, wjobs))
        for job, (rec, issues) in zip(wjobs, wouts):
            ctx.count({'wide_merge': job[0]}, nontrivial=True)
            for code, msg in issues[:2]:
                ctx.report(f'clause:{code}', f'{CL.get(code, code)}: {msg}', {'wide_merge': job[0]})
            rec['events'] = [0]
            recs.append(rec)
            owners.append({'wide_merge': job[0]})
        for ds, (rec, issues) in zip(dss, outs):
            ctx.count({'ds': ds}, nontrivial=ds['NCl'] > 1 or ds['NF'] > 1)
            for code, msg in issues[:2]:
                ctx.report(f'clause:{code}', f'{CL.get(code, code)}: {msg}', {'dataset': ds})
            if rec is not None:
                rec['events'] = [0]
                recs.append(rec)
                owners.append(ds)
        vs = validate(ctx, 'Stats_Trace', recs, 'Stats_Trace')
        rej = 0
        for ds, v in zip(owners, vs):
            if not v['accepted']:
                rej += 1
                ctx.report(f'clause:{v["inv"]}', f'{CL.get(v["inv"], v["inv"])}', ds if 'wide_merge' in ds else {'dataset': ds})
        ctx.sample({'dataset': dss[0], 'observed': {k: recs[0][k] for k in ('split', 'stats')} if recs else None})
        ctx.part('c2s', datasets=len(dss), validated=len(recs), rejected=rej,
                 raw=sum(1 for d in dss if d['raw']), merges=sum(1 for r in recs if r['merged']))
        # binding self-test
        import copy
        st = []
        for r in recs[:40]:
            if r['stats'] and len(st) < 20:
                r2 = copy.deepcopy(r)
                r2['stats'][0]['ge1'] += 1
                st.append(r2)
        if st:
            sv = validate(ctx, 'Stats_Trace', st, 'selftest', counts_as_impl=False)
            acc = sum(1 for v in sv if v['accepted'])
            ctx.cov['selftest'] = {'corrupted': len(st), 'rejected': len(st) - acc}
            if acc:
                raise MachineryError('self-test: corrupted statistics accepted')


def replay(ctx, path):
    case = json.load(open(pathlib.Path(path) / 'replay.json'))['case']
    wd = str(ctx.tmpdir('c09_'))
    if 'wide_merge' in case:
        rec, issues = _wide_merge_case((case['wide_merge'], wd))
    else:
        rec, issues = _case((case['dataset'], wd))
    for code, msg in issues:
        ctx.report(f'clause:{code}', msg, case)
    if rec:
        rec['events'] = [0]
        v = validate(ctx, 'Stats_Trace', [rec], 'replay')[0]
        if not v['accepted']:
            ctx.report(f'clause:{v["inv"]}', CL.get(v['inv']), case)
    ctx.count(case)
