"""X10 (extension suite, not one of the 20 listed statements) - the command-line runner classes (cell_type_mapper/cli),
reached through harness/argshim.py (the installed argschema and marshmallow do not fit together; the shim replaces one
hook of argschema, the package is untouched).

1. MC   : Runners_MC - (a) naming of the reference-marker files for every list of <= MaxIn statistics files: the salt
          counter that stays set, the map keyed by path text; distinct inputs get distinct names, the extension chain
          is kept, the first input is never salted (ASSUME over all lists); (b) the on-the-fly run as a state machine
          with a failure possible at every step: the private scratch directory never survives, outputs and the
          on-the-fly configuration exactly after a complete run.
2. S->C : (a) every list emitted by TLC is given to the real ReferenceMarkerRunner with pre-existing targets (files /
          directories), clobber on / off, output directory present / removed; the returned map is compared name by name;
          for some lists the runner is run for real and every written file must name the statistics file it came from
          and hold what the stage function writes.  (b) toy pipelines: the real OnTheFlyMapper against the three runners
          run one after the other (bitwise equal results and marker tables), with faults injected at each stage;
          scratch directory listing, outputs, recorded configuration, and - cloud-safe - no absolute path of the run.
   Also: the scrattch statistics runner, the query-marker runner and the truncation runner against the stage functions
   the listed checks drive (binding of harness/stages.py to the command-line bodies).
"""
import concurrent.futures as cf
import copy
import json
import os
import pathlib
import random
import re
import shutil
import tempfile
import traceback
import warnings

from harness.tlc import run_tlc, MachineryError
from harness.traces import validate

PID = 'X10'
CL = {2901: 'output naming accepted / refused against the rule', 2902: 'keys of the returned map are not the listed paths',
      2903: 'a reference-marker file name differs', 2904: 'a written file does not name / match the statistics file it came from',
      2911: 'on-the-fly run ended well / badly against the injected fault',
      2912: 'something survives in the scratch directory of the on-the-fly run',
      2913: 'outputs missing after a complete on-the-fly run',
      2914: 'recorded configuration is not the on-the-fly one',
      2915: 'on-the-fly result differs from the three stages run one by one',
      2916: 'an absolute path of the run appears in a cloud-safe output',
      2931: 'dataset labels accepted / refused against the rule', 2932: 'a dataset without a file / a file without a dataset',
      2933: 'a per-dataset file name differs', 2934: 'merged file missing or misnamed',
      2935: 'per-dataset files do not add up to the run that does not split by dataset',
      2936: 'a row of the merged file is not the row of the file the rule picks (most cells of that cluster)',
      2941: 'a back pointer resolves to another file than the rule names',
      2942: 'the query-marker stage ran / stopped against the back-pointer rule',
      2943: 'the composite runner (query markers from a p-value mask) ran / stopped against the back-pointer rule',
      2944: 'composite result differs from the two runners run one by one',
      2945: 'the composite runner left something in its scratch directory',
      2921: 'the validation runner failed on a file it must accept',
      2922: 'the valid file is not the one the rule names (written / copy of the input / the input)',
      2923: 'cells, genes or matrix of the valid file are not the expected ones',
      2924: 'recorded number of mapped genes differs'}
RESTS = {1: '.h5', 2: '.wmb.v2.h5', 3: '', 9: '.zzz'}
PATHS = {1: ('in1', 'precomputed_stats'), 2: ('in2', 'precomputed_stats'), 3: ('in1', 'other'), 4: ('in2', 's')}


def _quiet():
    import contextlib
    import io
    return contextlib.redirect_stdout(io.StringIO())


def _name(salt, rest):
    return 'reference_markers' + ('' if salt < 0 else f'.{salt}') + RESTS[rest]


def _names_case(args):
    scn, wd = args
    from harness import argshim
    argshim.install()
    from cell_type_mapper.cli.reference_markers import ReferenceMarkerRunner
    d = pathlib.Path(tempfile.mkdtemp(dir=wd))
    try:
        (d / 'in1').mkdir()
        (d / 'in2').mkdir()
        (d / 'out').mkdir()
        plist = []
        for inp in scn['inputs']:
            sub, stem = PATHS[inp['path']]
            p = d / sub / (stem + RESTS[inp['rest']])
            p.write_bytes(b'x')
            plist.append(str(p))
        for e in scn['existing']:
            t = d / 'out' / _name(e['salt'], e['rest'])
            if e['what'] == 'dir':
                t.mkdir()
            else:
                t.write_bytes(b'old')
        rec = {'kind': 'names', 'inputs': scn['inputs'], 'clobber': scn['clobber'], 'dirOK': scn['dirOK'],
               'existing': scn['existing'], 'ok': True, 'map': [], 'back': True}
        with warnings.catch_warnings(), _quiet():
            warnings.simplefilter('ignore')
            r = ReferenceMarkerRunner(args=[], input_data={
                'precomputed_path_list': plist, 'output_dir': str(d / 'out'), 'clobber': scn['clobber'],
                'tmp_dir': str(d), 'n_processors': 1, 'query_path': None})
            if not scn['dirOK']:
                shutil.rmtree(d / 'out')
            try:
                m = r.create_input_to_output_map()
            except RuntimeError as e:
                rec['ok'] = False
                rec['error'] = str(e)[:200]
                return rec, None
        inv_path = {}
        for inp, p in zip(scn['inputs'], plist):
            inv_path[p] = inp['path']
        for k, v in m.items():
            nm = pathlib.Path(v)
            mm = re.fullmatch(r'reference_markers(?:\.(\d+))?(\..*)?', nm.name)
            rest = [i for i, x in RESTS.items() if x == ((mm.group(2) or '') if mm else None)]
            rec['map'].append({'path': inv_path.get(k, -1), 'salt': int(mm.group(1)) if mm and mm.group(1) else -1,
                               'rest': rest[0] if rest and nm.parent == d / 'out' else -1})
        return rec, None
    except Exception:
        return None, traceback.format_exc()
    finally:
        shutil.rmtree(d, ignore_errors=True)


def _h5_equal(a, b, skip=('metadata',)):
    import h5py
    import numpy as np
    diffs = []
    with h5py.File(a, 'r') as fa, h5py.File(b, 'r') as fb:
        na, nb = [], []
        fa.visititems(lambda n, o: na.append(n) if isinstance(o, h5py.Dataset) else None)
        fb.visititems(lambda n, o: nb.append(n) if isinstance(o, h5py.Dataset) else None)
        if sorted(x for x in na if x not in skip) != sorted(x for x in nb if x not in skip):
            return [f'data sets differ: {sorted(set(na) ^ set(nb))}']
        for n in na:
            if n in skip:
                continue
            x, y = fa[n][()], fb[n][()]
            if n == 'taxonomy_tree':
                # the tree carries its own provenance record (time stamp, parameters): compared without it
                tx, ty = json.loads(x.decode()), json.loads(y.decode())
                tx.pop('metadata', None)
                ty.pop('metadata', None)
                if tx != ty:
                    diffs.append(n)
                continue
            if isinstance(x, np.ndarray):
                if x.shape != y.shape:
                    diffs.append(n)
                elif np.issubdtype(x.dtype, np.floating):
                    # sums of log2(CPM+1) accumulated over batches of another size: equal up to rounding
                    if not np.allclose(x, y, rtol=1e-10, atol=1e-10):
                        diffs.append(n)
                elif not np.array_equal(x, y):
                    diffs.append(n)
            elif x != y:
                diffs.append(n)
    return diffs


def _pipeline_case(args):
    """one toy reference: runners vs stage functions, on-the-fly vs staged, faults"""
    seed, wd, quick = args
    import numpy as np
    from harness import argshim, stages
    argshim.install()
    import h5py
    from cell_type_mapper.cli.reference_markers import ReferenceMarkerRunner
    from cell_type_mapper.cli.query_markers import QueryMarkerRunner
    from cell_type_mapper.cli.from_specified_markers import FromSpecifiedMarkersRunner
    from cell_type_mapper.cli.map_to_on_the_fly_markers import OnTheFlyMapper
    from cell_type_mapper.cli.precompute_stats_scrattch import PrecomputationScrattchRunner
    rng = np.random.default_rng(seed)
    prng = random.Random(seed)
    d = pathlib.Path(tempfile.mkdtemp(dir=wd))
    recs, issues = [], []
    try:
        with warnings.catch_warnings(), _quiet():
            warnings.simplefilter('ignore')
            P = prng.randint(1, 3)
            tp = stages.toy_pipeline(rng, d, n_proc=P, enc=prng.choice(['csr', 'dense', 'csc']),
                                     n_class=prng.randint(2, 3), max_sub=2, max_cl=2)
            ref = tp['ref']
            # ---- the scrattch statistics runner against the stage function the checks drive
            (d / 'cli').mkdir()
            PrecomputationScrattchRunner(args=[], input_data={
                'h5ad_path': ref['path'], 'hierarchy': stages.LEVELS, 'output_path': str(d / 'cli' / 'stats.h5'),
                'normalization': 'raw', 'tmp_dir': str(d / 'scratch'), 'n_processors': P}).run()
            df = _h5_equal(tp['stats'], d / 'cli' / 'stats.h5')
            if df:
                issues.append(('runner:stats', f'statistics runner and stage function disagree on {df}'))
            # ---- reference-marker runner, run for real: back pointer + content
            (d / 'cli' / 'refm').mkdir()
            rr = ReferenceMarkerRunner(args=[], input_data={
                'precomputed_path_list': [tp['stats']], 'output_dir': str(d / 'cli' / 'refm'), 'tmp_dir': str(d / 'scratch'),
                'n_processors': P, 'query_path': None, 'n_valid': 3, 'max_gb': 1})
            m = rr.create_input_to_output_map()
            rr.run()
            outp = m[tp['stats']]
            with h5py.File(outp, 'r') as f:
                meta = json.loads(f['metadata'][()].decode())
            back = meta.get('precomputed_path') == tp['stats']
            df = _h5_equal(tp['refm'], outp)
            recs.append({'kind': 'names', 'inputs': [{'path': 1, 'rest': 1}], 'clobber': False, 'dirOK': True, 'existing': [],
                         'ok': True, 'map': [{'path': 1, 'salt': -1, 'rest': 1}] if pathlib.Path(outp).name == 'reference_markers.h5'
                         else [{'path': 1, 'salt': 77, 'rest': 1}], 'back': bool(back and not df), 'what': f'{df}'})
            # ---- query-marker runner against the stage function
            qm_path = d / 'cli' / 'qm.json'
            QueryMarkerRunner(args=[], input_data={
                'query_path': ref['path'], 'reference_marker_path_list': [outp], 'output_path': str(qm_path),
                'n_per_utility': 2, 'n_processors': P, 'tmp_dir': str(d / 'scratch')}).run()
            lk = json.load(open(qm_path))
            a = {k: v for k, v in lk.items() if k not in ('metadata', 'log')}
            b = {k: v for k, v in tp['lookup'].items() if k not in ('metadata', 'log')}
            if a != b:
                issues.append(('runner:query-markers', f'query-marker runner and stage function disagree on '
                                                       f'{[k for k in set(a) | set(b) if a.get(k) != b.get(k)][:5]}'))
            # ---- the p-value-mask route: two runners against the two stage functions
            from cell_type_mapper.cli.compute_p_value_mask import PValueRunner
            from cell_type_mapper.cli.reference_markers_from_p_value_mask import PValueMarkersRunner
            stages.p_value_mask(tp['stats'], str(d / 'mask_fn.h5'), str(d / 'scratch'), n_proc=P, n_per=3)
            stages.markers_from_p_mask(tp['stats'], str(d / 'mask_fn.h5'), str(d / 'refm_mask_fn.h5'), str(d / 'scratch'),
                                       n_proc=P, max_gb=1, n_valid=3)
            PValueRunner(args=[], input_data={'precomputed_stats_path': tp['stats'], 'output_path': str(d / 'cli' / 'mask.h5'),
                                              'n_processors': P, 'tmp_dir': str(d / 'scratch'), 'rows_at_a_time': 3}).run()
            PValueMarkersRunner(args=[], input_data={
                'precomputed_stats_path': tp['stats'], 'p_value_mask_path': str(d / 'cli' / 'mask.h5'),
                'output_path': str(d / 'cli' / 'refm_mask.h5'), 'n_processors': P, 'tmp_dir': str(d / 'scratch'),
                'max_gb': 1, 'n_valid': 3, 'query_path': None}).run()
            for a_, b_, what in ((d / 'mask_fn.h5', d / 'cli' / 'mask.h5', 'p-value mask'),
                                 (d / 'refm_mask_fn.h5', d / 'cli' / 'refm_mask.h5', 'markers from the p-value mask')):
                df = _h5_equal(a_, b_)
                if df:
                    issues.append(('runner:p-mask', f'{what}: runner and stage function disagree on {df}'))
            with h5py.File(d / 'cli' / 'refm_mask.h5', 'r') as f:
                if json.loads(f['metadata'][()].decode()).get('precomputed_path') != tp['stats']:
                    issues.append(('runner:p-mask', 'markers from the p-value mask do not name their statistics file'))
            # ---- back pointers: the statistics file named by the p-value mask / the marker file is there, or only a file
            # of the same name next to the pointing file, or neither - with and without permission to search
            from cell_type_mapper.utils.config_utils import patch_child_to_parent
            from cell_type_mapper.cli.query_markers_from_p_value_mask import QueryMarkersFromPValueMaskRunner
            combos = [(c_, s_, a_) for c_ in (True, False) for s_ in (True, False) for a_ in (True, False)]
            if quick:
                combos = prng.sample(combos, 3)
            staged_lookup = None
            for child, search, alt in combos:
                bd = pathlib.Path(tempfile.mkdtemp(dir=d))
                (bd / 'far').mkdir()
                (bd / 'near').mkdir()
                (bd / 'tmp').mkdir()
                far_stats = bd / 'far' / 'stats.h5'
                shutil.copy(tp['stats'], far_stats)
                # mask and marker file computed from far/stats.h5, stored in near/
                PValueRunner(args=[], input_data={'precomputed_stats_path': str(far_stats), 'output_path': str(bd / 'near' / 'mask.h5'),
                                                  'n_processors': P, 'tmp_dir': str(bd / 'tmp'), 'rows_at_a_time': 3}).run()
                PValueMarkersRunner(args=[], input_data={
                    'precomputed_stats_path': str(far_stats), 'p_value_mask_path': str(bd / 'near' / 'mask.h5'),
                    'output_path': str(bd / 'near' / 'refm.h5'), 'n_processors': P, 'tmp_dir': str(bd / 'tmp'),
                    'max_gb': 1, 'n_valid': 4, 'query_path': ref['path']}).run()
                if staged_lookup is None:
                    QueryMarkerRunner(args=[], input_data={
                        'query_path': ref['path'], 'reference_marker_path_list': [str(bd / 'near' / 'refm.h5')],
                        'output_path': str(bd / 'staged_qm.json'), 'n_per_utility': 2, 'n_processors': P,
                        'tmp_dir': str(bd / 'tmp')}).run()
                    staged_lookup = {k: v for k, v in json.load(open(bd / 'staged_qm.json')).items() if k not in ('metadata', 'log')}
                if alt:
                    shutil.copy(far_stats, bd / 'near' / 'stats.h5')
                if not child:
                    far_stats.unlink()
                lk_, missing = patch_child_to_parent({str(far_stats): str(bd / 'near' / 'refm.h5')}, do_search=search)
                used = 'missing' if missing else ('child' if list(lk_)[0].resolve() == far_stats.resolve() else
                                                  'alt' if list(lk_)[0].resolve() == (bd / 'near' / 'stats.h5').resolve() else 'other')
                brec = {'kind': 'backptr', 'child': child, 'search': search, 'alt': alt, 'used': used, 'stage_ok': True, 'comp_ok': True,
                        'comp_same': True, 'comp_clean': True}
                try:
                    QueryMarkerRunner(args=[], input_data={
                        'query_path': ref['path'], 'reference_marker_path_list': [str(bd / 'near' / 'refm.h5')],
                        'output_path': str(bd / 'qm_stage.json'), 'n_per_utility': 2, 'n_processors': P,
                        'tmp_dir': str(bd / 'tmp'), 'search_for_stats_file': search}).run()
                except Exception as e:                    # noqa
                    brec['stage_ok'] = False
                    brec['stage_error'] = f'{type(e).__name__}: {str(e)[:120]}'
                try:
                    QueryMarkersFromPValueMaskRunner(args=[], input_data={
                        'query_path': ref['path'], 'p_value_mask_path': str(bd / 'near' / 'mask.h5'),
                        'output_path': str(bd / 'qm_comp.json'), 'n_processors': P, 'tmp_dir': str(bd / 'tmp'), 'max_gb': 1,
                        'search_for_stats_file': search, 'query_markers': {'n_per_utility': 2},
                        'reference_markers': {'n_valid': 4}}).run()
                    comp = {k: v for k, v in json.load(open(bd / 'qm_comp.json')).items() if k not in ('metadata', 'log')}
                    brec['comp_same'] = comp == staged_lookup
                except Exception as e:                    # noqa
                    brec['comp_ok'] = False
                    brec['comp_error'] = f'{type(e).__name__}: {str(e)[:120]}'
                brec['comp_clean'] = os.listdir(bd / 'tmp') == []
                recs.append(brec)
            # ---- on-the-fly against the three runners one by one, and with faults
            query = ref['path']
            ta = {'normalization': 'raw', 'bootstrap_iteration': prng.randint(3, 12), 'bootstrap_factor': prng.choice([0.5, 0.7, 0.9]),
                  'rng_seed': prng.randint(0, 999), 'chunk_size': prng.randint(3, 11), 'n_runners_up': prng.randint(0, 3)}
            (d / 'staged').mkdir()
            # variant of the run: plain, a level dropped in every stage, or flattened
            variant = prng.choice(['plain', 'drop', 'flatten'])
            dl = 'subclass' if variant == 'drop' else None
            fl = variant == 'flatten'
            (d / 'staged' / 'refm').mkdir()
            ReferenceMarkerRunner(args=[], input_data={
                'precomputed_path_list': [tp['stats']], 'output_dir': str(d / 'staged' / 'refm'), 'tmp_dir': str(d / 'scratch'),
                'n_processors': P, 'query_path': query, 'n_valid': 3, 'max_gb': 1, 'drop_level': dl}).run()
            QueryMarkerRunner(args=[], input_data={
                'query_path': query, 'reference_marker_path_list': [str(d / 'staged' / 'refm' / 'reference_markers.h5')],
                'output_path': str(d / 'staged' / 'qm.json'), 'n_per_utility': 2, 'n_processors': P,
                'tmp_dir': str(d / 'scratch'), 'drop_level': dl}).run()
            FromSpecifiedMarkersRunner(args=[], input_data={
                'query_path': query, 'extended_result_path': str(d / 'staged' / 'res.json'),
                'csv_result_path': str(d / 'staged' / 'res.csv'), 'tmp_dir': str(d / 'scratch'),
                'precomputed_stats': {'path': tp['stats']}, 'query_markers': {'serialized_lookup': str(d / 'staged' / 'qm.json')},
                'type_assignment': dict(ta, n_processors=P), 'max_gb': 1, 'drop_level': dl, 'flatten': fl}).run()
            staged = json.load(open(d / 'staged' / 'res.json'))
            faults = ['none', 'none'] + ([prng.choice(['refmarkers', 'qmarkers', 'mapping'])] if quick
                                         else ['refmarkers', 'qmarkers', 'mapping'])
            for k, fault in enumerate(faults):
                run_d = d / f'otf_{k}'
                (run_d / 'tmp').mkdir(parents=True)
                (run_d / 'out').mkdir()
                cloud = (k % 2 == 0)
                q, stats = query, tp['stats']
                if fault == 'refmarkers':
                    stats = str(run_d / 'stats_broken.h5')
                    shutil.copy(tp['stats'], stats)
                    with h5py.File(stats, 'a') as f:
                        del f['sumsq']
                elif fault == 'qmarkers':
                    # a query that shares no gene with the reference: no marker can be selected
                    import anndata
                    a0 = anndata.read_h5ad(query)
                    a0.var.index = [f'zz{i}' for i in range(a0.n_vars)]
                    q = str(run_d / 'q_foreign.h5ad')
                    a0.write_h5ad(q)
                elif fault == 'mapping':
                    import anndata
                    a0 = anndata.read_h5ad(query)
                    X = a0.X.toarray() if hasattr(a0.X, 'toarray') else np.array(a0.X)
                    X[0, 0] = -3.0
                    a0 = anndata.AnnData(X=X, obs=a0.obs, var=a0.var)
                    q = str(run_d / 'q_negative.h5ad')
                    a0.write_h5ad(q)
                cfg = {'query_path': q, 'extended_result_path': str(run_d / 'out' / 'res.json'),
                       'csv_result_path': str(run_d / 'out' / 'res.csv'), 'tmp_dir': str(run_d / 'tmp'),
                       'precomputed_stats': {'path': stats}, 'n_processors': P, 'cloud_safe': cloud, 'max_gb': 1,
                       'drop_level': dl, 'flatten': fl,
                       'type_assignment': dict(ta), 'query_markers': {'n_per_utility': 2},
                       'reference_markers': {'n_valid': 3}}
                rec = {'kind': 'otf', 'failat': fault, 'ok': True, 'left': [], 'outputs': [], 'config': 'none', 'same': True,
                       'clean': True, 'seed': seed, 'variant': variant}
                try:
                    OnTheFlyMapper(args=[], input_data=cfg).run()
                except Exception as e:                    # noqa
                    rec['ok'] = False
                    rec['error'] = f'{type(e).__name__}: {str(e)[:160]}'
                rec['left'] = sorted(os.listdir(run_d / 'tmp'))
                for nm_, pth in (('json', run_d / 'out' / 'res.json'), ('csv', run_d / 'out' / 'res.csv')):
                    if pth.exists():
                        rec['outputs'].append(nm_)
                if (run_d / 'out' / 'res.json').exists():
                    text = (run_d / 'out' / 'res.json').read_text()
                    res = json.loads(text)
                    c = res.get('config', {})
                    rec['config'] = ('otf' if 'reference_markers' in c and 'serialized_lookup' not in c.get('query_markers', {})
                                     else 'mapping')
                    if rec['ok']:
                        same = (res['results'] == staged['results'] and res['marker_genes'] == staged['marker_genes'])
                        rec['same'] = bool(same)
                    if cloud:
                        csvt = (run_d / 'out' / 'res.csv').read_text() if (run_d / 'out' / 'res.csv').exists() else ''
                        # configuration and log, as in the statement of C20 (the embedded taxonomy carries the reference
                        # file's path in its own provenance record - data of the statistics file, not asserted)
                        part = json.dumps(res.get('config')) + json.dumps(res.get('log')) + json.dumps(res.get('metadata'))
                        rec['clean'] = str(d) not in part and str(d) not in csvt
                recs.append(rec)
        return recs, issues, None
    except Exception:
        return None, None, traceback.format_exc()
    finally:
        shutil.rmtree(d, ignore_errors=True)


def _abc_case(args):
    """PrecomputationABCRunner on a small data release whose cells carry the dataset labels of the scenario"""
    scn, wd, full = args
    import anndata
    import h5py
    import numpy as np
    import pandas as pd
    from harness import argshim
    argshim.install()
    from harness.checks import x03
    from cell_type_mapper.cli.precompute_stats_abc import PrecomputationABCRunner
    d = pathlib.Path(tempfile.mkdtemp(dir=wd))
    rng = random.Random(scn['seed'])
    try:
        case = x03.gen_case(rng, 0)
        case['extra_cols'] = False
        case['padded'] = False        # this suite writes its own cell table with plain identifiers (zero padding is X03's)
        x03.write_csvs(case, d)
        labels = list(scn['labels'])
        cells = [f'cell{r["cell"]}' for r in case['cel']]
        # every label owns at least one cell; the rest round robin
        extra = max(0, len(labels) - len(cells))
        rows = []
        for i, r in enumerate(case['cel']):
            rows.append((f'cell{r["cell"]}', str(r['alias']), labels[i % len(labels)]))
        for k in range(extra):
            a0 = case['cel'][0]['alias']
            rows.append((f'cellx{k}', str(a0), labels[len(cells) + k]))
        with open(d / 'cell_metadata.csv', 'w') as f:
            import csv
            w = csv.writer(f)
            w.writerow(['cell_label', 'cluster_alias', 'dataset_label'])
            for r in rows:
                w.writerow(r)
        allcells = [r[0] for r in rows]
        rng.shuffle(allcells)
        half = len(allcells) // 2 or 1
        G = 4
        paths = []
        for k, part in enumerate((allcells[:half], allcells[half:])):
            if not part:
                continue
            X = np.array([[rng.choice([0, 0, 1, 2, 7, 30]) for _ in range(G)] for _ in part], dtype=float)
            p = d / f'expr_{k}.h5ad'
            with warnings.catch_warnings():
                warnings.simplefilter('ignore')
                anndata.AnnData(X=X, obs=pd.DataFrame(index=pd.Index(part, name='cell_label')),
                                var=pd.DataFrame(index=pd.Index([f'g{j}' for j in range(G)], name='gene'))).write_h5ad(p)
            paths.append(str(p))
        (d / 'out').mkdir()
        (d / 'scratch').mkdir()
        base = {'h5ad_path_list': paths, 'cell_metadata_path': str(d / 'cell_metadata.csv'),
                'cluster_annotation_path': str(d / 'cluster_annotation_term.csv'),
                'cluster_membership_path': str(d / 'cluster_to_cluster_annotation_membership.csv'),
                'hierarchy': [x03.lev_s(l) for l in case['hier']], 'normalization': 'raw', 'tmp_dir': str(d / 'scratch'),
                'n_processors': rng.randint(1, 2), 'clobber': False}
        rec = {'kind': 'datasets', 'labels': [list(x) for x in labels], 'ok': True, 'files': [], 'merged': True, 'additive': True,
               'census': [], 'mergedn': [], 'matches': []}
        with warnings.catch_warnings(), _quiet():
            warnings.simplefilter('ignore')
            r = PrecomputationABCRunner(args=[], input_data=dict(base, output_path=str(d / 'out' / 'stats.h5'),
                                                                 split_by_dataset=True))
            try:
                if full:
                    r.run()
                    # run() builds the map itself (and leaves placeholder files): read the names from the directory
                    m = {}
                    for f_ in (d / 'out').iterdir():
                        with h5py.File(f_, 'r') as h:
                            md = json.loads(h['metadata'][()].decode())
                        m[md.get('dataset', 'combined')] = str(f_)
                else:
                    m = r.create_dataset_to_output_map()
            except Exception as e:                        # noqa
                rec['ok'] = False
                rec['error'] = f'{type(e).__name__}: {str(e)[:160]}'
                return rec, None
            for lab, pth in m.items():
                nm_ = pathlib.Path(pth).name
                if lab == 'combined':
                    rec['merged'] = nm_ == 'stats.combined.h5'
                    continue
                mid = nm_[len('stats.'):-len('.h5')] if nm_.startswith('stats.') and nm_.endswith('.h5') else '?'
                rec['files'].append({'label': list(lab), 'file': list(mid)})
            rec['merged'] = rec['merged'] and 'combined' in m
            if full:
                PrecomputationABCRunner(args=[], input_data=dict(base, output_path=str(d / 'out_unsplit.h5'),
                                                                 split_by_dataset=False)).run()

                def load(pth):
                    with h5py.File(pth, 'r') as h:
                        c2r = json.loads(h['cluster_to_row'][()].decode())
                        return {k: {cl: h[k][()][row] for cl, row in c2r.items()}
                                for k in h.keys() if k in ('n_cells', 'sum', 'sumsq', 'gt0', 'gt1', 'ge1')}
                comb = load(m['combined'])
                uns = load(d / 'out_unsplit.h5')
                part_paths = sorted(pth for lab, pth in m.items() if lab != 'combined')     # path order, as the merge sorts
                parts = [load(pth) for pth in part_paths]
                clusters = sorted(comb['n_cells'])
                add_ok = sorted(uns) == sorted(comb)
                for k in comb:
                    for cl in clusters:
                        tot = sum(np.asarray(p_[k].get(cl, 0), dtype=float) for p_ in parts)
                        add_ok = add_ok and cl in uns[k] and bool(np.allclose(tot, uns[k][cl], rtol=1e-10, atol=1e-10))
                rec['additive'] = bool(add_ok)
                rec['census'] = [{'total': int(sum(int(p_['n_cells'][cl]) for cl in clusters)),
                                  'n': [int(p_['n_cells'][cl]) for cl in clusters]} for p_ in parts]
                rec['mergedn'] = [int(comb['n_cells'][cl]) for cl in clusters]
                rec['matches'] = [[i + 1 for i, p_ in enumerate(parts)
                                   if all(np.array_equal(np.asarray(p_[k][cl]), np.asarray(comb[k][cl])) for k in comb)]
                                  for cl in clusters]
        return rec, None
    except Exception:
        return None, traceback.format_exc()
    finally:
        shutil.rmtree(d, ignore_errors=True)


def _validate_case(args):
    """a history of validations through ValidateH5adRunner: the valid file of one is the input of the next"""
    scn, wd = args
    import anndata
    import numpy as np
    import pandas as pd
    import scipy.sparse as sp
    from harness import argshim
    argshim.install()
    from cell_type_mapper.cli.validate_h5ad import ValidateH5adRunner
    d = pathlib.Path(tempfile.mkdtemp(dir=wd))
    rng = random.Random(scn['seed'])
    try:
        ens = ['ENSMUSG00000051951', 'ENSMUSG00000025900', 'ENSMUSG00000025902', 'ENSMUSG00000033845']
        sym = ['Xkr4', 'Rp1', 'Sox17', 'not_a_gene']
        known = ['Xkr4', 'Rp1', 'Sox17', 'Mrpl15']
        names = ens if scn['fixed'] else (sym if scn['unk'] else known)
        nmapped = 3 if scn['unk'] else 4
        X = np.array([[rng.choice([0, 0, 1, 3, 25]) for _ in range(4)] for _ in range(5)], dtype=float)
        X[0, 0] = 30.0
        enc = rng.choice(['csr', 'csc', 'dense'])
        M = sp.csr_matrix(X) if enc == 'csr' else sp.csc_matrix(X) if enc == 'csc' else X
        obs = pd.DataFrame({'note': [f'n{i}' for i in range(5)]}, index=pd.Index([f'c{i}' for i in range(5)], name='cell_id'))
        with warnings.catch_warnings(), _quiet():
            warnings.simplefilter('ignore')
            anndata.AnnData(X=M, obs=obs, var=pd.DataFrame(index=pd.Index(names, name='gene'))).write_h5ad(d / 'input.h5ad')
            cur = d / 'input.h5ad'
            steps = []
            for i, st in enumerate(scn['steps']):
                cfg = {'h5ad_path': str(cur), 'output_json': str(d / f'manifest_{i}.json'), 'tmp_dir': str(d),
                       'log_path': str(d / f'log_{i}.txt')}
                if st['dest'] == 'valid_path':
                    cfg['valid_h5ad_path'] = str(d / f'valid_{i}.h5ad')
                else:
                    (d / f'out_{i}').mkdir()
                    cfg['output_dir'] = str(d / f'out_{i}')
                ev = {'dest': st['dest'], 'ok': True, 'vkind': 'none', 'same': False, 'rec': -1}
                try:
                    ValidateH5adRunner(args=[], input_data=cfg).run()
                except Exception as e:                    # noqa
                    ev['ok'] = False
                    ev['error'] = f'{type(e).__name__}: {str(e)[:160]}'
                    steps.append(ev)
                    break
                vp = pathlib.Path(json.load(open(d / f'manifest_{i}.json'))['valid_h5ad_path'])
                a_in = anndata.read_h5ad(cur)
                a = anndata.read_h5ad(vp)
                if vp.resolve() == cur.resolve():
                    ev['vkind'] = 'input'
                elif st['dest'] == 'output_dir':
                    ev['vkind'] = 'written' if vp.parent.resolve() == (d / f'out_{i}').resolve() else 'elsewhere'
                else:
                    if vp.resolve() != (d / f'valid_{i}.h5ad').resolve():
                        ev['vkind'] = 'elsewhere'
                    else:
                        ev['vkind'] = 'copy' if list(a.var.index) == list(a_in.var.index) else 'written'
                got = list(a.var.index)
                # known genes by identifier; the unmappable one by a placeholder (whose text carries the time of the run)
                ok_names = (got[:3] == ens[:3] and (got[3] == ens[3] if not scn['unk'] else
                                                    (got[3] not in sym and not got[3].startswith('ENS'))))
                Xo = a.X.toarray() if hasattr(a.X, 'toarray') else np.asarray(a.X)
                ev['same'] = bool(ok_names and list(a.obs.index) == list(obs.index) and list(a.obs['note']) == list(obs['note'])
                                  and np.array_equal(np.asarray(Xo, dtype=float), X))
                ev['rec'] = int(dict(a.uns).get('AIBS_CDM_n_mapped_genes', -1))
                steps.append(ev)
                cur = vp
        return {'kind': 'validate', 'fixed': scn['fixed'], 'unk': scn['unk'], 'nmapped': nmapped, 'steps': steps, 'enc': enc}, None
    except Exception:
        return None, traceback.format_exc()
    finally:
        shutil.rmtree(d, ignore_errors=True)


def run(ctx):
    quick = ctx.tier == 'quick'
    rng = random.Random(ctx.seed + 110)
    ctx.cov['rule'] = ('one case = one call of ReferenceMarkerRunner.create_input_to_output_map (list of statistics files from '
                       'TLC, pre-existing targets, clobber, output directory) or one toy pipeline (runners vs stage functions, '
                       'on-the-fly vs staged, injected faults); non-trivial = two inputs share an extension chain / a run '
                       'completed; distinct by canonical JSON.')
    ctx.cov['trusted_base'] = ['TLC 1.8', 'harness/argshim.py (one argschema hook replaced)', 'h5py / json readers']
    if ctx.only in (None, 'mc'):
        dims = (3, 2, 4) if quick else (4, 3, 5)
        cfg = ('SPECIFICATION Spec\nCONSTANTS NP = %d NR = %d MaxIn = %d\n' % dims
               + ''.join(f'INVARIANT {i}\n' for i in ('InvScratchGone', 'InvOutputsIffRun', 'InvNoStaleConfig', 'InvPrivate'))
               + 'CHECK_DEADLOCK FALSE\n')
        res = run_tlc('Runners_MC', cfg_text=cfg, timeout=7200)
        ctx.add_tlc('Runners_MC', res)
        if not res.ok:
            raise MachineryError('Runners_MC: ' + (res.error_trace or res.stdout[-1500:]))
        ctx.part('mc', dims=str(dims))
    recs, owners = [], []
    wd = str(ctx.tmpdir('x10_'))
    if ctx.only in (None, 'names'):
        gd = (3, 2, 3) if quick else (4, 3, 4)
        res = run_tlc('Runners_Gen', cfg_text='SPECIFICATION Spec\nCONSTANTS NP = %d NR = %d MaxIn = %d\nCHECK_DEADLOCK FALSE\n' % gd,
                      workers=1, timeout=3600)
        ctx.add_tlc('Runners_Gen', res)
        if not res.ok:
            raise MachineryError(res.error_trace or res.stdout[-1500:])
        em = [json.loads(t[1]) for t in res.tuples('SCN')]
        ctx.part('emitted', lists=len(em))
        if quick:
            em = rng.sample(em, min(len(em), 400))
        elif len(em) > 6000:
            em = rng.sample(em, 6000)
        scns = []
        for e in em:
            targets = [(x['name']['salt'], x['name']['rest']) for x in e['map']]
            ex = []
            r = rng.random()
            if r < 0.5:
                for t in rng.sample(targets, rng.randint(1, len(targets))) if r < 0.35 else []:
                    ex.append({'salt': t[0], 'rest': t[1], 'what': rng.choice(['file', 'file', 'dir'])})
                if rng.random() < 0.5:
                    ex.append({'salt': -1, 'rest': 9, 'what': 'file'})            # an unrelated file
            scns.append({'inputs': e['inputs'], 'existing': ex, 'clobber': rng.random() < 0.5,
                         'dirOK': rng.random() < 0.9, 'expect': e['map']})
        with cf.ProcessPoolExecutor(max_workers=8) as ex_:
            outs = list(ex_.map(_names_case, [(s, wd) for s in scns], chunksize=8))
        for s, (rec, err) in zip(scns, outs):
            if rec is None:
                raise MachineryError(err)
            names = [i['rest'] for i in s['inputs']]
            ctx.count({'s': s}, nontrivial=len(names) != len(set(names)))
            recs.append(rec)
            owners.append({'names': s})
    if ctx.only in (None, 'otf'):
        n = 4 if quick else 24
        jobs = [(ctx.seed * 1000 + i, wd, quick) for i in range(n)]
        with cf.ProcessPoolExecutor(max_workers=4) as ex_:
            outs = list(ex_.map(_pipeline_case, jobs))
        for job, (rs, issues, err) in zip(jobs, outs):
            if rs is None:
                raise MachineryError(err)
            for sig, msg in issues:
                ctx.report(sig, msg, {'pipeline_seed': job[0]})
            for r in rs:
                ctx.count({'p': job[0], 'r': {k: r[k] for k in r if not k.endswith('error')}}, nontrivial=r.get('ok', r.get('comp_ok', False)))
                recs.append(r)
                owners.append({'pipeline_seed': job[0], 'quick': quick})
        ctx.part('pipelines', run=n, otf_runs=sum(1 for r in recs if r['kind'] == 'otf'), back_pointer_cases=sum(1 for r in recs if r['kind'] == 'backptr'),
                 completed=sum(1 for r in recs if r['kind'] == 'otf' and r['ok']))
    if ctx.only in (None, 'validate'):
        res = run_tlc('Runners_VMC', cfg_text='SPECIFICATION Spec\nCONSTANTS MaxRuns = %d NMapped = 2\nINVARIANT InvFixedPoint\n'
                                              'INVARIANT InvRecordStable\nINVARIANT InvWrittenOnce\nINVARIANT InvRecordTrue\n'
                                              'CONSTRAINT Emit\nCHECK_DEADLOCK FALSE\n' % (3 if quick else 4),
                      workers=1, timeout=3600)
        ctx.add_tlc('Runners_VMC', res)
        if not res.ok:
            raise MachineryError('Runners_VMC: ' + (res.error_trace or res.stdout[-1500:]))
        hs = [json.loads(t[1]) for t in res.tuples('SCN')]
        vscn = [dict(h, seed=rng.randint(0, 10 ** 6)) for h in hs for _ in range(1 if quick else 3)]
        with cf.ProcessPoolExecutor(max_workers=8) as ex_:
            outs = list(ex_.map(_validate_case, [(s, wd) for s in vscn]))
        for s, (rec, err) in zip(vscn, outs):
            if rec is None:
                raise MachineryError(err)
            ctx.count({'v': s}, nontrivial=True)
            recs.append(rec)
            owners.append({'validate': s})
        ctx.part('validate', histories=len(vscn))
    if ctx.only in (None, 'abc'):
        res = run_tlc('Runners_DMC', cfg_text='SPECIFICATION Spec\nCHECK_DEADLOCK FALSE\n', workers=1, timeout=3600)
        ctx.add_tlc('Runners_DMC', res)
        if not res.ok:
            raise MachineryError('Runners_DMC: ' + (res.error_trace or res.stdout[-1500:]))
        sets = [json.loads(t[1]) for t in res.tuples('SCN')]
        oks = [x for x in sets if x['outcome'] == 'ok']
        full_ids = set(id(x) for x in rng.sample(oks, min(len(oks), 6 if quick else 40)))
        ascn = [{'labels': sorted(x['labels']), 'seed': rng.randint(0, 10 ** 6), 'full': id(x) in full_ids} for x in sets]
        with cf.ProcessPoolExecutor(max_workers=8) as ex_:
            outs = list(ex_.map(_abc_case, [(s_, wd, s_['full']) for s_ in ascn]))
        for s_, (rec, err) in zip(ascn, outs):
            if rec is None:
                raise MachineryError(err)
            ctx.count({'abc': s_}, nontrivial=len(s_['labels']) > 1)
            recs.append(rec)
            owners.append({'abc': s_})
        ctx.part('abc', label_sets=len(ascn), run_in_full=len(full_ids))
    # uniform records for TLC
    lines = []
    for r in recs:
        base = {'kind': r['kind'], 'inputs': r.get('inputs', []), 'clobber': r.get('clobber', False), 'dirOK': r.get('dirOK', True),
                'existing': r.get('existing', []), 'ok': r.get('ok', True), 'map': r.get('map', []), 'back': r.get('back', True),
                'failat': r.get('failat', 'none'), 'left': r.get('left', []), 'outputs': r.get('outputs', []),
                'config': r.get('config', 'none'), 'same': r.get('same', True), 'clean': r.get('clean', True), 'events': [0],
                'labels': r.get('labels', []) if r['kind'] == 'datasets' else [],
                'files': r.get('files', []), 'merged': r.get('merged', True), 'additive': r.get('additive', True),
                'census': r.get('census', []), 'mergedn': r.get('mergedn', []), 'matches': r.get('matches', []),
                'child': r.get('child', True), 'search': r.get('search', True), 'alt': r.get('alt', True),
                'used': r.get('used', 'child'), 'stage_ok': r.get('stage_ok', True), 'comp_ok': r.get('comp_ok', True),
                'comp_same': r.get('comp_same', True), 'comp_clean': r.get('comp_clean', True),
                'fixed': r.get('fixed', False), 'unk': r.get('unk', False), 'nmapped': r.get('nmapped', 0),
                'steps': [{k: st[k] for k in ('dest', 'ok', 'vkind', 'same', 'rec')} for st in r.get('steps', [])]}
        lines.append(base)
    vs = validate(ctx, 'Runners_Trace', lines, 'Runners_Trace', cfg='Runners_Trace.cfg')
    rej = 0
    for r, o, v in zip(recs, owners, vs):
        if not v['accepted']:
            rej += 1
            ctx.report(f'clause:{v["inv"]}', f'{CL.get(v["inv"], v["inv"])} - {json.dumps({k: r[k] for k in r if k != "kind"})[:500]}', o)
    ctx.part('decided', observations=len(lines), rejected=rej)
    if lines:
        ctx.sample({'first': lines[0], 'last': lines[-1]})
        st = []
        for ln in lines:
            if len(st) >= 40:
                break
            l2 = copy.deepcopy(ln)
            if ln['kind'] == 'names' and ln['ok'] and ln['map']:
                l2['map'][0]['salt'] += 1
            elif ln['kind'] == 'otf' and ln['ok']:
                l2['left'] = ['tmpabc']
            else:
                continue
            st.append(l2)
        if st:
            sv = validate(ctx, 'Runners_Trace', st, 'selftest', cfg='Runners_Trace.cfg', counts_as_impl=False)
            acc = sum(1 for v in sv if v['accepted'])
            ctx.cov['selftest'] = {'corrupted': len(st), 'rejected': len(st) - acc}
            if acc:
                raise MachineryError('self-test: corrupted runner observations accepted')


def replay(ctx, path):
    case = json.load(open(pathlib.Path(path) / 'replay.json'))['case']
    wd = str(ctx.tmpdir('x10_'))
    if 'names' in case:
        rec, err = _names_case((case['names'], wd))
        if rec is None:
            raise MachineryError(err)
        print(json.dumps(rec)[:1500])
    elif 'abc' in case:
        rec, err = _abc_case((case['abc'], wd, case['abc'].get('full', False)))
        if rec is None:
            raise MachineryError(err)
        print(json.dumps(rec)[:1500])
    elif 'validate' in case:
        rec, err = _validate_case((case['validate'], wd))
        if rec is None:
            raise MachineryError(err)
        print(json.dumps(rec)[:1500])
    else:
        rs, issues, err = _pipeline_case((case['pipeline_seed'], wd, case.get('quick', True)))
        if rs is None:
            raise MachineryError(err)
        for r in rs:
            print(json.dumps(r)[:600])
        for i in issues:
            print(i)
    ctx.count(case)
