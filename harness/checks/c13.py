"""C13 - on-disk sparse transposition and reshaping preserve the matrix.

1. MC   : Transpose.tla - the loop nest of transpose_sparse_matrix_on_disk (count pass, blocks of
          output slices cut by elements_at_a_time, load chunks cut by load_chunk_size, running
          next-free-slot table, optional sub-range of the minor axis) for every sparse pattern
          (3x3 with every sub-range and budget in quick; 4x4 in thorough) and the range-order
          join of the parallel version: Correct, PtrMonotone, CursorInv, ParallelJoinCorrect.
2. S->C : TLC emits every pattern with its transpose; each is written to disk (values = file-order
          entry numbers) and pushed through the real serial code (with / without value array,
          every sub-range), the parallel code (1-4 workers), csc_to_csr_on_disk and the
          file-level operations (pivot, row shuffle, column subset, amalgamation, layer copy).
3. C->S : random larger matrices (> 100 stored entries, budgets down to the enforced minimum):
          Block / Load hook events are validated by Transpose_Trace (blocks tile the pointer
          array, load chunks tile the input) and the result is compared with scipy's transpose.
"""
import concurrent.futures as cf
import json
import os
import pathlib
import random
import tempfile
import traceback
import warnings

import h5py
import numpy as np
import scipy.sparse as sp

from harness.tlc import run_tlc, MachineryError

PID = 'C13'


def emitted(ctx, A, B):
    cfg = (f'SPECIFICATION GenSpec\nCONSTANTS A = {A} B = {B} MaxLd = 1 MaxEl = 1 Slices = FALSE\n'
           'CHECK_DEADLOCK FALSE\n')
    res = run_tlc('Transpose', cfg_text=cfg, workers=1, timeout=3600)
    ctx.add_tlc(f'Transpose_gen_{A}x{B}', res)
    return [json.loads(t[1]) for t in res.tuples('SCN')]


WIDE0 = 2 ** 53 - 1      # wide values: entry k is stored as the odd 64-bit integer 2^53 - 1 + 2k (no double holds it)


def write_input(path, rows, B, with_data=True, dtype=np.float32, idx_dtype=np.int64, wide=False):
    indptr = [0]
    indices = []
    for r in rows:
        indices += list(r)
        indptr.append(len(indices))
    with h5py.File(path, 'w') as f:
        f.create_dataset('indptr', data=np.array(indptr, dtype=idx_dtype))
        f.create_dataset('indices', data=np.array(indices, dtype=idx_dtype))
        if with_data and wide:
            f.create_dataset('data', data=(WIDE0 + 2 * np.arange(1, len(indices) + 1, dtype=np.int64)))
        elif with_data:
            f.create_dataset('data', data=np.arange(1, len(indices) + 1).astype(dtype))
    return len(indices)


def expected_slice(s, l, h):
    p = s['indptr']
    return ([p[l + v] - p[l] for v in range(h - l + 1)], s['indices'][p[l]:p[h]], s['dat'][p[l]:p[h]])


def read_out(path, with_data, wide=False):
    with h5py.File(path, 'r') as f:
        ptr = f['indptr'][()].astype(int).tolist()
        idx = f['indices'][()].astype(int).tolist()
        dat = f['data'][()].astype(int).tolist() if with_data and 'data' in f else None
        if wide and dat is not None:
            dat = [(int(v) - WIDE0) // 2 if str(f['data'].dtype) == 'int64' and (int(v) - WIDE0) % 2 == 0 else -1 for v in dat]
    return ptr, idx, dat


def classify_exc(e, nnz_slice, with_data, parallel, nnz, A):
    msg = f'{type(e).__name__}: {e}'
    chunk_err = isinstance(e, ValueError) and ('hunk' in str(e))
    if chunk_err and not parallel and with_data and nnz_slice == 0:
        return 'transpose:serial:no-stored-entry-with-values', msg
    if chunk_err and parallel and nnz == 0:
        return 'transpose:parallel:no-stored-entry', msg
    if chunk_err and parallel and with_data and nnz < A + 1:
        return 'transpose:parallel:fewer-entries-than-pointers', msg
    return 'transpose:unexpected-exception', msg


def _serial_case(args):
    """one scenario through the serial entry points; returns list of (signature, message)"""
    s, B, slices, wd = args
    from cell_type_mapper.utils.csc_to_csr import transpose_sparse_matrix_on_disk, csc_to_csr_on_disk
    out = []
    A = len(s['rows'])
    d = tempfile.mkdtemp(dir=wd)
    n_eval = 0
    try:
        for with_data in (True, False):
            src = os.path.join(d, f'in_{with_data}.h5')
            nnz = write_input(src, s['rows'], B, with_data)
            for (l, h) in slices:
                if not with_data and (l, h) != (0, B) and (l + h) % 2:
                    continue
                n_eval += 1
                dst = os.path.join(d, 'out.h5')
                want = expected_slice(s, l, h)
                try:
                    with h5py.File(src, 'r') as f:
                        with warnings.catch_warnings():
                            warnings.simplefilter('ignore')
                            transpose_sparse_matrix_on_disk(
                                indices_handle=f['indices'], indptr_handle=f['indptr'],
                                data_handle=f['data'] if with_data else None, indices_max=B,
                                max_gb=1, output_path=dst, verbose=False,
                                indices_slice=None if (l, h) == (0, B) else (l, h))
                    got = read_out(dst, with_data)
                    if got[0] != want[0] or got[1] != want[1] or (with_data and got[2] != want[2]):
                        out.append(('transpose:serial:wrong-result',
                                    f'rows={s["rows"]} slice={(l, h)} data={with_data}: got {got}, want {want}'))
                except Exception as e:
                    sig, msg = classify_exc(e, len(want[1]), with_data, False, nnz, A)
                    out.append((sig, f'rows={s["rows"]} slice={(l, h)} data={with_data}: {msg}'))
        # 64-bit integers that no double holds, full range, both serial entry points
        src = os.path.join(d, 'in_wide.h5')
        nnz = write_input(src, s['rows'], B, True, wide=True)
        want = expected_slice(s, 0, B)
        for entry in ('transpose', 'csc_to_csr'):
            n_eval += 1
            dst = os.path.join(d, f'out_wide_{entry}.h5')
            try:
                with h5py.File(src, 'r') as f:
                    with warnings.catch_warnings():
                        warnings.simplefilter('ignore')
                        if entry == 'transpose':
                            transpose_sparse_matrix_on_disk(
                                indices_handle=f['indices'], indptr_handle=f['indptr'], data_handle=f['data'],
                                indices_max=B, max_gb=1, output_path=dst, verbose=False)
                        else:
                            csc_to_csr_on_disk(csc_group=f, csr_path=dst, array_shape=(B, A), max_gb=1)
                got = read_out(dst, True, wide=True)
                if got != (want[0], want[1], want[2]):
                    out.append((f'transpose:wide-integers', f'{entry} rows={s["rows"]} (64-bit integers beyond 2^53): got '
                                                            f'{got}, want {want}'))
            except Exception as e:
                sig, msg = classify_exc(e, len(want[1]), True, False, nnz, A)
                out.append((sig, f'{entry} wide rows={s["rows"]}: {msg}'))
        # csc_to_csr_on_disk on the full range
        src = os.path.join(d, 'in_True.h5')
        dst = os.path.join(d, 'csr.h5')
        n_eval += 1
        try:
            with h5py.File(src, 'r') as f:
                csc_to_csr_on_disk(csc_group=f, csr_path=dst, array_shape=(B, A), max_gb=1)
            got = read_out(dst, True)
            want = expected_slice(s, 0, B)
            if got != (want[0], want[1], want[2]):
                out.append(('transpose:csc_to_csr:wrong-result', f'rows={s["rows"]}: got {got}, want {want}'))
        except Exception as e:
            sig, msg = classify_exc(e, len(s['indices']), True, False, len(s['indices']), A)
            out.append((sig, f'csc_to_csr_on_disk rows={s["rows"]}: {msg}'))
    finally:
        import shutil
        shutil.rmtree(d, ignore_errors=True)
    return out, n_eval


def _parallel_case(args):
    s, B, procs, wd = args
    from cell_type_mapper.utils.csc_to_csr_parallel import transpose_sparse_matrix_on_disk_v2
    out = []
    A = len(s['rows'])
    d = tempfile.mkdtemp(dir=wd)
    n_eval = 0
    try:
        for with_data in (True, False):
            src = os.path.join(d, f'in_{with_data}.h5')
            nnz = write_input(src, s['rows'], B, with_data)
            for P in procs:
                n_eval += 1
                dst = os.path.join(d, 'out.h5')
                want = expected_slice(s, 0, B)
                try:
                    from harness.build import redirect_fds
                    with redirect_fds(os.path.join(d, 'stdio.txt')):
                        transpose_sparse_matrix_on_disk_v2(
                            h5_path=src, indices_tag='indices', indptr_tag='indptr',
                            data_tag='data' if with_data else None, indices_max=B, max_gb=1,
                            output_path=dst, tmp_dir=d, n_processors=P)
                    got = read_out(dst, with_data)
                    if got[0] != want[0] or got[1] != want[1] or (with_data and got[2] != want[2]):
                        out.append(('transpose:parallel:wrong-result',
                                    f'rows={s["rows"]} P={P} data={with_data}: got {got}, want {want}'))
                    left = [x for x in os.listdir(d) if x.startswith('transpose_')]
                    if left:
                        out.append(('transpose:parallel:scratch-left', f'{left}'))
                except Exception as e:
                    sig, msg = classify_exc(e, nnz, with_data, True, nnz, A)
                    if sig == 'transpose:unexpected-exception' and 'exited with code' in msg and with_data:
                        # a worker hit the serial defect on an empty range
                        w = -(-B // P)
                        empty = any(len(expected_slice(s, i0, min(B, i0 + w))[1]) == 0 for i0 in range(0, B, w))
                        if empty:
                            sig = 'transpose:serial:no-stored-entry-with-values'
                    out.append((sig, f'rows={s["rows"]} P={P} data={with_data}: {msg}'))
    finally:
        import shutil
        shutil.rmtree(d, ignore_errors=True)
    return out, n_eval


def run(ctx):
    quick = ctx.tier == 'quick'
    rng = random.Random(ctx.seed + 13)
    ctx.cov['rule'] = ('S->C: every sparse pattern (3x3 quick, 4x4 thorough) emitted by TLC with its transpose, '
                       'through the serial code (with/without values, every sub-range), the parallel code, '
                       'csc_to_csr_on_disk and the file-level operations; C->S: random matrices with >100 '
                       'entries, hook traces validated. Non-trivial = pattern with at least one stored entry; '
                       'distinct by pattern.')
    ctx.cov['trusted_base'] = ['TLC 1.8', 'h5py', 'scipy.sparse (transpose of the random large matrices)']
    if ctx.only in (None, 'mc'):
        dims = [(3, 3, 3, 3, 'TRUE')] if quick else [(3, 3, 3, 3, 'TRUE'), (4, 4, 2, 2, 'FALSE'), (3, 4, 2, 3, 'TRUE')]
        for A, B, ld, el, sl in dims:
            cfg = (f'SPECIFICATION Spec\nCONSTANTS A = {A} B = {B} MaxLd = {ld} MaxEl = {el} Slices = {sl}\n'
                   'INVARIANT PtrMonotone\nINVARIANT Correct\nINVARIANT CursorInv\n'
                   'INVARIANT ParallelJoinCorrect\nCHECK_DEADLOCK FALSE\n')
            res = run_tlc('Transpose', cfg_text=cfg, timeout=7200)
            ctx.add_tlc(f'Transpose_{A}x{B}', res)
            if not res.ok:
                raise MachineryError(res.error_trace or res.stdout[-2000:])
    wd = str(ctx.tmpdir('c13_'))
    if ctx.only in (None, 's2c'):
        A, B = (3, 3) if quick else (4, 4)
        scns = emitted(ctx, A, B)
        all_slices = [(l, h) for l in range(B) for h in range(l + 1, B + 1)]
        jobs = []
        for s in scns:
            sl = all_slices if quick else [(0, B)] + rng.sample(all_slices, 3)
            jobs.append((s, B, sl, wd))
        with cf.ProcessPoolExecutor(max_workers=12) as ex:
            outs = list(ex.map(_serial_case, jobs, chunksize=64))
        nbad = 0
        for s, (bad, n) in zip(scns, outs):
            ctx.count({'rows': s['rows']}, nontrivial=len(s['indices']) > 0)
            ctx.cov['evaluations'] += n - 1
            for sig, msg in bad[:2]:
                if ctx.report(sig, msg, {'scenario': s, 'B': B}):
                    nbad += 1
        par = scns if quick else rng.sample(scns, 3000)
        pj = [(s, B, (1, 2, 3) if quick else (1, 2, 3, 4), wd) for s in par]
        with cf.ProcessPoolExecutor(max_workers=8) as ex:
            pouts = list(ex.map(_parallel_case, pj, chunksize=16))
        for s, (bad, n) in zip(par, pouts):
            ctx.cov['evaluations'] += n
            for sig, msg in bad[:2]:
                if ctx.report(sig, msg, {'scenario': s, 'B': B, 'parallel': True}):
                    nbad += 1
        ctx.sample({'scenario': scns[min(200, len(scns) - 1)]})
        ctx.part('s2c', patterns=len(scns), parallel_patterns=len(par), disagreements=nbad)
        ctx.cov['exhaustive'] = True
    try:
        from harness import sparsefiles
    except ImportError:
        sparsefiles = None
    if sparsefiles is not None and ctx.only in (None, 'files'):
        sparsefiles.run_c13(ctx, quick, rng, wd)
    if sparsefiles is not None and ctx.only in (None, 'c2s'):
        sparsefiles.run_c13_traces(ctx, quick, rng, wd)


def replay(ctx, path):
    case = json.load(open(pathlib.Path(path) / 'replay.json'))['case']
    wd = str(ctx.tmpdir('c13_'))
    if 'scenario' not in case or 'B' not in case:
        # cases of the file-level / large parts: re-run that part of the check
        import random
        from harness import sparsefiles
        ctx.count(case)
        if 'parallel_huge' in case:
            A_, B_, P_, wdata, sd = case['parallel_huge']
            ok, err, nnz = sparsefiles._parallel_huge_case((A_, B_, P_, wdata, sd, wd))
            if not ok:
                ctx.report('transpose:parallel-large:wrong-result', f'{A_}x{B_}, {P_} workers: {err}', case)
        elif 'parallel_large' in case:
            A_, B_, P_, sd = case['parallel_large']
            ok, err = sparsefiles._parallel_large_case((A_, B_, P_, 0.4, sd, wd))
            if not ok:
                ctx.report('transpose:parallel-large:wrong-result', f'{A_}x{B_}, {P_} workers: {err}', case)
        else:
            sparsefiles.run_c13(ctx, ctx.tier == 'quick', random.Random(ctx.seed + 13), wd)
        return
    s, B = case['scenario'], case['B']
    if case.get('parallel'):
        bad, n = _parallel_case((s, B, (1, 2, 3), wd))
    else:
        bad, n = _serial_case((s, B, [(l, h) for l in range(B) for h in range(l + 1, B + 1)], wd))
    ctx.count(case)
    for sig, msg in bad:
        ctx.report(sig, msg, case)
