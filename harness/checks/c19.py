"""C19 - runs leave inputs untouched, scratch space empty, and do not interfere.

1. MC   : ScratchFS_MC - two concurrent runs on a scratch directory with stale entries: with
          fresh (mkdtemp-style) names no interleaving touches a foreign entry and both end
          with nothing of their own left; WorkerPool.tla - ScratchEmptyAtEnd on the error path
          (reproduces finding F3 and shows the repair needs the survivors stopped first).
2. C->S : every stage (mapping, statistics, reference markers, p-value mask, query markers,
          validation) is run for real under `strace -f`; the file-system events of its process
          tree are validated by ScratchFS_Trace: writes only below own scratch entries or at
          requested outputs, inputs never opened for writing, stale / foreign entries never
          touched, nothing owned left at the end, result digest independent of the history.
          Histories: clean run; stale files planted under every name pattern the stages use;
          success after a failed run; two concurrent runs sharing scratch and output
          directories; mapping runs failing at the C14 crash points.
"""
import copy
import json
import os
import pathlib
import random
import re
import shutil
import subprocess

import numpy as np

from harness import maptrace, build, stages, fstrace, pooltrace
from harness.checks.c04 import base_scenario
from harness.stagejob import file_digest
from harness.tlc import run_tlc, MachineryError
from harness.traces import validate

PID = 'C19'
ROOT = os.path.dirname(os.path.dirname(os.path.dirname(os.path.abspath(__file__))))

CL = {1901: 'file activity of the stage after it ended (orphaned worker)',
      1902: 'use of a scratch path nobody created',
      1903: 'a file planted in the scratch directory before the run was opened or removed',
      1904: 'a scratch entry of another run was touched',
      1905: 'a file was created / written / removed outside the scratch directory and the requested outputs',
      1906: 'an unrequested file was written in an output directory',
      1907: 'an input file was opened for writing',
      1910: 'the stage ended leaving entries of its own in the scratch directory',
      1911: 'ended run owns scratch entries', 1920: 'result differs from the clean solo run',
      1921: 'stale files were modified or removed', 1922: 'input file content changed'}

STALE = ['cell_type_mapper_20200101000000_stale', 'result_buffer_stale', 'results_buffer_stale',
         'file_tracker_stale', 'anndata_iterator_stale', 'find_markers_stale',
         'precomputation_buffer_stale.h5', 'precomputation_data_buffer_stale', 'unthinned_stale.h5',
         'transposed_stale.h5', 'columns_0_5_stale.h5', 'transposition_stale', 'transpose_0_3_stale',
         'query_marker_stale.h5', '0_3_assignment.json', 'round_x_to_integers_staging_stale',
         'data_as_int_stale.h5', 'transposing_sparse_matrix_stale']


def plant(scratch):
    for n in STALE:
        p = pathlib.Path(scratch) / n
        if '.' in n:
            p.write_text('[{"cell_id": "bogus"}]')
        else:
            p.mkdir()
            (p / '0_3_assignment.json').write_text('[{"cell_id": "bogus"}]')
            (p / 'q_as_csr.h5').write_text('junk')


def listing(d):
    out = {}
    for p in sorted(pathlib.Path(d).rglob('*')):
        out[str(p.relative_to(d))] = file_digest(p) if p.is_file() else 'dir'
    return out


class History(object):
    """a sequence / set of stage jobs run under one strace"""
    def __init__(self, ctx, name, mode='seq'):
        self.ctx = ctx
        self.name = name
        self.mode = mode
        self.dir = ctx.tmpdir(f'hist_{name}_')
        self.sent = self.dir / 'sentinel'
        self.sent.mkdir()
        self.jobs = []
        self.runs = {}

    def add(self, stage, args, scratch, outputs, inputs, outdirs=(), plan=None, may_write_input=False,
            expect_fail=False, shared_hooks=False, end_token=None):
        run = len(self.jobs) + 1
        jp, op = self.dir / f'job_{run}.json', self.dir / f'out_{run}.json'
        job = {'stage': stage, 'run': run, 'sentinel_dir': str(self.sent), 'args': args,
               'trace_dir': str(self.dir / ('hooks_shared' if shared_hooks else f'hooks_{run}')), 'plan': plan,
               'end_token': end_token}
        if self.mode == 'par':
            job['barrier'] = str(self.sent)
        self.jobs.append((job, str(jp), str(op)))
        self.runs[run] = {'scratch': str(scratch), 'outputs': [str(o) for o in outputs],
                          'inputs': [str(i) for i in inputs], 'outdirs': [str(o) for o in outdirs],
                          'sentinel_dir': str(self.sent), 'ignore': [str(self.dir)], 'stage': stage,
                          'expect_fail': expect_fail, 'may_write_input': may_write_input}
        return run

    def execute(self):
        for job, jp, op in self.jobs:
            job['n_jobs'] = len(self.jobs)
            json.dump(job, open(jp, 'w'))
        spec = {'mode': self.mode, 'jobs': [[jp, op, {}] for _, jp, op in self.jobs]}
        sp = self.dir / 'launch.json'
        json.dump(spec, open(sp, 'w'))
        env = dict(os.environ)
        env['PYTHONPATH'] = ROOT + ':' + env.get('PYTHONPATH', '')
        env['CELL_TYPE_MAPPER_VERIF'] = '1'
        st = self.dir / 'strace.txt'
        cmd = ['strace', '-f', '-qq', '-o', str(st), '-e', 'trace=' + fstrace.SYSCALLS,
               '/venv/bin/python', '-W', 'ignore', '-m', 'harness.launch', str(sp)]
        pr = subprocess.run(cmd, env=env, cwd=ROOT, capture_output=True, text=True, timeout=900)
        outs = {}
        for job, jp, op in self.jobs:
            if not os.path.exists(op):
                raise MachineryError(f'history {self.name}: job {job["run"]} produced no output\n'
                                     f'{pr.stderr[-1500:]}')
            outs[job['run']] = json.load(open(op))
        self.outs = outs
        self.events = fstrace.events(str(st), self.runs, cwd=ROOT)
        return outs


def run(ctx):
    quick = ctx.tier == 'quick'
    rng = random.Random(ctx.seed + 19)
    nrng = np.random.default_rng(ctx.seed + 19)
    ctx.cov['rule'] = ('one case = one history (clean / stale files planted / after a failed run / two '
                       'concurrent runs / failing run) of one stage, run for real under strace -f; every '
                       'file-system event of the stage\'s process tree is one step of ScratchFS_Trace. '
                       'Non-trivial = every history (each has a distinct kind x stage); distinct by (stage, kind).')
    ctx.cov['trusted_base'] = ['TLC 1.8', 'strace (successful mkdir/rmdir/unlink/rename/open* calls with pid)',
                               'harness/fstrace.py classification of paths']
    ctx.assumptions += ['the log file is append-mode by design: "result" means the mapping / statistics / '
                        'marker outputs, compared by digest',
                        'paths created by the Python runtime itself (/tmp/pymp-*, __pycache__) are ignored']
    if ctx.only in (None, 'mc'):
        for stamp in ('FALSE',):
            cfg = (f'SPECIFICATION Spec\nCONSTANTS Runs = {{1, 2}} UseStamp = {stamp} MaxEntries = 2\n'
                   'INVARIANT NoViolation\nINVARIANT StaleUntouched\nINVARIANT EndedOwnNothing\n'
                   'CHECK_DEADLOCK FALSE\n')
            res = run_tlc('ScratchFS_MC', cfg_text=cfg, timeout=1800)
            ctx.add_tlc('ScratchFS_MC', res)
            if not res.ok:
                raise MachineryError(res.error_trace)
        # the timestamp naming is NOT safe in the model (finding F6): the model must find it
        cfg = ('SPECIFICATION Spec\nCONSTANTS Runs = {1, 2} UseStamp = TRUE MaxEntries = 2\n'
               'INVARIANT NoViolation\nCHECK_DEADLOCK FALSE\n')
        res = run_tlc('ScratchFS_MC', cfg_text=cfg, timeout=1800)
        ctx.add_tlc('ScratchFS_MC_stamp', res)
        ctx.part('mc', timestamp_collision_found_by_model='NoViolation' in res.violated)
        # error path of the mapping run: F3 in the model, and the repair
        for fixed in ('FALSE', 'TRUE'):
            cfg = ('SPECIFICATION FairSpec\nCONSTANTS N = 3 P = 2 FaultKs = {0, 1, 2, 3} '
                   'FaultPoints = {"before", "mid", "after"} FaultModes = {"kill", "raise"} '
                   f'Fixed = {fixed}\nINVARIANT ScratchEmptyAtEnd\nCHECK_DEADLOCK FALSE\n')
            res = run_tlc('WorkerPool', cfg_text=cfg, timeout=1800)
            ctx.add_tlc(f'WorkerPool_scratch_fixed_{fixed}', res)
            ctx.part('mc', **{f'scratch_empty_on_error_fixed_{fixed}': res.ok})
            # Fixed = TRUE is the code as repaired (workers stopped, buffer removed in finally): must hold.
            # Fixed = FALSE documents the defect that was repaired (finding F3): the model must find it.
            if fixed == 'TRUE' and not res.ok:
                raise MachineryError('WorkerPool: ScratchEmptyAtEnd fails for the repaired clean-up\n'
                                     + res.error_trace)
    if ctx.only not in (None, 'c2s'):
        return
    # ------------------------------------------------------------------ inputs
    base = ctx.tmpdir('c19_inputs_')
    pipe = stages.toy_pipeline(nrng, base, n_proc=2, enc='csc')
    shutil.rmtree(base / 'scratch', ignore_errors=True)
    json.dump({k: v for k, v in pipe['lookup'].items() if k != 'log'}, open(base / 'markers.json', 'w'))
    # a query for the mapping stage: the reference cells themselves, CSC so that the iterator converts
    import anndata
    ref = anndata.read_h5ad(pipe['ref']['path'])
    q = anndata.AnnData(X=ref.X[:9], obs=ref.obs.iloc[:9][[]], var=ref.var)
    q.write_h5ad(base / 'query.h5ad')
    inputs_all = [base / 'ref.h5ad', base / 'stats.h5', base / 'refm.h5', base / 'markers.json',
                  base / 'query.h5ad']
    digests0 = {str(p): file_digest(p) for p in inputs_all}

    def mapping_args(d, tag):
        conf = build.mapping_config(d, base / 'query.h5ad', base / 'stats.h5', base / 'markers.json',
                                    {'B': 5, 'fnum': 9, 'fden': 10, 'K': 2, 'chunk': 3, 'P': 2, 'minm': 1,
                                     'seed': 11, 'norm': 'raw'})
        for k in ('extended_result_path', 'csv_result_path', 'hdf5_result_path', 'log_path'):
            conf[k] = conf[k].replace('res.', f'res_{tag}.').replace('log.txt', f'log_{tag}.txt')
        outs = [conf[k] for k in ('extended_result_path', 'csv_result_path', 'hdf5_result_path', 'log_path')]
        return {'config': conf}, outs, [base / 'query.h5ad', base / 'stats.h5', base / 'markers.json']

    def stage_spec(stage, d, tag):
        d = pathlib.Path(d)
        (d / 'scratch').mkdir(exist_ok=True)
        (d / 'out').mkdir(exist_ok=True)
        if stage == 'mapping':
            return mapping_args(d, tag)
        if stage == 'precompute':
            o = d / 'out' / f'stats_{tag}.h5'
            return {'ref': str(base / 'ref.h5ad'), 'out': str(o), 'tmp': str(d / 'scratch')}, [o], [base / 'ref.h5ad']
        if stage == 'refmarkers':
            o = d / 'out' / f'refm_{tag}.h5'
            return {'stats': str(base / 'stats.h5'), 'out': str(o), 'tmp': str(d / 'scratch')}, [o], [base / 'stats.h5']
        if stage == 'pmask':
            o = d / 'out' / f'mask_{tag}.h5'
            return {'stats': str(base / 'stats.h5'), 'out': str(o), 'tmp': str(d / 'scratch')}, [o], [base / 'stats.h5']
        if stage == 'querymarkers':
            return ({'refm': str(base / 'refm.h5'), 'genes': pipe['ref']['genes'], 'tmp': str(d / 'scratch')},
                    [], [base / 'refm.h5', base / 'stats.h5'])
        if stage == 'validate':
            o = d / 'out' / f'valid_{tag}.h5ad'
            mapper = {g: f'ENSMUSG{i:011d}' for i, g in enumerate(pipe['ref']['genes']) if i % 2 == 0}
            return ({'h5ad': str(base / 'query.h5ad'), 'tmp': str(d / 'scratch'), 'valid_path': str(o),
                     'mapper': mapper},
                    [o], [base / 'query.h5ad'])
        raise ValueError(stage)

    stage_list = ['mapping', 'precompute', 'refmarkers', 'querymarkers', 'validate', 'pmask']
    histories = []
    expect = {}
    # H1 clean solo run (also gives the expected digest)
    for stage in stage_list:
        h = History(ctx, f'{stage}_clean')
        a, outs, ins = stage_spec(stage, h.dir, 'a')
        h.add(stage, a, h.dir / 'scratch', outs, ins, outdirs=[h.dir / 'out'])
        h.kind = 'clean'
        h.stage = stage
        histories.append(h)
    # H2 stale files planted under every name pattern
    for stage in stage_list:
        h = History(ctx, f'{stage}_stale')
        a, outs, ins = stage_spec(stage, h.dir, 'a')
        plant(h.dir / 'scratch')
        for o in outs:
            pathlib.Path(o).write_text('{"results": "stale"}')
        h.stale_before = listing(h.dir / 'scratch')
        h.add(stage, a, h.dir / 'scratch', outs, ins, outdirs=[h.dir / 'out'])
        h.kind = 'stale'
        h.stage = stage
        histories.append(h)
    # H3 two concurrent runs sharing scratch and output directories
    for stage in stage_list if not quick else ['mapping', 'precompute', 'refmarkers']:
        h = History(ctx, f'{stage}_concurrent', mode='par')
        for tag in ('a', 'b'):
            a, outs, ins = stage_spec(stage, h.dir, tag)
            h.add(stage, a, h.dir / 'scratch', outs, ins, outdirs=[h.dir / 'out'])
        h.kind = 'concurrent'
        h.stage = stage
        histories.append(h)
    # H4 mapping: success after a failed run in the same directories; failing runs at crash points
    faults = [(2, 'mid', 'kill'), (1, 'before', 'raise'), (3, 'after', 'exit3')]
    if not quick:
        faults = [(k, pt, m) for k in (1, 2, 3) for pt in ('before', 'mid', 'after') for m in ('kill', 'exit3', 'raise')]
    for i, (k, pt, mode) in enumerate(faults):
        h = History(ctx, f'mapping_fail_{k}_{pt}_{mode}')
        a, outs, ins = stage_spec('mapping', h.dir, 'a')
        # chunk r0 values for chunk_size 3 / 9 cells: 0, 3, 6
        plan = {'rules': [{'point': f'map.{pt}', 'match': {'r0': 3 * (k - 1)}, 'fault': mode}]}
        pp = h.dir / 'plan.json'
        json.dump(plan, open(pp, 'w'))
        h.add('mapping', a, h.dir / 'scratch', outs, ins, outdirs=[h.dir / 'out'], plan=str(pp), expect_fail=True)
        if i == 0:
            a2, outs2, ins2 = stage_spec('mapping', h.dir, 'b')
            h.add('mapping', a2, h.dir / 'scratch', outs2, ins2, outdirs=[h.dir / 'out'])
        h.kind = 'after_failure' if i == 0 else 'failure'
        h.stage = 'mapping'
        histories.append(h)

    # H4b mapping: the worker started FIRST fails at once while the workers started after it are held at a gate until
    # the run has ended: when the call has returned no worker of it is alive any more
    h = History(ctx, 'mapping_fail_first_worker_others_held')
    a, outs, ins = stage_spec('mapping', h.dir, 'a')
    a['config']['type_assignment']['n_processors'] = 3
    plan = {'rules': [{'point': 'map.before', 'match': {'r0': 0}, 'fault': 'raise'},
                      {'point': 'map.before', 'match': {'r0': 3}, 'wait_for': ['run_ended'], 'timeout': 25},
                      {'point': 'map.before', 'match': {'r0': 6}, 'wait_for': ['run_ended'], 'timeout': 25}]}
    pp = h.dir / 'plan.json'
    json.dump(plan, open(pp, 'w'))
    h.add('mapping', a, h.dir / 'scratch', outs, ins, outdirs=[h.dir / 'out'], plan=str(pp), expect_fail=True,
          end_token='run_ended')
    h.kind = 'failure'
    h.stage = 'mapping'
    h.no_orphans = True
    histories.append(h)
    # H5 mapping: failure while writing the outputs (HDF5 path in a directory that does not exist)
    h = History(ctx, 'mapping_fail_output')
    a, outs, ins = stage_spec('mapping', h.dir, 'a')
    a['config']['hdf5_result_path'] = str(h.dir / 'no_such_dir' / 'res.h5')
    h.add('mapping', a, h.dir / 'scratch', outs, ins, outdirs=[h.dir / 'out'], expect_fail=True)
    h.kind = 'failure'
    h.stage = 'mapping'
    histories.append(h)
    # H6 mapping: stale files planted, then a failing run: the stale entries must survive
    h = History(ctx, 'mapping_stale_then_failure')
    a, outs, ins = stage_spec('mapping', h.dir, 'a')
    plant(h.dir / 'scratch')
    h.stale_before = listing(h.dir / 'scratch')
    a['config']['query_markers']['serialized_lookup'] = str(h.dir / 'missing_markers.json')
    h.add('mapping', a, h.dir / 'scratch', outs, ins, outdirs=[h.dir / 'out'], expect_fail=True)
    h.kind = 'stale'
    h.stage = 'mapping'
    histories.append(h)
    # H7 mapping: two concurrent runs share the scratch directory; the first fails early, the second
    # is held (gate) in the middle of its assignment until the first has ended, then must finish
    h = History(ctx, 'mapping_concurrent_one_fails', mode='par')
    a1, outs1, ins1 = stage_spec('mapping', h.dir, 'a')
    a1['config']['query_markers']['serialized_lookup'] = str(h.dir / 'missing_markers.json')
    h.add('mapping', a1, h.dir / 'scratch', outs1, ins1, outdirs=[h.dir / 'out'], expect_fail=True,
          shared_hooks=True, end_token='first_ended')
    a2, outs2, ins2 = stage_spec('mapping', h.dir, 'b')
    pp = h.dir / 'plan_wait.json'
    json.dump({'rules': [{'point': 'map.mid', 'match': {}, 'wait_for': ['first_ended'], 'timeout': 60}]},
              open(pp, 'w'))
    h.add('mapping', a2, h.dir / 'scratch', outs2, ins2, outdirs=[h.dir / 'out'], plan=str(pp), shared_hooks=True)
    h.kind = 'concurrent'
    h.stage = 'mapping'
    histories.append(h)

    # ------------------------------------------------------------------ execute
    import concurrent.futures as cf
    with cf.ThreadPoolExecutor(max_workers=6) as ex:
        list(ex.map(lambda h: h.execute(), histories))
    for h in histories:
        if h.kind == 'clean':
            o = h.outs[1]
            if not o['ok']:
                raise MachineryError(f'clean run of stage {h.stage} failed: {o["error"]}\n{o.get("traceback", "")[-1500:]}')
            expect[h.stage] = o['digest']
    traces, owners = [], []
    for h in histories:
        ctx.count({'stage': h.stage, 'kind': h.kind, 'name': h.name}, nontrivial=True)
        evs = []
        # failing runs leave scratch behind (finding F3): the trace is cut before the "end" event so
        # that the other clauses are still evaluated, and the leftover is reported separately
        for e in h.events:
            evs.append(e)
        for run, info in h.runs.items():
            o = h.outs[run]
            if info['expect_fail']:
                if o['ok']:
                    raise MachineryError(f'history {h.name}: injected failure did not fail the run')
                if getattr(h, 'no_orphans', False) and o.get('live_children', 0) > 0:
                    ctx.report('mapping:error-path:orphan-activity', f'{CL[1901]}: the failed run has returned and '
                               f'{o["live_children"]} of its worker processes are still alive (history {h.name})',
                               {'history': h.name})
            elif not o['ok']:
                ctx.report(f'{h.stage}:{h.kind}:run-failed', f'stage {h.stage} failed in history {h.kind}: '
                           f'{o["error"]}', {'history': h.name})
            elif o['digest'] != expect[h.stage]:
                ctx.report(f'{h.stage}:{h.kind}:1920', f'{CL[1920]} (stage {h.stage}, history {h.kind})',
                           {'history': h.name})
        if h.kind == 'stale':
            after = listing(h.dir / 'scratch')
            if after != h.stale_before:
                diff = sorted(set(after.items()) ^ set(h.stale_before.items()))[:6]
                ctx.report(f'{h.stage}:stale:1921', f'{CL[1921]} / scratch listing changed: {diff}',
                           {'history': h.name})
        else:
            left = listing(h.dir / 'scratch')
            if left:
                ctx.report(f'{h.stage}:{h.kind}:left', f'scratch directory not empty after {h.kind} '
                           f'run(s) of {h.stage}: {sorted(left)[:6]}', {'history': h.name})
        traces.append({'stale': STALE if h.kind == 'stale' else [], 'mayWriteInput': False, 'events': evs})
        owners.append(h)
    for p, d0 in digests0.items():
        if file_digest(p) != d0:
            ctx.report('input-modified:1922', f'{CL[1922]}: {p}', {'path': p})
    vs = validate(ctx, 'ScratchFS_Trace', traces, 'ScratchFS_Trace')
    rej = 0
    for h, t, v in zip(owners, traces, vs):
        if not v['accepted']:
            rej += 1
            ev = t['events'][v['reached'] - 1] if v['reached'] - 1 < len(t['events']) else None
            failing = any(i['expect_fail'] for i in h.runs.values())
            if v['inv'] in (1910, 1911) and failing and ev and h.runs[ev['run']]['expect_fail']:
                sig = 'mapping:error-path:scratch-left'
            elif v['inv'] == 1901 and failing:
                sig = 'mapping:error-path:orphan-activity'
            elif v['inv'] == 1905 and h.stage == 'precompute' and ev and 'anndata_iterator_' in str(ev.get('top')):
                sig = 'precompute:csc-conversion-in-system-tmp'
            else:
                sig = f'{h.stage}:{h.kind}:{v["inv"]}'
            ctx.report(sig, f'{CL.get(v["inv"], v["inv"])} - stage {h.stage}, history {h.kind}, event '
                            f'{v["reached"]}: {ev}', {'history': h.name, 'event': ev})
    _same_name_outputs(ctx, base, pipe, expect)
    _stale_output_histories(ctx, base, pipe, expect)
    _no_scratch_dir_failure(ctx, rng)
    ctx.sample({'history': owners[0].name, 'events': traces[0]['events'][:12]})
    ctx.part('c2s', histories=len(histories), events=sum(len(t['events']) for t in traces), rejected=rej,
             stages=stage_list)
    # binding self-test: a foreign write, a stale read and a leftover must each be rejected
    t0 = copy.deepcopy(traces[0])
    bad1 = copy.deepcopy(t0)
    bad1['events'].insert(1, {'run': 1, 'op': 'wr', 'cls': 'elsewhere', 'top': '/tmp/x', 'isTop': True})
    bad2 = copy.deepcopy(t0)
    bad2['stale'] = ['zzz']
    bad2['events'].insert(1, {'run': 1, 'op': 'rd', 'cls': 'scratch', 'top': 'zzz', 'isTop': False})
    bad3 = copy.deepcopy(t0)
    bad3['events'] = [e for e in bad3['events'] if not (e['op'] == 'rm' and e['isTop'])]
    sv = validate(ctx, 'ScratchFS_Trace', [bad1, bad2, bad3], 'selftest', counts_as_impl=False)
    acc = sum(1 for v in sv if v['accepted'])
    ctx.cov['selftest'] = {'corrupted': 3, 'rejected': 3 - acc, 'clauses': [v['inv'] for v in sv]}
    if acc:
        raise MachineryError(f'self-test: {acc} corrupted syscall traces accepted')


def _run_jobs_plain(d, jobs):
    """run stage jobs (dicts) one after the other in fresh interpreters; returns their outputs"""
    spec = []
    for i, job in enumerate(jobs):
        jp, op = d / f'job_{i + 1}.json', d / f'out_{i + 1}.json'
        job.update(run=i + 1, sentinel_dir=str(d / 'sentinel'), plan=None, trace_dir=str(d / f'hooks_{i + 1}'),
                   end_token=None, n_jobs=len(jobs))
        json.dump(job, open(jp, 'w'))
        spec.append([str(jp), str(op), {}])
    json.dump({'mode': 'seq', 'jobs': spec}, open(d / 'launch.json', 'w'))
    env = dict(os.environ)
    env['PYTHONPATH'] = ROOT + ':' + env.get('PYTHONPATH', '')
    subprocess.run(['/venv/bin/python', '-W', 'ignore', '-m', 'harness.launch', str(d / 'launch.json')],
                   env=env, cwd=ROOT, capture_output=True, text=True, timeout=600)
    return [json.load(open(op)) for _, op, _ in spec]


def _stale_output_histories(ctx, base, pipe, expect):
    """H9 validation of a file that needs no change, requested output = a path with the input's own base
    name at which an earlier run left a validated file: the state of the output location must be that of a
    run in a fresh directory.  H10 query-marker selection with search_for_stats_file on a reference-marker
    file stored away from its statistics file, with a stale same-named statistics file (another taxonomy)
    next to it: the recorded statistics file exists, so the stale one must not be looked at."""
    import anndata
    import h5py
    # ---- H9
    vin = ctx.tmpdir('hist_validate_nochange_in_')
    q = anndata.read_h5ad(base / 'query.h5ad')
    q.var.index = [f'ENSMUSG{i:011d}' for i in range(q.n_vars)]
    X = q.X.toarray() if hasattr(q.X, 'toarray') else np.asarray(q.X)
    anndata.AnnData(X=np.round(X).astype(np.int64), obs=q.obs, var=q.var).write_h5ad(vin / 'query.h5ad')
    states = {}
    for kind in ('fresh', 'stale'):
        d = ctx.tmpdir(f'hist_validate_nochange_{kind}_')
        for sub in ('scratch', 'out', 'sentinel'):
            (d / sub).mkdir()
        o = d / 'out' / 'query.h5ad'
        if kind == 'stale':
            shutil.copy(base / 'query.h5ad', o)          # what an earlier run left at the requested path
        outs = _run_jobs_plain(d, [{'stage': 'validate', 'args': {'h5ad': str(vin / 'query.h5ad'), 'tmp': str(d / 'scratch'),
                                                                  'valid_path': str(o), 'mapper': {'zz': 'ENSMUSG99999999999'}}}])
        states[kind] = {'ok': outs[0]['ok'], 'returned': str(outs[0].get('returned')), 'exists': o.exists(),
                        'scratch': sorted(os.listdir(d / 'scratch')), 'error': outs[0].get('error')}
    ctx.count({'stage': 'validate', 'kind': 'nochange_stale_output'}, nontrivial=True)
    a, b = states['fresh'], states['stale']
    if not a['ok']:
        raise MachineryError(f'validation of an already valid file failed: {a["error"]}')
    if (a['ok'], a['exists'], a['scratch']) != (b['ok'], b['exists'], b['scratch']) or \
            a['returned'].replace('fresh', '') != b['returned'].replace('stale', ''):
        ctx.report('validate:stale:output-location', f'validation of a file that needs no change: fresh directory -> {a}, '
                   f'with an earlier output at the requested path -> {b}', {'history': 'validate_nochange_stale_output'})
    # ---- H10
    d = ctx.tmpdir('hist_querymarkers_search_')
    for sub in ('scratch', 'out', 'sentinel', 'elsewhere'):
        (d / sub).mkdir()
    shutil.copy(base / 'refm.h5', d / 'elsewhere' / 'refm.h5')
    # a statistics file of another taxonomy under the recorded file's name, next to the marker file
    from cell_type_mapper.diff_exp.truncate_precompute import truncate_precomputed_stats_file
    truncate_precomputed_stats_file(str(base / 'stats.h5'), str(d / 'elsewhere' / 'stats.h5'), ['class'])
    outs = _run_jobs_plain(d, [{'stage': 'querymarkers', 'args': {'refm': str(d / 'elsewhere' / 'refm.h5'),
                                                                  'genes': pipe['ref']['genes'], 'tmp': str(d / 'scratch'),
                                                                  'search': True}}])
    ctx.count({'stage': 'querymarkers', 'kind': 'search_stale_stats'}, nontrivial=True)
    o = outs[0]
    if not o['ok']:
        ctx.report('querymarkers:stale:run-failed', f'query-marker selection with search_for_stats_file failed: {o["error"]}',
                   {'history': 'querymarkers_search_stale_stats'})
    elif o['digest'] != expect['querymarkers']:
        ctx.report('querymarkers:stale:1920', f'{CL[1920]} (query markers, stale statistics file next to the marker file)',
                   {'history': 'querymarkers_search_stale_stats'})
    ctx.part('c2s', stale_output_histories=2)


def _no_scratch_dir_failure(ctx, rng):
    """H11 a mapping run WITHOUT a scratch directory (tmp_dir = None: the buffer of finished chunks is created in
    the output directory) that ends with an error leaves nothing there but its outputs"""
    from harness import sub
    s = None
    while s is None:
        s = base_scenario(rng, 3, 3)
    jobs = []
    # each run gets a system temporary directory of its own (TMPDIR): without a scratch directory that is where the
    # stage puts what it needs meanwhile, and nothing of it may be left once the call has returned (H12)
    systmp = []
    for k, pt, mode in ((3, 'after', 'raise'), (2, 'mid', 'kill'), (0, 'none', 'none')):
        st = ctx.scratch / f'h11_systmp_{k}'
        st.mkdir(parents=True, exist_ok=True)
        systmp.append(st)
        pp = None
        if mode != 'none':
            pp = ctx.scratch / f'h11_plan_{k}.json'
            json.dump(pooltrace.fault_plan(s, k, pt, mode), open(pp, 'w'))
        jobs.append({'job': {'scn': s, 'scheme': 'structural', 'plan': str(pp) if pp else None, 'mode': 'cli',
                             'damage': 'no_tmp_dir'}, 'env': {'TMPDIR': str(st)}})
    for (k, pt, mode), st, o in zip(((3, 'after', 'raise'), (2, 'mid', 'kill'), (0, 'none', 'none')), systmp,
                                    sub.run_jobs(ctx, jobs)):
        ctx.count({'stage': 'mapping', 'kind': 'without_scratch_dir', 'fault': [k, pt, mode]}, nontrivial=True)
        extra = [x for x in o.get('out_listing', []) if x not in ('res.json', 'log.txt', 'res.h5', 'res.csv')]
        left = sorted(x for x in os.listdir(st) if not x.startswith('pymp-'))
        if left and mode != 'kill':
            # (a killed worker cannot tidy up after itself: only the runs whose processes all end in Python are asserted)
            ctx.report('mapping:no-scratch-dir:system-temp-left', f'a mapping run without a scratch directory '
                       f'({"successful" if mode == "none" else f"worker {k} fails {pt} its work by {mode}"}) left '
                       f'{[re.sub(r"_[a-z0-9_]{8}", "_*", x) for x in left]} in the system temporary directory',
                       {'history': 'mapping_without_scratch_dir_system_temp', 'fault': [k, pt, mode]})
        if mode == 'none':
            if not o['ok']:
                raise MachineryError(f'history H12: the run without a scratch directory failed: {o["error"]}')
            continue
        if o['ok']:
            raise MachineryError('history H11: the injected failure did not fail the run')
        if extra:
            ctx.report('mapping:error-path:output-dir-left', f'a failing mapping run without a scratch directory left {extra} '
                       f'in the output directory (worker {k} fails {pt} its work by {mode})',
                       {'history': 'mapping_fail_without_scratch_dir', 'fault': [k, pt, mode]})
    # H13 a run that stops because its result / log file cannot be written (directory missing) leaves nothing in the
    # scratch directory it was given
    jobs = [{'job': {'scn': s, 'scheme': 'structural', 'plan': None, 'mode': 'cli', 'damage': dmg}}
            for dmg in ('missing_out_dir', 'missing_log_dir')]
    for dmg, o in zip(('missing_out_dir', 'missing_log_dir'), sub.run_jobs(ctx, jobs)):
        ctx.count({'stage': 'mapping', 'kind': 'unwritable_output', 'damage': dmg}, nontrivial=True)
        if o['ok']:
            raise MachineryError(f'history H13: the run with {dmg} did not fail')
        if o.get('scratch_left'):
            ctx.report('mapping:unwritable-output:scratch-left', f'a mapping run that stops because its '
                       f'{"result" if dmg == "missing_out_dir" else "log"} file cannot be written (directory missing) left '
                       f'{[re.sub(r"_[0-9]{14}_[a-z0-9_]{8}", "_*", x) for x in o["scratch_left"]]} in its scratch directory',
                       {'history': 'mapping_unwritable_output', 'damage': dmg})
    ctx.part('c2s', no_scratch_dir_failures=2, no_scratch_dir_success=1, unwritable_output_failures=2)


def _same_name_outputs(ctx, base, pipe, expect):
    """H8 two concurrent validations that derive their output name from the input name and the
    clock (output_dir mode): started within the same second (ScratchFS_MC with UseStamp = TRUE says
    the two runs then share an entry).  Each must still return the clean result."""
    mapper = {g: f'ENSMUSG{i:011d}' for i, g in enumerate(pipe['ref']['genes']) if i % 2 == 0}
    exercised = False
    for attempt in range(3):
        d = ctx.tmpdir('hist_validate_same_name_')
        for sub in ('scratch', 'out', 'sentinel'):
            (d / sub).mkdir()
        jobs = []
        for run in (1, 2):
            job = {'stage': 'validate', 'run': run, 'sentinel_dir': str(d / 'sentinel'), 'plan': None,
                   'trace_dir': str(d / f'hooks_{run}'), 'end_token': None, 'barrier': str(d / 'sentinel'),
                   'n_jobs': 2, 'align_second': True,
                   'args': {'h5ad': str(base / 'query.h5ad'), 'tmp': str(d / 'scratch'), 'mapper': mapper,
                            'output_dir': str(d / 'out')}}
            jp, op = d / f'job_{run}.json', d / f'out_{run}.json'
            json.dump(job, open(jp, 'w'))
            jobs.append([str(jp), str(op), {}])
        json.dump({'mode': 'par', 'jobs': jobs}, open(d / 'launch.json', 'w'))
        env = dict(os.environ)
        env['PYTHONPATH'] = ROOT + ':' + env.get('PYTHONPATH', '')
        subprocess.run(['/venv/bin/python', '-W', 'ignore', '-m', 'harness.launch', str(d / 'launch.json')],
                       env=env, cwd=ROOT, capture_output=True, text=True, timeout=300)
        outs = [json.load(open(op)) for _, op, _ in jobs]
        names = set(os.listdir(d / 'out'))
        returned = [o.get('returned') for o in outs if o['ok']]
        same = len(names) < 2 or len(set(str(r) for r in returned)) < len(returned) or not all(o['ok'] for o in outs)
        if not same:
            continue                        # the two runs fell into different seconds: not the history wanted
        exercised = True
        ctx.count({'stage': 'validate', 'kind': 'concurrent_same_name'}, nontrivial=True)
        for o in outs:
            if not o['ok']:
                ctx.report('validate:output_dir:name-collision',
                           f'two concurrent validations into one output directory: one ended with {o["error"]}',
                           {'history': 'validate_concurrent_same_name'})
                break
            if o['digest'] != expect['validate']:
                ctx.report('validate:output_dir:name-collision',
                           'two concurrent validations into one output directory: a returned file differs from '
                           'the clean result', {'history': 'validate_concurrent_same_name'})
                break
        break
    ctx.part('c2s', same_name_history_exercised=exercised)


def replay(ctx, path):
    ctx.only = 'c2s'
    run(ctx)
