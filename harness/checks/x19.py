"""X19 (extension suite, not one of the 20 listed statements) - a list of row numbers turned into slices
(utils/utils.py: merge_index_list; used by the bulk row loading of utils/sparse_utils.py).

1. MC   : IndexRuns.tla, every list of 1-4 values over 0..5 (any order, repeats): Exact (the slices cover the asked
          rows and no other), Maximal (they neither touch nor overlap), NonEmptySlices.
2. S->C : every list of the model through the real function, as a Python list and as a numpy array;
          IndexRuns_Trace compares the covered rows, the slices against the maximal runs, and their order.
"""
import copy
import json
import os
import pathlib

from harness.tlc import run_tlc, MachineryError
from harness.traces import validate

PID = 'X19'
CL = {3901: 'the slices do not cover exactly the asked rows', 3902: 'the slices are not the maximal runs',
      3903: 'the slices are not ascending or one is given twice', 3990: 'list and array input give different answers',
      0: 'not possible in the model'}


def _case(scn):
    import numpy as np
    from cell_type_mapper.utils.utils import merge_index_list
    r1 = [[int(a), int(b)] for a, b in merge_index_list(list(scn['lst']))]
    r2 = [[int(a), int(b)] for a, b in merge_index_list(np.array(scn['lst'], dtype=np.int64))]
    return {'lst': list(scn['lst']), 'events': [{'result': r1}], 'side': 0 if r1 == r2 else 3990}


def run(ctx):
    ctx.cov['rule'] = ('one case = one list of 1-4 row numbers over 0..5 (order and repeats matter) through the real '
                       'function; non-trivial = at least two different values; all 1,554 lists in both tiers.')
    ctx.cov['trusted_base'] = ['TLC 1.8']
    sd = os.path.join(os.path.dirname(__file__), '..', '..', 'spec')
    cfg = open(os.path.join(sd, 'IndexRuns_MC.cfg')).read() + 'CONSTRAINT Emit\n'
    res = run_tlc('IndexRuns_MC', cfg_text=cfg, workers=1, timeout=600)
    ctx.add_tlc('IndexRuns_MC', res)
    if not res.ok:
        raise MachineryError(res.error_trace or res.stdout[-1500:])
    scns = [json.loads(t[1]) for t in res.tuples('SCN')]
    scns = list({json.dumps(s, sort_keys=True): s for s in scns}.values())
    if len(scns) != 1554:
        raise MachineryError(f'{len(scns)} scenarios instead of 1554')
    recs = []
    for s in scns:
        recs.append(_case(s))
        ctx.count({'s': s}, nontrivial=len(set(s['lst'])) >= 2)
    vs = validate(ctx, 'IndexRuns_Trace', recs, 'IndexRuns_Trace', cfg='IndexRuns_Trace.cfg')
    rej = 0
    for s, rec, v in zip(scns, recs, vs):
        if not v['accepted']:
            rej += 1
            ctx.report(f'clause:{v["inv"]}', f'{CL.get(v["inv"], v["inv"])} - list={s["lst"]}: {rec["events"][0]}',
                       {'scenario': s})
        elif rec['side']:
            rej += 1
            ctx.report(f'clause:{rec["side"]}', f'{CL[rec["side"]]} - list={s["lst"]}', {'scenario': s})
    ctx.part('s2c', lists=len(scns), rejected=rej)
    ctx.sample({'scenario': scns[-1], 'observed': recs[-1]['events']})
    st = []
    for r in recs[:400]:
        r2 = copy.deepcopy(r)
        r2['events'][0]['result'][-1][1] += 1
        st.append(r2)
    for r in [r for r in recs if len(r['events'][0]['result']) >= 2][:100]:
        r2 = copy.deepcopy(r)
        r2['events'][0]['result'] = r2['events'][0]['result'][::-1]
        st.append(r2)
    sv = validate(ctx, 'IndexRuns_Trace', st, 'selftest', cfg='IndexRuns_Trace.cfg', counts_as_impl=False)
    acc = sum(1 for v in sv if v['accepted'])
    ctx.cov['selftest'] = {'corrupted': len(st), 'rejected': len(st) - acc}
    if acc or not st:
        raise MachineryError('self-test: corrupted slices accepted')
    ctx.cov['exhaustive'] = True


def replay(ctx, path):
    case = json.load(open(pathlib.Path(path) / 'replay.json'))['case']['scenario']
    rec = _case(case)
    v = validate(ctx, 'IndexRuns_Trace', [rec], 'replay', cfg='IndexRuns_Trace.cfg')[0]
    if not v['accepted']:
        ctx.report(f'clause:{v["inv"]}', CL.get(v['inv']), {'scenario': case})
    elif rec['side']:
        ctx.report(f'clause:{rec["side"]}', CL[rec['side']], {'scenario': case})
    ctx.count(case)
