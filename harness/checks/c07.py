"""C07 - mapping is invariant to count scale, declared normalisation, gene order.

1. MC   : Normalize.tla - object-level guards (never normalise twice, gene-down-selected flag
          blocks normalisation) and the mapper's order of operations (CPM denominator over all
          genes of the file; normalised before any down-selection); MarkerTable pairing is
          checked in C08.
2. S->C : every reachable operation history of the model (ToLog / DownGenes / DownCells, depth
          <= 3) is replayed into the real CellByGeneMatrix: outcome (ok / refused), resulting
          normalisation, gene set, flag and - numeric leaf - log2(1+CPM) over exactly the genes
          present when ToLog ran.
3. relations (Relations_Trace decides): (i) permuted query columns, any factor -> bitwise
          equal; (ii) normalised input +/- non-marker / non-reference genes -> bitwise equal;
          (iii) raw vs harness-computed log2(CPM+1) declared normalised, and raw cells scaled
          by positive constants, factor 1 -> discrete equal, floats within 1e-8 (near-ties
          not asserted); (iv) raw input with a negative value, each encoding -> error, no
          results.
"""
import copy
import json
import random

import numpy as np

from harness import maptrace, relations
from harness.checks.c17 import safe_markers
from harness.tlc import run_tlc, MachineryError

PID = 'C07'


def replay_history(s, rng):
    from cell_type_mapper.cell_by_gene.cell_by_gene import CellByGeneMatrix
    genes = ['g1', 'g2', 'g3']
    X = rng.integers(0, 50, size=(4, 3)).astype(float)
    first_norm = 'raw'
    # the initial normalisation is part of the state: infer from the history's first tolog outcome
    # (emitted state carries norm; initial norm = 'log2CPM' iff no successful tolog and norm=log2CPM)
    ok_tolog = False
    init_norm = s['init_norm']
    m = CellByGeneMatrix(data=X.copy(), gene_identifiers=list(genes), normalization=init_norm)
    cur = X.copy()
    cur_genes = list(genes)
    last = 'init'
    for h in s['hist']:
        try:
            if h['op'] == 'tolog':
                m.to_log2CPM_in_place()
                cpm = 1e6 * cur / np.where(cur.sum(axis=1) > 0, cur.sum(axis=1), 1.0)[:, None]
                cur = np.log2(1.0 + cpm)
            elif h['op'] == 'downgenes':
                sel = [f'g{g}' for g in sorted(h['genes'])]
                m = m.downsample_genes(sel)
                cur = cur[:, [cur_genes.index(g) for g in sel]]
                cur_genes = sel
            else:
                sel_rows = list(range(0, cur.shape[0], 2))
                m = m.downsample_cells(sel_rows)
                cur = cur[sel_rows, :]
            last = 'ok'
        except RuntimeError:
            last = 'error'
    bad = []
    if last != s['last'] and s['hist']:
        bad.append(f'last operation outcome {last}, spec {s["last"]}')
    if m.normalization != s['norm']:
        bad.append(f'normalization {m.normalization}, spec {s["norm"]}')
    if sorted(m.gene_identifiers) != [f'g{g}' for g in sorted(s['genes'])]:
        bad.append(f'genes {m.gene_identifiers}, spec {s["genes"]}')
    if bool(m._genes_downsampled) != s['gdown']:
        bad.append(f'flag {m._genes_downsampled}, spec {s["gdown"]}')
    if not bad and not np.allclose(m.data, cur, rtol=1e-12, atol=1e-12):
        bad.append('data differ from log2(1+CPM) over the genes present at normalisation time')
    return bad


def run(ctx):
    quick = ctx.tier == 'quick'
    rng = random.Random(ctx.seed + 7)
    nrng = np.random.default_rng(ctx.seed + 7)
    ctx.cov['rule'] = ('cases: (a) every operation history of Normalize.tla up to depth 3 replayed into '
                       'CellByGeneMatrix; (b) pairs of real runs related by column permutation, extra '
                       'genes, raw vs declared log2CPM, positive per-cell scaling; (c) raw input with a '
                       'negative entry per encoding. Non-trivial = pair whose files differ; distinct by JSON.')
    ctx.cov['trusted_base'] = ['TLC 1.8', 'numpy log2 / float Pearson in the harness for numeric leaves']
    if ctx.only in (None, 'mc'):
        for cfg in ('Normalize.cfg', 'Normalize_P.cfg'):
            res = run_tlc('Normalize', cfg=cfg, timeout=1800)
            ctx.add_tlc(cfg, res)
            if not res.ok:
                raise MachineryError(res.error_trace or res.stdout[-2000:])
    if ctx.only in (None, 's2c'):
        res = run_tlc('Normalize', cfg_text='SPECIFICATION GenSpec\nCONSTANTS AllGenes = {1, 2, 3} '
                      'MaxOps = 3\nCHECK_DEADLOCK FALSE\n', workers=1, timeout=1800)
        ctx.add_tlc('Normalize_gen', res)
        scns = [json.loads(t[1]) for t in res.tuples('SCN')]
        nbad = 0
        for s in scns:
            # initial normalisation: the model's Init picks it; recover from the history
            n_ok_tolog = 0
            # replay both initial values and keep the one consistent with the emitted state
            verdicts = []
            for init_norm in ('raw', 'log2CPM'):
                s2 = dict(s)
                s2['init_norm'] = init_norm
                verdicts.append(replay_history(s2, nrng))
            ctx.count({'h': s}, nontrivial=len(s['hist']) > 0)
            if all(verdicts):
                nbad += 1
                ctx.report('normalize:history', f'history {s["hist"]}: {verdicts}', {'history': s})
        ctx.part('s2c', histories=len(scns), disagreements=nbad)
        ctx.cov['exhaustive'] = True
    if ctx.only in (None, 'rel'):
        n = 14 if quick else 600
        items, meta = [], []
        for b in range(n):
            base = maptrace.gen_scenario(rng, max_levels=3, max_leaves=6, min_leaves=2, G=10, vmax=9,
                                         ncell=rng.randint(2, 7), cfg={'drop': None, 'flatten': False})
            if len(base['tree']['nodes'][0]) == 1:
                base['tree'] = maptrace.random_tree(rng, 1, 5, 2)
                base['means'] = {str(l): [rng.randint(0, 9) for _ in range(base['G'])]
                                 for l in base['tree']['nodes'][-1]}
                base['markers'] = {'0/0': base['markers']['0/0']}
            safe_markers(rng, base)
            scheme = rng.choice(['structural', 'reversed', 'shared'])
            items.append((base, scheme, {}))
            meta.append(('base', None))
            # (i) column permutation, any factor
            img = copy.deepcopy(base)
            perm = list(range(len(base['qgenes'])))
            rng.shuffle(perm)
            img['qgenes'] = [base['qgenes'][i] for i in perm]
            img['Q'] = [[row[i] for i in perm] for row in base['Q']]
            items.append((img, scheme, {}))
            meta.append(('perm', 'order_bits'))
            # (ii) extra genes: unknown to the reference, or reference genes in no marker list
            img = copy.deepcopy(base)
            listed = set(g for v in base['markers'].values() for g in v)
            extra = [g for g in range(1, base['G'] + 1) if g not in listed and g not in base['qgenes']]
            extra += [base['G'] + 5, base['G'] + 6]
            for g in extra:
                pos = rng.randint(0, len(img['qgenes']))
                img['qgenes'].insert(pos, g)
                big_ = (g > base['G'] and g == extra[-1])      # one unknown gene holds huge values (a QC-like column)
                for row in img['Q']:
                    row.insert(pos, rng.choice([50, 4000, 1000000]) if big_ else rng.randint(0, 4))
            items.append((img, scheme, {}))
            meta.append(('extra', 'order_bits'))
            # a pair under a memory budget that is just enough for batches of 4 cells of the base file: the
            # number of genes in the file must not decide how the cells are batched
            if b % 2 == 0:
                tb = copy.deepcopy(base)
                while len(tb['cells']) < 9:
                    tb['cells'].append(200 + len(tb['cells']))
                    tb['Q'].append([rng.randint(0, 9) for _ in tb['qgenes']])
                tb['cfg'].update(P=1, chunk=4, enc='dense', max_gb=(32 * len(tb['qgenes']) + 1) / 2 ** 30)
                ti = copy.deepcopy(tb)
                for g in extra:
                    pos = rng.randint(0, len(ti['qgenes']))
                    ti['qgenes'].insert(pos, g)
                    for row in ti['Q']:
                        row.insert(pos, rng.randint(0, 4))
                items.append((tb, scheme, {}))
                meta.append(('base', None))
                items.append((ti, scheme, {}))
                meta.append(('extra', 'order_bits'))
                items.append((base, scheme, {}))       # restore the plain base for the relations below
                meta.append(('base', None))
            removable = [g for g in base['qgenes'] if g not in listed]
            if removable:
                img = copy.deepcopy(base)
                g = rng.choice(removable)
                pos = img['qgenes'].index(g)
                img['qgenes'].pop(pos)
                for row in img['Q']:
                    row.pop(pos)
                items.append((img, scheme, {}))
                meta.append(('removed', 'order_bits'))
            # (iii) raw counts vs declared log2CPM, factor 1
            raw = copy.deepcopy(base)
            raw['cfg'].update(norm='raw', fnum=1, fden=1)
            raw['Q'] = [[rng.randint(0, 30) for _ in base['qgenes']] for _ in base['cells']]
            X = np.array(raw['Q'], dtype=float)
            den = np.where(X.sum(axis=1) > 0, X.sum(axis=1), 1.0)
            L = np.log2(1.0 + 1e6 * X / den[:, None])
            items.append((raw, scheme, {'want_trace': True}))
            meta.append(('rawbase', L.tolist()))
            declared = copy.deepcopy(raw)
            declared['cfg']['norm'] = 'log2CPM'
            declared['Qf'] = L.tolist()
            items.append((declared, scheme, {}))
            meta.append(('declared', 'order_close'))
            scaled = copy.deepcopy(raw)
            fac = [rng.choice([2.0, 4.0, 3.0, 7.0, 0.5, 1e-3, 123.0, 1e-8, 2.0 ** -30, 1.0 + 2e-8, 1e6]) for _ in raw['cells']]
            scaled['Qf'] = (X * np.array(fac)[:, None]).tolist()
            items.append((scaled, scheme, {}))
            meta.append(('scaled', 'order_close'))
            if b % 2 == 0:
                # the same small counts stored densely in half precision (every count is exact in it)
                half = copy.deepcopy(raw)
                half['cfg'].update(qdtype='float16', enc='dense')
                items.append((half, scheme, {}))
                meta.append(('scaled', 'order_close'))
            # (iii') the same raw counts, one cell made deep (each count fits 16 bits, the cell's total does not), stored as
            # float64 / uint16 / int32: the storage type of the counts does not matter
            Xd = X.copy()
            Xd[0] = np.minimum(65535, X[0] * 2000 + 20000)
            den2 = np.where(Xd.sum(axis=1) > 0, Xd.sum(axis=1), 1.0)
            L2 = np.log2(1.0 + 1e6 * Xd / den2[:, None])
            deepf = copy.deepcopy(raw)
            deepf['Qf'] = Xd.tolist()
            items.append((deepf, scheme, {'want_trace': True}))
            meta.append(('rawbase', L2.tolist()))
            for qd in (('uint16', 'int32') if b % 2 else ('int32', 'uint16'))[:1 if quick else 2]:
                deepi = copy.deepcopy(deepf)
                deepi['cfg']['qdtype'] = qd
                deepi['cfg']['enc'] = rng.choice(['dense', 'csr', 'csc'])
                items.append((deepi, scheme, {}))
                meta.append(('scaled', 'order_close'))
            # (iv) negative raw value in each encoding (dense also in HDF5 chunks wider than tall, the negative
            # value then in the last column)
            for enc in ('dense', 'csr', 'csc', 'dense_chunked'):
                neg = copy.deepcopy(raw)
                neg['cfg']['enc'] = enc
                Xn = X.copy()
                # a clearly negative count, or a negative value of tiny magnitude: both are negative
                Xn[rng.randrange(len(Xn)), rng.randrange(Xn.shape[1]) if enc != 'dense_chunked' else Xn.shape[1] - 1] = \
                    rng.choice([-1.0 * rng.randint(1, 3), -5e-7, -1e-9])
                neg['Qf'] = Xn.tolist()
                items.append((neg, scheme, {}))
                meta.append(('negative', enc))
                if enc != 'dense_chunked' and b % 2 == 0:
                    # ... and a negative count in a matrix stored with a signed integer type
                    negi = copy.deepcopy(raw)
                    negi['cfg'].update(enc=enc, qdtype=rng.choice(['int32', 'int64', 'int16']))
                    Xi = X.copy()
                    Xi[rng.randrange(len(Xi)), rng.randrange(Xi.shape[1])] = -1.0 * rng.randint(1, 3)
                    negi['Qf'] = Xi.tolist()
                    items.append((negi, scheme, {}))
                    meta.append(('negative', enc + '-int'))
            # (i') the query lists the reference genes in reference order (all markers adjacent); the image keeps
            # the first and the last column and permutes the inner ones
            refbase = copy.deepcopy(base)
            refbase['qgenes'] = list(range(1, base['G'] + 1)) + [base['G'] + 5]
            refbase['Q'] = [[rng.randint(0, 9) for _ in refbase['qgenes']] for _ in base['cells']]
            items.append((refbase, scheme, {}))
            meta.append(('base', None))
            img = copy.deepcopy(refbase)
            inner = list(range(1, base['G'] - 1))
            rng.shuffle(inner)
            perm = [0] + inner + [base['G'] - 1, base['G']]
            img['qgenes'] = [refbase['qgenes'][i] for i in perm]
            img['Q'] = [[row[i] for i in perm] for row in refbase['Q']]
            items.append((img, scheme, {}))
            meta.append(('perm', 'order_bits'))
        # (iv') large sparse raw queries (several HDF5 chunks of X/data) with the negative value in
        # the tail of the data array / in the middle / at the start
        for enc in ('csr', 'csc'):
            for where in ('tail', 'middle', 'start'):
                nb = rng.choice([397, 523, 611, 455])
                big = maptrace.gen_scenario(rng, tree=maptrace.random_tree(rng, 1, 4, 2), G=10, vmax=9,
                                            ncell=nb, cfg={'drop': None, 'flatten': False, 'norm': 'raw',
                                                           'enc': enc, 'chunk': 200, 'P': 2, 'B': 1})
                big['cells'] = list(range(1, nb + 1))
                Xb = np.array([[rng.randint(1, 20) for _ in big['qgenes']] for _ in range(nb)], dtype=float)
                r_ = {'tail': nb - 1, 'middle': rng.randint(150, 250), 'start': 0}[where]
                c_ = {'tail': len(big['qgenes']) - 1, 'middle': rng.randrange(len(big['qgenes'])), 'start': 0}[where]
                Xb[r_, c_] = -3.0
                big['Q'] = [[0] * len(big['qgenes'])] * nb
                big['Qf'] = Xb.tolist()
                items.append((big, 'structural', {}))
                meta.append(('negative', f'{enc}-large-{where}'))
        # (i'') raw counts that are not integers (tenths): the statement's "bitwise" covers them too (known finding F27)
        for k_ in range(8):
            fb = maptrace.gen_scenario(rng, max_levels=2, max_leaves=4, min_leaves=2, G=10, vmax=9, ncell=20,
                                       cfg={'drop': None, 'flatten': False, 'norm': 'raw', 'B': 1, 'fnum': 1, 'fden': 1})
            if len(fb['tree']['nodes'][0]) == 1:
                fb['tree'] = maptrace.random_tree(rng, 1, 4, 2)
                fb['means'] = {str(l): [rng.randint(0, 9) for _ in range(fb['G'])] for l in fb['tree']['nodes'][-1]}
                fb['markers'] = {'0/0': fb['markers']['0/0']}
            safe_markers(rng, fb)
            fb['Qf'] = [[rng.randint(1, 97) * 0.1 for _ in fb['qgenes']] for _ in fb['cells']]
            items.append((fb, 'structural', {}))
            meta.append(('fracbase', None))
            img = copy.deepcopy(fb)
            perm = list(range(len(fb['qgenes'])))[::-1]
            img['qgenes'] = [fb['qgenes'][i] for i in perm]
            img['Q'] = [[row[i] for i in perm] for row in fb['Q']]
            img['Qf'] = [[row[i] for i in perm] for row in fb['Qf']]
            items.append((img, 'structural', {}))
            meta.append(('perm_rawfrac', 'order_bits'))
        rs = relations.run_many(ctx, items)
        pairs = []
        base = rawbase = fracbase = None
        und_total = 0
        for r, (kind, arg) in zip(rs, meta):
            if kind == 'base':
                base = r
                continue
            if kind == 'rawbase':
                rawbase = r
                rawL = arg
                continue
            if kind == 'fracbase':
                fracbase = r
                continue
            ctx.count({'s': r['scn'], 'kind': kind}, nontrivial=True)
            if kind == 'negative':
                if r['ok'] or r.get('has_results'):
                    ctx.report('negative-raw-accepted', f'raw input with a negative value was mapped '
                               f'(encoding {arg}): ok={r["ok"]}', {'scn': r['scn'], 'scheme': r['scheme']})
                continue
            ref = rawbase if kind in ('declared', 'scaled') else fracbase if kind == 'perm_rawfrac' else base
            if not ref['ok'] or not r['ok']:
                ctx.report('pair:run-failed', f'{kind}: base ok={ref["ok"]} ({ref["error"]}) image ok='
                           f'{r["ok"]} ({r["error"]})', {'base': ref['scn'], 'img': r['scn']})
                continue
            ids = list(ref['scn']['cells'])
            rel = arg
            if kind in ('declared', 'scaled'):
                und = relations.undetermined_cells(ref['scn'], ref['trace'], Qfloat=rawL)
                und_total += len(und)
                ids = [c for c in ids if c not in und]
                rel = 'join_close'
            pairs.append({'rel': rel, 'tree': ref['scn']['tree'], 'base': ref['recs'], 'image': r['recs'],
                          'levels': ref['scn']['tree']['hier'], 'ids': ids, 'kind': kind,
                          'b': ref['scn'], 'i': r['scn'], 'scheme': r['scheme']})
            if kind in ('perm', 'extra', 'removed') and ref['markers'] != r['markers']:
                ctx.report(f'markers-differ:{kind}', 'reported marker_genes differ between the two runs',
                           {'base': ref['scn'], 'img': r['scn']})
        rej = 0
        again = []
        for p, v in relations.decide(ctx, pairs, 'Relations_Trace_c07'):
            if not v['accepted']:
                rej += 1
                ctx.report(f'clause:{v["inv"]}:{p["kind"]}', f'{relations.CL.get(v["inv"])} ({p["kind"]})',
                           {'base': p['b'], 'img': p['i'], 'scheme': p['scheme']})
                if p['kind'] == 'perm_rawfrac':
                    again.append(dict(p, rel='join_close', kind='perm_rawfrac_beyond_rounding'))
        # the known finding F27 covers last-bit differences only: anything beyond rounding is reported on its own
        if again:
            for p, v in relations.decide(ctx, again, 'Relations_Trace_c07_rawfrac'):
                if not v['accepted']:
                    ctx.report(f'clause:{v["inv"]}:{p["kind"]}', f'{relations.CL.get(v["inv"])} ({p["kind"]})',
                               {'base': p['b'], 'img': p['i'], 'scheme': p['scheme']})
        if pairs:
            ctx.sample({'kind': pairs[0]['kind'], 'rel': pairs[0]['rel'], 'base_first': pairs[0]['base'][:1],
                        'image_first': pairs[0]['image'][:1]})
        ctx.part('pairs', compared=len(pairs), rejected=rej, undetermined_cells=und_total,
                 negative_runs=sum(1 for k, _ in meta if k == 'negative'),
                 kinds={k: sum(1 for p in pairs if p['kind'] == k)
                        for k in ('perm', 'extra', 'removed', 'declared', 'scaled')})


def replay(ctx, path):
    from harness.checks.c06 import replay as rp
    rp(ctx, path)
