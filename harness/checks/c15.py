"""C15 - JSON, CSV and HDF5 outputs tell the same story and round-trip.

1. MC   : Outputs_MC - HDF5 encode/decode round trip for every level entry (nodes, runner-up
          slots, node orders) and the four-decimal rule.
2. C->S : the three files of real runs (name tables present/absent, names needing CSV quoting,
          B=1, K=0, flatten, drop) are projected to the abstract views and validated by
          Outputs_Trace (clauses 15xx); float fields are compared bit for bit between JSON and
          the HDF5 reader by the projection.
"""
import csv
import json
import random
import re

import numpy as np

from harness import maptrace, taxo, build
from harness.campaign import campaign
from harness.tlc import run_tlc, MachineryError
from harness.traces import validate

PID = 'C15'

CL = {1501: 'HDF5 record has a different number of levels', 1502: 'HDF5 round trip changes an entry',
      1503: 'HDF5 round trip changes a float field', 1510: 'CSV row lacks a level',
      1511: 'CSV level columns not in hierarchy order', 1512: 'CSV label differs from JSON assignment',
      1513: 'CSV name is not the label translated through the name table',
      1514: 'CSV alias wrong / present at a non-leaf level',
      1515: 'CSV confidence is not the JSON probability to four decimals',
      1516: 'CSV confidence is not the JSON correlation to four decimals (single iteration)',
      1520: 'JSON records not in query order', 1521: 'CSV rows not one per cell in query order',
      1522: 'HDF5 cell ids differ', 1523: 'record counts differ', 1524: 'CSV lacks the metadata comment line',
      1525: 'CSV lacks the hierarchy comment line', 1526: 'CSV lacks the version comment line',
      1527: 'embedded taxonomy differs from the input taxonomy without cells',
      1528: 'embedded name tables differ from the input', 1529: 'embedded marker table differs from genes used',
      1530: 'CSV malformed'}


def entries(rec, hier, nm, B):
    out = []
    for l in hier:
        v = rec[nm.level(l)]
        k = int(round(v['bootstrapping_probability'] * B))
        ru = []
        if 'runner_up_assignment' in v:
            for a, p in zip(v['runner_up_assignment'], v['runner_up_probability']):
                ru.append([nm.inv_node(l, a), int(round(float(p) * B))])
        out.append({'lev': l, 'a': nm.inv_node(l, v['assignment']), 'k': k, 'ru': ru,
                    'direct': bool(v['directly_assigned'])})
    return out


def project_run(r, named):
    from cell_type_mapper.utils.output_utils import hdf5_to_blob
    import cell_type_mapper
    scn, scheme = r['scn'], r['scheme']
    nm = taxo.Naming(scheme)
    hier = scn['tree']['hier']
    B = scn['cfg']['B']
    conf = json.load(open(r['dir'] + '/out/res.json'))
    issues = []
    js = conf['results']
    rec = {'hier': hier, 'leaf': hier[-1], 'B': B, 'K': scn['cfg']['K'], 'named': named,
           'cells': scn['cells'], 'json_ids': [nm.inv_cell(x['cell_id']) for x in js],
           'json': [entries(x, hier, nm, B) for x in js]}
    # ---- HDF5 through the package's reader
    blob = hdf5_to_blob(r['dir'] + '/out/res.h5')
    hs = blob.get('results', [])
    rec['h5_ids'] = [nm.inv_cell(x['cell_id']) for x in hs]
    rec['h5'] = [entries(x, hier, nm, B) for x in hs]
    for a, b in zip(js, hs):
        for l in hier:
            x, y = a[nm.level(l)], b[nm.level(l)]
            for f in ('bootstrapping_probability', 'avg_correlation', 'aggregate_probability'):
                if float(x[f]) != float(y[f]):
                    issues.append((1503, f'{a["cell_id"]} {l} {f}: {x[f]} vs {y[f]}'))
            if 'runner_up_assignment' in x:
                for f in ('runner_up_probability', 'runner_up_correlation'):
                    if [float(v) for v in x[f]] != [float(v) for v in y.get(f, [])]:
                        issues.append((1503, f'{a["cell_id"]} {l} {f}: {x[f]} vs {y.get(f)}'))
            if ('runner_up_assignment' in x) != ('runner_up_assignment' in y):
                issues.append((1502, f'{a["cell_id"]} {l}: runner-up fields present in one view only'))
    for k in ('config', 'marker_genes', 'taxonomy_tree', 'log'):
        if k in ('log',):
            continue
        if json.dumps(conf.get(k), sort_keys=True) != json.dumps(blob.get(k), sort_keys=True):
            issues.append((1502, f'HDF5 metadata {k} differs from JSON'))
    # ---- CSV
    lines = open(r['dir'] + '/out/res.csv', newline='').read().split('\n')
    comments = [x for x in lines if x.startswith('#')]
    body = [x for x in lines if not x.startswith('#')]
    hdr_ok = [any(x.strip() == '# metadata = res.json' for x in comments),
              any(x.strip() == '# taxonomy hierarchy = ' + json.dumps([nm.level(l) for l in hier])
                  for x in comments),
              any(f'version: {cell_type_mapper.__version__}' in x for x in comments)]
    rec['header'] = hdr_ok
    if lines and not all(x.startswith('#') for x in lines[:len(comments)]):
        issues.append((1530, 'comment lines are not at the top'))
    rows = list(csv.reader([x + '\n' for x in body if x != '']))
    header, rows = rows[0], rows[1:]
    col = {c: i for i, c in enumerate(header)}
    rl = (lambda l: f'H{l}') if named else (lambda l: nm.level(l))
    conf_label = 'correlation_coefficient' if B == 1 else 'bootstrapping_probability'
    rec['csv_ids'] = []
    rec['csv'] = []
    want_cols = ['cell_id']
    for l in hier:
        want_cols += [f'{rl(l)}_label', f'{rl(l)}_name'] + ([f'{rl(l)}_alias'] if l == hier[-1] else []) \
            + [f'{rl(l)}_{conf_label}']
    if header != want_cols:
        issues.append((1530, f'CSV columns {header} != {want_cols}'))
        return rec, issues, False
    for row, a in zip(rows, js):
        rec['csv_ids'].append(nm.inv_cell(row[col['cell_id']]))
        ent = []
        for l in hier:
            label = row[col[f'{rl(l)}_label']]
            try:
                lab = nm.inv_node(l, label)
            except KeyError:
                lab = -7
            name = row[col[f'{rl(l)}_name']]
            if named:
                m = re.fullmatch(rf'nm{l} "(.*)", x', name, flags=re.S)
                try:
                    nid = 1000 + nm.inv_node(l, m.group(1)) if m else -7
                except KeyError:
                    nid = -7
            else:
                try:
                    nid = nm.inv_node(l, name)
                except KeyError:
                    nid = -7
            alias = -1
            if l == hier[-1]:
                al = row[col[f'{rl(l)}_alias']]
                if named:
                    m = re.fullmatch(rf'a{l}(\d+)', al)
                    m0 = re.fullmatch(r'\d+', al)              # numeric aliases are counted from 0
                    alias = 2000 + int(m.group(1)) if m else 2001 + int(al) if m0 else -7
                else:
                    try:
                        alias = nm.inv_node(l, al)
                    except KeyError:
                        alias = -7
            s = row[col[f'{rl(l)}_{conf_label}']]
            if not re.fullmatch(r'-?\d+\.\d{4}', s):
                issues.append((1515 if B > 1 else 1516, f'confidence "{s}" is not printed to four decimals'))
                cv = -7
            elif B == 1:
                want = '%.4f' % a[nm.level(l)]['avg_correlation']
                if s != want and float(s) != float(want):
                    issues.append((1516, f'{row[0]} level {l}: csv {s} json {want}'))
                cv = -1
            else:
                cv = int(round(float(s) * 10000))
            ent.append({'lev': l, 'label': lab, 'name': nid, 'alias': alias, 'conf': cv})
        rec['csv'].append(ent)
    # ---- embedded taxonomy and markers
    rec['tree_in'] = {k: v for k, v in scn['tree'].items()}
    rec['tree_in']['cells'] = [[n, []] for n in scn['tree']['nodes'][-1]]
    emb = conf['taxonomy_tree']
    rec['tree_out'] = taxo.project_dict(emb, nm)
    stored = json.loads(__import__('h5py').File(r['dir'] + '/stats.h5', 'r')['taxonomy_tree'][()].decode())
    for k in ('name_mapper', 'hierarchy_mapper'):
        if stored.get(k) != emb.get(k):
            issues.append((1528, f'{k} differs'))
    # marker table lists what was used (hook Genes events)
    used = {}
    for pid, evs in r.get('hook_genes', {}).items():
        pass
    mg = conf['marker_genes']
    # a parent with a single child in the taxonomy of the run is never voted on: no markers are reported for it
    tr = rec['tree_out']
    plain = not scn['cfg'].get('flatten') and scn['cfg'].get('drop') is None      # the embedded tree is the tree of the run
    for j_, lv_ in enumerate(tr['hier'][:-1] if plain else []):
        for n_, ks_ in tr['kids'][j_]:
            key = f'{nm.level(lv_)}/{nm.node(lv_, n_)}'
            if len(ks_) == 1 and mg.get(key):
                issues.append((1529, f'parent {[lv_, n_]} has a single child and is never voted on, but '
                                     f'{len(mg[key])} markers are reported for it'))
    for e in r['trace']['events']:
        if e['op'] == 'node' and e['genes']:
            par = e['parent']
            key = 'None' if par == [0, 0] else f'{nm.level(par[0])}/{nm.node(par[0], par[1])}'
            rep = sorted(build.gene_id(g, scheme) for g in mg.get(key, []))
            if rep != sorted(e['genes']):
                issues.append((1529, f'parent {par}: reported {rep}, used {sorted(e["genes"])}'))
    return rec, issues, True


def _failing_rerun(r):
    """map a query without any known gene into the output files of the successful run r"""
    import os
    import anndata
    import warnings
    from cell_type_mapper.utils.output_utils import hdf5_to_blob
    d = r['dir']
    conf = json.load(open(d + '/conf.json')) if os.path.exists(d + '/conf.json') else None
    if conf is None:
        conf = build.mapping_config(d, d + '/q.h5ad', d + '/stats.h5', d + '/m.json', r['scn']['cfg'])
        if r['scn']['cfg'].get('drop') is not None:
            conf['drop_level'] = taxo.Naming(r['scheme']).level(r['scn']['cfg']['drop'])
    before = set(os.listdir(d + '/out'))
    with warnings.catch_warnings():
        warnings.simplefilter('ignore')
        a = anndata.read_h5ad(conf['query_path'])
        a.var.index = [f'zz{i}' for i in range(a.n_vars)]
        a.write_h5ad(d + '/q_foreign.h5ad')
    conf['query_path'] = d + '/q_foreign.h5ad'
    res = build.run_mapping(conf)
    issues = []
    if res['ok']:
        return issues                         # (the run found markers after all: nothing to compare)
    js = json.load(open(conf['extended_result_path']))
    try:
        blob = hdf5_to_blob(conf['hdf5_result_path'])
    except Exception as e:                    # noqa
        return [(1502, f'after a failed second run the HDF5 file cannot be read: {type(e).__name__}: {e}')]
    if bool(js.get('results')) != bool(blob.get('results')):
        issues.append((1502, f'after a failed second run into the same files the JSON holds {len(js.get("results") or [])} records, '
                             f'the HDF5 file {len(blob.get("results") or [])}'))
    if json.dumps(js.get('log')) != json.dumps(blob.get('log')):
        issues.append((1502, 'after a failed second run the log in the HDF5 file is not the log in the JSON file'))
    extra = sorted(set(os.listdir(d + '/out')) - before)
    if extra:
        issues.append((1502, f'the failed second run left {extra} in the output directory'))
    return issues


def run(ctx):
    quick = ctx.tier == 'quick'
    rng = random.Random(ctx.seed + 15)
    ctx.cov['rule'] = ('one case = the three output files of one real mapping run (random taxonomy, '
                       'name tables present/absent, five naming schemes incl. level names that contain "label" / "name" / "alias" / "assignment" and names needing CSV '
                       'quoting, B=1, K=0, flatten, drop); every cell x level entry is compared by TLC. '
                       'Non-trivial = more than one cell or level; distinct by canonical JSON.')
    ctx.cov['trusted_base'] = ['TLC 1.8', 'python csv module', 'harness projection',
                               'hdf5_to_blob is the reader under test for the HDF5 view']
    if ctx.only in (None, 'mc'):
        for nn, k, b in ((3, 2, 3), (4, 2, 2)) if quick else ((3, 2, 3), (4, 3, 3), (4, 2, 7)):
            cfg = (f'SPECIFICATION Spec\nCONSTANTS NN = {nn} K = {k} B = {b}\nINVARIANT RoundTrip\n'
                   'INVARIANT Round4Close\nCHECK_DEADLOCK FALSE\n')
            res = run_tlc('Outputs_MC', cfg_text=cfg, timeout=3600)
            ctx.add_tlc(f'Outputs_MC_{nn}_{k}_{b}', res)
            if not res.ok:
                raise MachineryError('Outputs_MC violated:\n' + res.error_trace)
    if ctx.only in (None, 'c2s'):
        n = 80 if quick else 2400
        recs, owners = [], []
        for named in (False, True):
            scns = []
            for i in range(n // 2):
                s = maptrace.gen_scenario(rng, max_levels=4, max_leaves=6, min_leaves=2,
                                          ncell=rng.randint(1, 9))
                if i % 5 == 0:
                    s['cfg']['B'] = 1
                if i % 7 == 0:
                    s['cfg']['K'] = 0
                if i % 4 == 1:
                    s['cfg']['B'] = rng.choice([32, 16, 160, 7, 3])    # rounding ties at 4 decimals
                    s['cfg']['fnum'] = rng.randint(2, 6)
                if i % 6 == 2:
                    # flattened / level-dropped run over a taxonomy of small sibling groups with more runners-up asked for
                    # than any parent has children, and votes spread by small gene subsets
                    for _ in range(200):
                        t = maptrace.random_tree(rng, 3, 7, 5)
                        if len(t['hier']) >= 2 and max(len(ks) for row in t['kids'] for _, ks in row) <= 2:
                            break
                    else:
                        t = None
                    if t is not None:
                        s = maptrace.gen_scenario(rng, tree=t, ncell=rng.randint(4, 9), G=6)
                        s['cfg'].update(K=rng.randint(3, 5), B=rng.randint(8, 12), fnum=rng.randint(1, 3), minm=1)
                        if rng.random() < 0.6:
                            s['cfg'].update(flatten=True, drop=None)
                        else:
                            s['cfg'].update(flatten=False, drop=t['hier'][-2])
                        s['qgenes'] = rng.sample(range(1, 7), 6)
                        s['markers'] = {k: [1, 2, 3, 4, 5, 6] for k in s['markers']}
                        s['Q'] = [[rng.randint(0, 4) for _ in range(6)] for _ in s['cells']]
                if i % 3 == 1:
                    # a list for every single-child parent too (sharing a gene with the query): such a parent is never
                    # voted on, the output reports no markers for it
                    usable = [g for g in s['qgenes'] if g <= s['G']]
                    tj_ = s['tree']
                    for j_, lv_ in enumerate(tj_['hier'][:-1]):
                        for n_, ks_ in tj_['kids'][j_]:
                            if len(ks_) == 1 and f'{lv_}/{n_}' not in s['markers']:
                                s['markers'][f'{lv_}/{n_}'] = sorted(set(rng.sample(usable, rng.randint(1, len(usable)))))
                scns.append(s)
            rs = campaign(ctx, scns, f'MapRun_Trace_c15_{named}', name_tables=named, keep=True,
                          schemes=['structural', 'quoted', 'reversed', 'shared', 'obscols'])
            for r in rs:
                ctx.count(r['scn'], nontrivial=r['ok'])
                if not r['ok']:
                    continue
                try:
                    rec, issues, ok = project_run(r, named)
                except Exception as e:
                    import traceback
                    ctx.report('clause:1530', f'outputs cannot be projected: {traceback.format_exc()[-800:]}',
                               {'scn': r['scn'], 'scheme': r['scheme'], 'named': named})
                    continue
                for code, msg in issues[:3]:
                    ctx.report(f'clause:{code}', f'{CL[code]}: {msg}',
                               {'scn': r['scn'], 'scheme': r['scheme'], 'named': named})
                if ok:
                    rec['events'] = [0]
                    recs.append(rec)
                    owners.append(r)
            # a second run into the SAME output locations that fails (its query shares no gene with the reference): the
            # three views then describe the failed run - the HDF5 file does not go on showing the results of the first
            if not named:
                redo = [r for r in rs if r['ok']][:(4 if quick else 40)]
                for r in redo:
                    iss = _failing_rerun(r)
                    ctx.count({'rerun': r['scn']}, nontrivial=True)
                    for code, msg in iss:
                        ctx.report(f'clause:{code}', f'{CL[code]}: {msg}', {'scn': r['scn'], 'scheme': r['scheme'], 'named': named,
                                                                           'rerun': True})
            import shutil
            for r in rs:
                shutil.rmtree(r['dir'], ignore_errors=True)
        vs = validate(ctx, 'Outputs_Trace', recs, 'Outputs_Trace')
        rej = 0
        for rec, r, v in zip(recs, owners, vs):
            if not v['accepted']:
                rej += 1
                ctx.report(f'clause:{v["inv"]}', f'{CL.get(v["inv"], v["inv"])}',
                           {'scn': r['scn'], 'scheme': r['scheme'], 'named': rec['named']})
        if recs:
            ctx.sample({'csv_row': recs[0]['csv'][:1], 'json': recs[0]['json'][:1], 'h5': recs[0]['h5'][:1],
                        'B': recs[0]['B'], 'named': recs[0]['named']})
        ctx.part('c2s', runs=len(recs), rejected=rej,
                 entries=sum(len(x['json']) * len(x['hier']) for x in recs))
        # binding self-test: corrupt one field of one view
        st = []
        for rec in recs[:30]:
            r2 = json.loads(json.dumps(rec))
            which = rng.choice(['csv', 'h5'])
            if which == 'csv':
                r2['csv'][0][0]['label'] += 1
            else:
                r2['h5'][0][0]['k'] += 1
            st.append(r2)
        if st:
            vs = validate(ctx, 'Outputs_Trace', st, 'selftest', counts_as_impl=False)
            acc = sum(1 for v in vs if v['accepted'])
            ctx.cov['selftest'] = {'corrupted': len(st), 'rejected': len(st) - acc}
            if acc:
                raise MachineryError(f'self-test: {acc} corrupted records accepted')


def replay(ctx, path):
    import pathlib, shutil
    case = json.load(open(pathlib.Path(path) / 'replay.json'))['case']
    rs = campaign(ctx, [case['scn']], 'replay', name_tables=case.get('named', False), keep=True,
                  schemes=[case['scheme']], jobs=1)
    r = rs[0]
    if r['ok']:
        rec, issues, ok = project_run(r, case.get('named', False))
        for code, msg in issues:
            ctx.report(f'clause:{code}', f'{CL[code]}: {msg}', case)
        if ok:
            rec['events'] = [0]
            v = validate(ctx, 'Outputs_Trace', [rec], 'replay')[0]
            if not v['accepted']:
                ctx.report(f'clause:{v["inv"]}', CL.get(v['inv'], '?'), case)
    shutil.rmtree(r['dir'], ignore_errors=True)
    ctx.count(case)
