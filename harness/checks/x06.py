"""X06 (extension suite, not one of the 20 listed statements) - marker table read from a directory of
per-parent CSV files (marker_lookup_from_tree_and_csv).

C->S : random taxonomies with readable names (numeric first token, several words, slashes, single numeric
       token, two parents of one level whose names reduce to the same file name) and a directory in which
       some required files are missing and some unrelated files are present; MarkerCsv_Trace decides: the
       call fails iff a required file (root, every parent with >= 2 children) is missing and names exactly
       the missing parents; otherwise the table has exactly one entry per such parent, with the genes of its
       file in file order (quotes removed).
"""
import concurrent.futures as cf
import copy
import json
import os
import pathlib
import random
import re
import shutil
import tempfile
import traceback
import warnings

from harness import maptrace, taxo
from harness.tlc import MachineryError
from harness.traces import validate

PID = 'X06'
CL = {2501: 'the directory was accepted / refused against the rule', 2502: 'the error names other parents than the missing ones',
      2503: 'the table has entries for other parents than those that need markers', 2504: 'genes differ from the file (order kept)'}


def tok_s(t):
    num, i, slash = t
    s = f'{i}n' if num else f'w{i}'
    return s + '/q' if slash else s


def gen_case(rng):
    while True:
        tj = maptrace.random_tree(rng, 4, 7, 2)
        if len(tj['hier']) >= 2:
            break
    names = []
    for k, lev in enumerate(tj['hier'][:-1]):
        for n in tj['nodes'][k]:
            ids = rng.sample(range(1, 10), rng.randint(1, 3))
            toks = [[False, i, rng.random() < 0.25] for i in ids]
            r = rng.random()
            if r < 0.4:
                toks[0][0] = True                      # numeric first token ("12 Foo bar")
            names.append([lev, n, toks])
    # sometimes two parents of one level reduce to the same file name
    if rng.random() < 0.3:
        by_level = {}
        for e in names:
            by_level.setdefault(e[0], []).append(e)
        cands = [v for v in by_level.values() if len(v) >= 2]
        if cands:
            a, b = rng.sample(rng.choice(cands), 2)
            b[2] = [[True, 9, False]] + [list(t) for t in a[2] if not (t is a[2][0] and a[2][0][0] and len(a[2]) > 1)]
    return {'tree': tj, 'names': names, 'drop_files': rng.random() < 0.35, 'seed': rng.randrange(10 ** 6)}


def _case(args):
    case, wd = args
    from cell_type_mapper.taxonomy.taxonomy_tree import TaxonomyTree
    from cell_type_mapper.marker_lookup.marker_lookup import marker_lookup_from_tree_and_csv
    rng = random.Random(case['seed'])
    d = pathlib.Path(tempfile.mkdtemp(dir=wd))
    try:
        tj = case['tree']
        nm = taxo.Naming('structural')
        data = taxo.dict_from_tree(tj, nm)
        hier = tj['hier']
        name_of = {(lev, n): toks for lev, n, toks in case['names']}
        data['name_mapper'] = {}
        for (lev, n), toks in name_of.items():
            data['name_mapper'].setdefault(nm.level(lev), {})[nm.node(lev, n)] = {'name': ' '.join(tok_s(t) for t in toks)}
        tree = TaxonomyTree(data=data)
        # parents that need a file
        need = [[0, 0]]
        for k, lev in enumerate(hier[:-1]):
            for n, kids in tj['kids'][k]:
                if len(kids) >= 2:
                    need.append([lev, n])

        def strip(toks):
            return toks[1:] if len(toks) > 1 and toks[0][0] else toks
        files = {}
        for p in need:
            if p == [0, 0]:
                key, fname = (1, ()), 'marker.1.root.csv'
            else:
                toks = strip(name_of[(p[0], p[1])])
                idx = hier.index(p[0]) + 2
                munged = ' '.join(tok_s(t) for t in toks).replace(' ', '+').replace('/', '__')
                key, fname = (idx, tuple(tuple(t) for t in toks)), f'marker.{idx}.{munged}.csv'
            files[key] = fname
        keys = list(files)
        present = [k for k in keys if not (case['drop_files'] and rng.random() < 0.3)]
        recs_files = []
        (d / 'csv').mkdir()
        for k in present:
            genes = [rng.choice(['Gad1', 'Sst', 'Vip', 'ENSMUSG01', 'x y', 'Pvalb']) for _ in range(rng.randint(0, 4))]
            with open(d / 'csv' / files[k], 'w') as f:
                f.write('"x"\n')
                for g in genes:
                    f.write((f'"{g}"' if rng.random() < 0.5 else g) + '\n')
            recs_files.append([k[0], [list(t) for t in k[1]], genes])
        (d / 'csv' / 'marker.9.unrelated.csv').write_text('"x"\nFoo\n')
        rec = {'tree': tj, 'names': case['names'], 'files': recs_files, 'ok': True, 'missing': [], 'table': [],
               'events': [0], 'message': ''}
        try:
            with warnings.catch_warnings():
                warnings.simplefilter('ignore')
                lk = marker_lookup_from_tree_and_csv(taxonomy_tree=tree, csv_dir=str(d / 'csv'))
            for k, genes in lk.items():
                if k == 'None':
                    rec['table'].append([[0, 0], list(genes)])
                else:
                    lv, nd = k.split('/', 1)
                    li = nm.inv_level(lv, hier)
                    rec['table'].append([[li, nm.inv_node(li, nd)], list(genes)])
        except RuntimeError as e:
            rec['ok'] = False
            rec['message'] = str(e)[:300]
            for m in re.finditer(r"\('([^']*)', '[^']*'\)", str(e)):
                k = m.group(1)
                if k == 'None':
                    rec['missing'].append([0, 0])
                else:
                    lv, nd = k.split('/', 1)
                    li = nm.inv_level(lv, hier)
                    rec['missing'].append([li, nm.inv_node(li, nd)])
        # the command-line runner (cli/marker_cache_from_csv_dir.py, through harness/argshim.py) on the same directory: the
        # same table / the same refusal; a drop_level that names no level of the taxonomy changes nothing
        rec['cli_issue'] = ''
        if case['seed'] % 3 == 0:
            import h5py
            from harness import argshim
            argshim.install()
            from cell_type_mapper.cli.marker_cache_from_csv_dir import MarkerCacheRunner
            with h5py.File(d / 'stats.h5', 'w') as f:
                f.create_dataset('taxonomy_tree', data=json.dumps(data).encode())
            try:
                with warnings.catch_warnings():
                    warnings.simplefilter('ignore')
                    MarkerCacheRunner(args=[], input_data={
                        'marker_dir': str(d / 'csv'), 'precomputed_file_path': str(d / 'stats.h5'),
                        'output_path': str(d / 'lookup.json'), 'map_to_ensembl': False,
                        'drop_level': rng.choice([None, 'no_such_level'])}).run()
                got = {k: v for k, v in json.load(open(d / 'lookup.json')).items() if k != 'metadata'}
                if not rec['ok']:
                    rec['cli_issue'] = 'the runner wrote a table although files are missing'
                elif got != {k: list(v) for k, v in lk.items()}:
                    rec['cli_issue'] = f'the runner wrote {str(got)[:150]}, the library call returned {str(dict(lk))[:150]}'
            except RuntimeError as e:
                if rec['ok']:
                    rec['cli_issue'] = f'the runner refused: {str(e)[:150]}'
        # strings as small integers for TLC
        gid = {}
        def g2i(g):
            return gid.setdefault(g, len(gid) + 1)
        rec['files'] = [[a, b, [g2i(g) for g in c]] for a, b, c in rec['files']]
        rec['table'] = [[p, [g2i(g) for g in c]] for p, c in rec['table']]
        return rec, None
    except Exception:
        return None, traceback.format_exc()
    finally:
        shutil.rmtree(d, ignore_errors=True)


def run(ctx):
    quick = ctx.tier == 'quick'
    rng = random.Random(ctx.seed + 106)
    ctx.cov['rule'] = ('one case = one random taxonomy with readable names x one directory of CSV files (some missing); '
                       'non-trivial = every case; distinct by canonical JSON.')
    ctx.cov['trusted_base'] = ['TLC 1.8', 'harness mapping between name strings and token sequences']
    n = 150 if quick else 3000
    cases = [gen_case(rng) for _ in range(n)]
    wd = str(ctx.tmpdir('x06_'))
    with cf.ProcessPoolExecutor(max_workers=8) as ex:
        outs = list(ex.map(_case, [(c, wd) for c in cases], chunksize=8))
    recs = []
    for c, (rec, err) in zip(cases, outs):
        if rec is None:
            raise MachineryError(err)
        ctx.count({'case': c})
        if (issue_ := rec.pop('cli_issue', '')):
            ctx.report('cli:marker-cache', f'command-line runner and library call disagree: {issue_}', {'case': c})
        recs.append(rec)
    vs = validate(ctx, 'MarkerCsv_Trace', recs, 'MarkerCsv_Trace')
    rej = 0
    for c, rec, v in zip(cases, recs, vs):
        if not v['accepted']:
            rej += 1
            ctx.report(f'clause:{v["inv"]}', f'{CL.get(v["inv"], v["inv"])} - ok={rec["ok"]} missing={rec["missing"]} '
                       f'table={rec["table"][:3]} message={rec["message"][:150]}', {'case': c})
    ctx.sample({'case': cases[0], 'observed': {k: recs[0][k] for k in ('ok', 'missing', 'table')}})
    ctx.part('c2s', cases=len(cases), refused=sum(1 for r in recs if not r['ok']), rejected=rej)
    st = []
    for r in recs:
        if r['ok'] and r['table'] and len(st) < 20:
            r2 = copy.deepcopy(r)
            r2['table'][0][1] = r2['table'][0][1] + [99]
            st.append(r2)
    if st:
        sv = validate(ctx, 'MarkerCsv_Trace', st, 'selftest', counts_as_impl=False)
        acc = sum(1 for v in sv if v['accepted'])
        ctx.cov['selftest'] = {'corrupted': len(st), 'rejected': len(st) - acc}
        if acc:
            raise MachineryError('self-test: corrupted table accepted')


def replay(ctx, path):
    case = json.load(open(pathlib.Path(path) / 'replay.json'))['case']['case']
    wd = str(ctx.tmpdir('x06_'))
    rec, err = _case((case, wd))
    if rec is None:
        raise MachineryError(err)
    v = validate(ctx, 'MarkerCsv_Trace', [rec], 'replay')[0]
    if not v['accepted']:
        ctx.report(f'clause:{v["inv"]}', CL.get(v['inv']), {'case': case})
    ctx.count(case)
