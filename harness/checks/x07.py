"""X07 (extension suite, not one of the 20 listed statements) - truncating a precomputed-statistics file to a
coarser taxonomy (diff_exp/truncate_precompute.py, cli/truncate_precomputed_taxonomy.py).

1. MC   : Truncate_MC - over every tree shape, every history of <= MaxReq requests (any sequence of level names,
          known or unknown, in any order, with repetitions): a refused request changes nothing; after any history the
          tree equals the direct truncation of the first tree to the levels still present, and the statistics are
          those computed from the cells under the coarser labels (additivity); two steps equal one.
2. S->C : for every shape TLC emits every request with its decision; the harness writes a real statistics file
          (scrambled row table, several additive data sets of different types, gene names), issues histories of 1-3
          requests against the real function (one in ten first requests through the command-line runner), each accepted output being the
          input of the next, and Truncate_Trace decides every step: decision and reason, written tree, every number
          of every data set, row table, data-set names, input untouched / nothing written on refusal.
"""
import concurrent.futures as cf
import copy
import hashlib
import json
import pathlib
import random
import shutil
import tempfile
import traceback
import warnings

from harness.taxo import Naming, dict_from_tree, project_dict
from harness.tlc import run_tlc, MachineryError
from harness.traces import validate

PID = 'X07'
CL = {2601: 'request accepted / refused against the rule',
      2602: 'request refused for another reason than the rule gives',
      2603: 'hierarchy or nodes of the written tree differ',
      2604: 'parent-child links of the written tree differ',
      2605: 'cells owned by the new leaves differ',
      2606: 'a number of a data set is not the sum over the old leaves under the new leaf',
      2607: 'row table is not a bijection from the new leaves onto 0..n-1 (or an array has another row count)',
      2608: 'the input file changed, or a refused request left an output file',
      2609: 'data-set names / types / gene names / recorded request differ',
      0: 'request not possible in the model at this point'}
UNKNOWN = 99
DSETS = [('sum', 'f8'), ('sumsq', 'f8'), ('gt0', 'i8'), ('gt1', 'i8'), ('ge1', 'i4')]


def _digest(p):
    return hashlib.sha256(pathlib.Path(p).read_bytes()).hexdigest()


def _lev_name(nm, lv):
    return 'no_such_level' if lv == UNKNOWN else nm.level(lv)


def _write_first(path, scn, nm):
    import h5py
    import numpy as np
    tj = scn['tree']
    tree = dict_from_tree(tj, nm, cells_as='rows')
    leaf = tj['hier'][-1]
    leaves = [nm.node(leaf, n) for n in tj['nodes'][-1]]
    order = list(range(len(leaves)))
    random.Random(scn['rowseed']).shuffle(order)
    c2r = {lf: order[i] for i, lf in enumerate(leaves)}
    G = scn['G']
    with h5py.File(path, 'w') as f:
        f.create_dataset('metadata', data=json.dumps({'made_by': 'x07'}).encode())
        f.create_dataset('cluster_to_row', data=json.dumps(c2r).encode())
        f.create_dataset('col_names', data=json.dumps([f'g{i}' for i in range(G)]).encode())
        f.create_dataset('taxonomy_tree', data=json.dumps(tree).encode())
        n = np.zeros(len(leaves), dtype=np.int64)
        for i, lfn in enumerate(tj['nodes'][-1]):
            n[c2r[leaves[i]]] = scn['stats'][str(lfn)]['n_cells']
        f.create_dataset('n_cells', data=n)
        for name, dt in DSETS[:scn['nds']]:
            a = np.zeros((len(leaves), G), dtype=dt)
            for i, lfn in enumerate(tj['nodes'][-1]):
                a[c2r[leaves[i]], :] = scn['stats'][str(lfn)][name]
            kw = {}
            if scn['chunked'] and name in ('sum', 'gt0'):
                kw['chunks'] = (min(2, len(leaves)), min(2, G))
            f.create_dataset(name, data=a, **kw)


def _read(path, nm, levels, want_sets, G, H_names, dtypes):
    """project a written file: tree, per-leaf numbers, flags"""
    import h5py
    import numpy as np
    with h5py.File(path, 'r') as f:
        keys = sorted(f.keys())
        tree = json.loads(f['taxonomy_tree'][()].decode())
        c2r = json.loads(f['cluster_to_row'][()].decode())
        cols = json.loads(f['col_names'][()].decode())
        meta = json.loads(f['metadata'][()].decode())
        arrays = {k: f[k][()] for k in keys if k not in ('metadata', 'cluster_to_row', 'col_names', 'taxonomy_tree')}
        dts = {k: str(f[k].dtype) for k in arrays}
    tj = project_dict(tree, nm, levels=levels, cells_as='rows')
    leaf = tj['hier'][-1]
    leafnames = list(tree[nm.level(leaf)].keys())
    n = len(leafnames)
    rowsok = (sorted(c2r.keys()) == sorted(leafnames) and sorted(c2r.values()) == list(range(n))
              and all(a.shape[0] == n for a in arrays.values()))
    namesok = (sorted(arrays.keys()) == sorted(want_sets) and cols == [f'g{i}' for i in range(G)]
               and meta.get('new_hierarchy') == H_names
               and all(a.ndim == 1 or a.shape[1] == G for a in arrays.values())
               and all(dts[k] == dtypes[k] for k in arrays if k in dtypes))
    stats = []
    if rowsok:
        for name in leafnames:
            r = c2r[name]
            vec = [int(arrays['n_cells'][r])]
            for k in sorted(a for a in arrays if a != 'n_cells'):
                row = arrays[k][r]
                if any(float(v) != int(v) for v in np.atleast_1d(row)):
                    namesok = False
                vec += [int(v) for v in np.atleast_1d(row)]
            stats.append([nm.inv_node(leaf, name), vec])
    return tj, sorted(stats), rowsok, namesok


def _kind(exc):
    m = str(exc)
    if isinstance(exc, (UnboundLocalError, NameError)):
        return 'nothing_to_drop'
    if 'already conforms' in m:
        return 'same'
    if 'are not in' in m and 'Unclear how to proceed' in m:
        return 'unknown'
    if 'cannot shuffle' in m:
        return 'shuffled'
    if 'It is flat' in m:
        return 'empty'
    return 'other: ' + m[:80]


def _case(args):
    scn, wd = args
    from cell_type_mapper.diff_exp.truncate_precompute import truncate_precomputed_stats_file
    d = pathlib.Path(tempfile.mkdtemp(dir=wd))
    try:
        nm = Naming(scn['scheme'])
        levels = scn['tree']['hier']
        cur = d / 'stats_0.h5'
        with warnings.catch_warnings():
            warnings.simplefilter('ignore')
            _write_first(cur, scn, nm)
            want_sets = ['n_cells'] + [x[0] for x in DSETS[:scn['nds']]]
            dtypes = {'n_cells': 'int64'}
            dtypes.update({k: {'f8': 'float64', 'i8': 'int64', 'i4': 'int32'}[t] for k, t in DSETS[:scn['nds']]})
            f0 = []
            for n in scn['tree']['nodes'][-1]:
                s = scn['stats'][str(n)]
                vec = [s['n_cells']]
                for k in sorted(x[0] for x in DSETS[:scn['nds']]):
                    vec += list(s[k])
                f0.append([n, vec])
            events = []
            for i, H in enumerate(scn['reqs']):
                out = d / f'stats_{i + 1}.h5'
                before = _digest(cur)
                Hn = [_lev_name(nm, lv) for lv in H]
                ev = {'H': H, 'ok': True, 'kind': 'ok', 'tree': scn['tree'], 'stats': [], 'rowsok': True,
                      'namesok': True, 'untouched': True}
                try:
                    if scn['cli'] and i == 0:
                        from harness import argshim
                        argshim.install()
                        from cell_type_mapper.cli.truncate_precomputed_taxonomy import TaxonomyTruncationRunner
                        TaxonomyTruncationRunner(args=[], input_data={
                            'input_path': str(cur), 'output_path': str(out), 'new_hierarchy': Hn}).run()
                    else:
                        truncate_precomputed_stats_file(input_path=str(cur), output_path=str(out), new_hierarchy=Hn)
                except Exception as e:                   # noqa
                    ev['ok'] = False
                    ev['kind'] = _kind(e)
                    ev['untouched'] = (_digest(cur) == before) and not out.exists()
                    ev['error'] = f'{type(e).__name__}: {str(e)[:160]}'
                    events.append(ev)
                    continue
                tj, stats, rowsok, namesok = _read(out, nm, levels, want_sets, scn['G'], Hn, dtypes)
                ev.update(tree=tj, stats=stats, rowsok=rowsok, namesok=namesok, untouched=_digest(cur) == before)
                # the written file is a usable statistics file
                from cell_type_mapper.taxonomy.taxonomy_tree import TaxonomyTree
                try:
                    TaxonomyTree.from_precomputed_stats(out)
                except Exception as e:                   # noqa
                    ev['namesok'] = False
                    ev['error'] = f'written file not readable as a taxonomy: {e}'
                events.append(ev)
                cur = out
        return {'tree': scn['tree'], 'f': f0, 'events': events}, None
    except Exception:
        return None, traceback.format_exc()
    finally:
        shutil.rmtree(d, ignore_errors=True)


def _hier_after(hier, H):
    return [lv for lv in hier if lv in H]


def _accepted(hier, H):
    if H == hier or not H or any(h not in hier for h in H) or set(H) == set(hier):
        return False
    pos = [hier.index(h) for h in H]
    return pos == sorted(pos)


def _random_req(rng, hier):
    r = rng.random()
    pool = list(hier) + [UNKNOWN]
    if r < 0.55 and len(hier) > 1:
        k = rng.randint(1, len(hier) - 1)
        return sorted(rng.sample(hier, k), key=hier.index)
    if r < 0.65:
        return list(hier)
    if r < 0.75:
        return [rng.choice(pool) for _ in range(rng.randint(0, len(hier) + 1))]
    if r < 0.85 and len(hier) > 1:
        H = sorted(rng.sample(hier, rng.randint(1, len(hier) - 1)), key=hier.index)
        return H + [H[-1]]
    if r < 0.92:
        return []
    H = list(hier)
    rng.shuffle(H)
    return H[:rng.randint(1, len(H))]


def run(ctx):
    quick = ctx.tier == 'quick'
    rng = random.Random(ctx.seed + 107)
    ctx.cov['rule'] = ('one case = one history of 1-3 truncation requests on a real statistics file (tree shape and first '
                       'request emitted by TLC, later requests random relative to the file reached; random additive '
                       'numbers, row table, naming scheme); non-trivial = at least one accepted request; distinct by '
                       'canonical JSON.')
    ctx.cov['trusted_base'] = ['TLC 1.8', 'h5py reading of the written files', 'harness projection of names']
    dims = (3, 4, 2) if quick else (4, 5, 3)
    if ctx.only in (None, 'mc'):
        cfg = ('SPECIFICATION TSpec\nCONSTANTS MaxLevels = %d MaxLeaves = %d MaxReq = %d\n' % dims
               + ''.join(f'INVARIANT {i}\n' for i in ('InvDirect', 'InvHomomorphic', 'InvTotal', 'InvAcceptedT',
                                                      'InvOkIff', 'InvTwoStep'))
               + 'PROPERTY ActCoarsens\nCHECK_DEADLOCK FALSE\n')
        res = run_tlc('Truncate_MC', cfg_text=cfg, timeout=7200)
        ctx.add_tlc('Truncate_MC', res)
        if not res.ok:
            raise MachineryError('Truncate_MC: design invariant violated:\n' + (res.error_trace or res.stdout[-1500:]))
        ctx.part('mc', dims=str(dims), distinct=res.distinct)
    if ctx.only in (None, 's2c'):
        gd = (3, 4) if quick else (4, 5)
        res = run_tlc('Truncate_MC', cfg_text='SPECIFICATION TGenSpec\nCONSTANTS MaxLevels = %d MaxLeaves = %d MaxReq = 1\n'
                                              'CHECK_DEADLOCK FALSE\n' % gd, workers=1, timeout=3600)
        ctx.add_tlc('Truncate_Gen', res)
        if not res.ok:
            raise MachineryError(res.error_trace or res.stdout[-1500:])
        shapes = [json.loads(t[1]) for t in res.tuples('SCN')]
        firsts = []
        for s in shapes:
            for r in s['reqs']:
                firsts.append((s['tree'], r['H'], r['outcome']))
        ctx.part('emitted', shapes=len(shapes), first_requests=len(firsts))
        if quick:
            ok1 = [x for x in firsts if x[2] == 'ok']
            no1 = [x for x in firsts if x[2] != 'ok']
            firsts = rng.sample(ok1, min(len(ok1), 160)) + rng.sample(no1, min(len(no1), 90))
        elif len(firsts) > 6000:
            ok1 = [x for x in firsts if x[2] == 'ok']
            no1 = [x for x in firsts if x[2] != 'ok']
            firsts = ok1 + rng.sample(no1, min(len(no1), 6000 - min(len(ok1), 4500)))
        else:
            ctx.cov['exhaustive_first_requests'] = True
        scns = []
        for tj, H, outcome in firsts:
            tj = copy.deepcopy(tj)
            if rng.random() < 0.5:
                tj['cells'] = [[n, []] for n in tj['nodes'][-1]]       # statistics files usually carry no cell lists
            hier = list(tj['hier'])
            reqs = [H]
            h = _hier_after(hier, H) if _accepted(hier, H) else hier
            for _ in range(rng.randint(0, 2)):
                H2 = _random_req(rng, h)
                reqs.append(H2)
                if _accepted(h, H2):
                    h = _hier_after(h, H2)
            G = rng.randint(1, 3)
            nds = rng.randint(1, len(DSETS))
            stats = {}
            for n in tj['nodes'][-1]:
                st = {'n_cells': rng.randint(0, 6)}
                for k, _t in DSETS[:nds]:
                    st[k] = [rng.randint(0, 40) for _ in range(G)]
                stats[str(n)] = st
            scns.append({'tree': tj, 'reqs': reqs, 'G': G, 'nds': nds, 'stats': stats, 'rowseed': rng.randint(0, 10 ** 6),
                         'chunked': rng.random() < 0.4, 'cli': rng.random() < 0.1,      # through the command-line runner (harness/argshim.py)
                         'scheme': rng.choice(['structural', 'reversed', 'shared', 'prefix', 'slashed'])})
        _run_and_decide(ctx, scns)


def _run_and_decide(ctx, scns, selftest=True):
    wd = str(ctx.tmpdir('x07_'))
    with cf.ProcessPoolExecutor(max_workers=8) as ex:
        outs = list(ex.map(_case, [(s, wd) for s in scns], chunksize=8))
    recs = []
    for s, (rec, err) in zip(scns, outs):
        if rec is None:
            raise MachineryError(err)
        ctx.count({'s': s}, nontrivial=any(e['ok'] for e in rec['events']))
        recs.append(rec)
    vs = validate(ctx, 'Truncate_Trace', recs, 'Truncate_Trace', cfg='Truncate_Trace.cfg')
    rej = 0
    for s, rec, v in zip(scns, recs, vs):
        if not v['accepted']:
            rej += 1
            ev = rec['events'][v['reached'] - 1] if v['reached'] - 1 < len(rec['events']) else None
            ctx.report(f'clause:{v["inv"]}', f'{CL.get(v["inv"], v["inv"])} - hierarchy {s["tree"]["hier"]} requests '
                       f'{s["reqs"]} (scheme {s["scheme"]}) at request {v["reached"]}: '
                       f'{ {k: ev[k] for k in ("H", "ok", "kind", "rowsok", "namesok", "untouched")} if ev else None}'
                       f' {ev.get("error", "") if ev else ""}', {'scenario': s})
    ctx.part('s2c', histories=len(scns), rejected=rej, requests=sum(len(r['events']) for r in recs),
             accepted_requests=sum(1 for r in recs for e in r['events'] if e['ok']),
             refusals={k: sum(1 for r in recs for e in r['events'] if e['kind'] == k)
                       for k in ('same', 'unknown', 'shuffled', 'empty', 'nothing_to_drop')})
    if recs and selftest:
        ctx.sample({'scenario': {k: scns[0][k] for k in ('tree', 'reqs', 'scheme')}, 'observed': recs[0]['events'][:1]})
        # binding: corrupt one number / one link / one decision of accepted histories -> must be rejected
        st = []
        for r in recs:
            oks = [i for i, e in enumerate(r['events']) if e['ok'] and e['stats']]
            if not oks or len(st) >= 60:
                continue
            r2 = copy.deepcopy(r)
            r2['events'] = r2['events'][:oks[0] + 1]
            e = r2['events'][-1]
            m = len(st) % 3
            if m == 0:
                e['stats'][0][1][-1] += 1
            elif m == 1:
                e['ok'], e['kind'] = False, 'same'
            else:
                e['rowsok'] = False
            st.append(r2)
        if st:
            sv = validate(ctx, 'Truncate_Trace', st, 'selftest', cfg='Truncate_Trace.cfg', counts_as_impl=False)
            acc = sum(1 for v in sv if v['accepted'])
            ctx.cov['selftest'] = {'corrupted': len(st), 'rejected': len(st) - acc}
            if acc:
                raise MachineryError('self-test: corrupted truncation histories accepted')


def replay(ctx, path):
    case = json.load(open(pathlib.Path(path) / 'replay.json'))['case']['scenario']
    _run_and_decide(ctx, [case], selftest=False)
