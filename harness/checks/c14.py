"""C14 - a failed worker fails the run; no partial result passes as success.

1. MC   : WorkerPool.tla with every fault plan (worker x crash point x failure mode) and every
          interleaving incl. orphans: FailNeverReturns, RaisedHasNoResults (safety) and
          FaultLeadsToRaise (liveness under fairness).
2. S->C : every fault plan of the model is injected into real runs through the guarded gates
          (mapping: 3 workers x 3 points x 3 modes, both P=2 and P=3): the call must raise,
          the JSON must hold no result records, no CSV, no success line, the log must exist.
          Other parallel stages: see harness/stagefaults.py (one plan per stage in quick, all
          in thorough).
3. C->S : Dispatch/Poll events + what the run left behind are validated by WorkerPool_Trace
          with the fault plan bound from the trace header.
"""
import json
import random

from harness import maptrace, pooltrace, sub
from harness.checks.c04 import base_scenario
from harness.tlc import run_tlc, MachineryError

PID = 'C14'
POINTS = ('before', 'mid', 'after')
MODES = ('kill', 'exit3', 'raise', 'term')


def run(ctx):
    quick = ctx.tier == 'quick'
    rng = random.Random(ctx.seed + 14)
    ctx.cov['rule'] = ('one case = one real run of a parallel stage with one injected worker failure '
                       '(worker x {before, mid, after} x {SIGKILL, exit 3, raise}); enumerated exhaustively '
                       'for the mapping stage (N=3 workers, P in {2,3}); non-trivial = every case (each has a '
                       'distinct fault plan); distinct by (stage, plan, P).')
    ctx.cov['trusted_base'] = ['TLC 1.8', 'guarded gates inject the failure inside the real worker process']
    if ctx.only in (None, 'mc'):
        for N, P in ((3, 2), (3, 3)) if quick else ((3, 1), (3, 2), (3, 3), (4, 2)):
            cfg = (f'SPECIFICATION FairSpec\nCONSTANTS N = {N} P = {P} '
                   f'FaultKs = {{{", ".join(str(i) for i in range(1, N + 1))}}} '
                   'FaultPoints = {"before", "mid", "after"} FaultModes = {"kill", "exit3", "raise", "term"} '
                   'Fixed = TRUE\nINVARIANT TypeOK\nINVARIANT FailNeverReturns\n'
                   'INVARIANT RaisedHasNoResults\nPROPERTY FaultLeadsToRaise\nCHECK_DEADLOCK FALSE\n')
            res = run_tlc('WorkerPool', cfg_text=cfg, timeout=3600)
            ctx.add_tlc(f'WorkerPool_faults_N{N}_P{P}', res)
            if not res.ok:
                raise MachineryError(f'WorkerPool faults N={N} P={P}:\n' + (res.error_trace or res.stdout[-2000:]))
    if ctx.only in (None, 'map'):
        jobs, meta = [], []
        for P in (2, 3):
            s = None
            while s is None:
                s = base_scenario(rng, 3, P)
            for k in (1, 2, 3):
                for pt in POINTS:
                    for mode in MODES:
                        pp = ctx.scratch / f'fault_{len(jobs)}.json'
                        json.dump(pooltrace.fault_plan(s, k, pt, mode), open(pp, 'w'))
                        jobs.append({'job': {'scn': s, 'scheme': 'structural', 'plan': str(pp), 'mode': 'cli'}})
                        meta.append((s, {'k': k, 'pt': pt, 'mode': mode}))
        # the same faults without a scratch directory: the buffer of finished chunks then lives in the output
        # directory and must not survive a failed run
        nplain = len(jobs)
        s = None
        while s is None:
            s = base_scenario(rng, 3, 3)
        for k, pt, mode in ((3, 'after', 'kill'), (2, 'mid', 'raise'), (1, 'after', 'exit3'), (3, 'before', 'raise')):
            pp = ctx.scratch / f'fault_{len(jobs)}.json'
            plan = pooltrace.fault_plan(s, k, pt, mode)
            json.dump(plan, open(pp, 'w'))
            jobs.append({'job': {'scn': s, 'scheme': 'structural', 'plan': str(pp), 'mode': 'cli', 'damage': 'no_tmp_dir'}})
            meta.append((s, {'k': k, 'pt': pt, 'mode': mode, 'no_tmp_dir': True}))
        # sixty workers at once (messages that list the workers get long): the failed run still writes its log
        s = None
        while s is None:
            s = base_scenario(rng, 60, 60)
        for k, pt, mode in ((2, 'after', 'exit3'), (59, 'before', 'kill')):
            pp = ctx.scratch / f'fault_{len(jobs)}.json'
            json.dump(pooltrace.fault_plan(s, k, pt, mode), open(pp, 'w'))
            jobs.append({'job': {'scn': s, 'scheme': 'structural', 'plan': str(pp), 'mode': 'cli'}})
            meta.append((s, {'k': k, 'pt': pt, 'mode': mode, 'many': True}))
        outs = sub.run_jobs(ctx, jobs)
        ptraces = []
        for (s, f), o in zip(meta, outs):
            if f.get('many'):
                ctx.count({'stage': 'mapping', 'fault': f, 'P': 60}, nontrivial=True)
                what = []
                if o['ok']:
                    what.append('the call returned normally')
                if o.get('has_results'):
                    what.append('the JSON output holds result records')
                if o['files'].get('res.csv'):
                    what.append('a CSV file was written')
                if not o['files'].get('log.txt') or not o.get('log_file'):
                    what.append('no log file was written')
                if not o['files'].get('res.json'):
                    what.append('no JSON (log/config) output was written')
                if what:
                    ctx.report('mapping:fault:many-workers', f'mapping stage with 60 workers, worker {f["k"]} fails {f["pt"]} its work '
                               f'by {f["mode"]}: ' + '; '.join(what) + f' ({o.get("error")})', {'scn': s, 'fault': f})
                continue
            if f.get('no_tmp_dir'):
                ctx.count({'stage': 'mapping', 'fault': f}, nontrivial=True)
                extra = [x for x in o.get('out_listing', []) if x not in ('res.json', 'log.txt', 'res.h5')]
                what = []
                if o['ok']:
                    what.append('the call returned normally')
                if o.get('has_results'):
                    what.append('the JSON output holds result records')
                if extra:
                    what.append(f'the output directory holds {extra} (result records of finished chunks)')
                if what:
                    ctx.report('mapping:fault:no-tmp-dir', f'mapping without a scratch directory, worker {f["k"]} fails '
                               f'{f["pt"]} its work by {f["mode"]}: ' + '; '.join(what), {'scn': s, 'fault': f})
                continue
            ctx.count({'stage': 'mapping', 'fault': f, 'P': s['cfg']['P']}, nontrivial=True)
            what = []
            if o['ok']:
                what.append('the call returned normally')
            if o.get('has_results'):
                what.append('the JSON output holds result records')
            if o['files'].get('res.csv'):
                what.append('a CSV file was written')
            if 'RAN SUCCESSFULLY' in (o.get('log_file') or '') or \
                    any('RAN SUCCESSFULLY' in str(x) for x in (o.get('log') or [])):
                what.append('the success message was logged')
            if not o['files'].get('log.txt') or not o.get('log_file'):
                what.append('no log file was written')
            if not o['files'].get('res.json'):
                what.append('no JSON (log/config) output was written')
            if what:
                ctx.report(f'mapping:fault:{"+".join(w.split()[1] for w in what)}',
                           f'mapping stage, worker {f["k"]} fails {f["pt"]} its work by {f["mode"]}: '
                           + '; '.join(what), {'scn': s, 'fault': f})
            ptraces.append(pooltrace.pool_trace(s, o, fault=f))
        rej = 0
        for (s, f), v in zip([m for m in meta if not m[1].get('no_tmp_dir') and not m[1].get('many')],
                             pooltrace.validate_pool(ctx, ptraces, 'WorkerPool_Trace_faults')):
            if not v['accepted']:
                rej += 1
                ctx.report(f'pooltrace:{v["inv"]}', f'run with fault {f}: hook trace / outputs are not a '
                           f'behaviour of WorkerPool (event {v["reached"]}, clause {v["inv"]})',
                           {'scn': s, 'fault': f})
        ctx.sample({'fault': meta[0][1], 'trace': ptraces[0]})
        ctx.part('mapping', fault_plans=len(jobs), traces_rejected=rej,
                 scratch_left_runs=sum(1 for o in outs if o['scratch_left']))
        ctx.cov['exhaustive'] = True
    if ctx.only in (None, 'stages'):
        try:
            from harness import stagefaults
        except ImportError:
            stagefaults = None
        if stagefaults is not None:
            stagefaults.run(ctx, quick)


def replay(ctx, path):
    import pathlib
    case = json.load(open(pathlib.Path(path) / 'replay.json'))['case']
    s, f = case['scn'], case['fault']
    pp = ctx.scratch / 'fault.json'
    json.dump(pooltrace.fault_plan(s, f['k'], f['pt'], f['mode']), open(pp, 'w'))
    o = sub.run_jobs(ctx, [{'job': {'scn': s, 'scheme': 'structural', 'plan': str(pp), 'mode': 'cli'}}])[0]
    ctx.count(case)
    ctx.sample({'ok': o['ok'], 'has_results': o.get('has_results'), 'files': o['files']})
    if o['ok'] or o.get('has_results'):
        ctx.report('replay', 'failed worker did not fail the run', case)
