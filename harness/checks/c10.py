"""C10 - the taxonomy stays a strict tree under construction and transformation.

1. MC   : Taxonomy_MC.cfg - every shape <= 4 levels / 6 leaves, every order of drop/flatten,
          C10 invariants + classification of every one-edit malformed variant.
2. S->C : Taxonomy_Gen.cfg emits every shape with the spec's expected query results; each is
          replayed into the real TaxonomyTree under several naming schemes.
3. C->S : random larger trees driven through random operation sequences on the real class;
          the recorded behaviours are validated by Taxonomy_Trace.
"""
import copy
import json
import random
import warnings

import numpy as np

from harness import taxo
from harness.tlc import run_tlc, MachineryError
from harness.traces import validate

SCHEMES = ['structural', 'reversed', 'shared']


def _imports():
    from cell_type_mapper.taxonomy.taxonomy_tree import TaxonomyTree
    from cell_type_mapper.taxonomy.utils import get_taxonomy_tree
    return TaxonomyTree, get_taxonomy_tree


def _scenarios(ctx, max_levels, max_leaves):
    cfg = ('SPECIFICATION GenSpec\n'
           f'CONSTANTS MaxLevels = {max_levels} MaxLeaves = {max_leaves}\nCHECK_DEADLOCK FALSE\n')
    res = run_tlc('Taxonomy_MC', cfg_text=cfg, workers=1, timeout=1800)
    scns = []
    seen = set()
    for t in res.tuples('SCN'):
        if t[1] in seen:
            continue
        seen.add(t[1])
        scns.append(json.loads(t[1]))
    ctx.add_tlc('Taxonomy_Gen', res)
    return scns


def _pairs_of(tree, nm, par, leaf_level):
    if par == [0, 0]:
        arg = None
    else:
        arg = (nm.level(par[0]), nm.node(par[0], par[1]))
    got = tree.leaves_to_compare(arg)
    out = []
    for lev, a, b in got:
        if lev != nm.level(leaf_level):
            return None, f'pair level {lev}'
        out.append(sorted([nm.inv_node(leaf_level, a), nm.inv_node(leaf_level, b)]))
    return out, None


def replay_scenario(ctx, scn, scheme, TaxonomyTree, get_taxonomy_tree, variants=True):
    """returns list of (signature, message) disagreements"""
    nm = taxo.Naming(scheme)
    tj = scn['tree']
    d = taxo.dict_from_tree(tj, nm)
    bad = []
    try:
        tree = TaxonomyTree(data=copy.deepcopy(d))
    except Exception as e:
        return [('valid-tree-rejected', f'constructor raised {type(e).__name__}: {e}')]
    hier = tj['hier']
    leaf = hier[-1]
    # structure as stored
    if taxo.project_dict(json.loads(tree.to_str()), nm) != tj:
        bad.append(('roundtrip', 'to_str does not reproduce the tree'))
    try:
        rt = TaxonomyTree.from_str(tree.to_str())
        if taxo.project_dict(rt._data, nm) != tj or not (rt == tree):
            bad.append(('roundtrip', 'from_str(to_str()) differs'))
        st = json.loads(tree.to_str(drop_cells=True))
        if taxo.project_dict(st, nm) != scn['stripped']:
            bad.append(('strip', 'to_str(drop_cells=True) differs from StripCells'))
        TaxonomyTree(data=st)
    except Exception as e:
        bad.append(('roundtrip', f'serialisation raised {type(e).__name__}: {e}'))
    if tree.hierarchy != [nm.level(l) for l in hier] or tree.leaf_level != nm.level(leaf):
        bad.append(('hierarchy', 'hierarchy / leaf_level differ'))
    # leaves under each node, nodes_at_level, children, parents
    as_leaves = tree.as_leaves
    for i, l in enumerate(hier):
        want_nodes = sorted(n for n, _ in scn['leaves'][i])
        got_nodes = sorted(nm.inv_node(l, x) for x in tree.nodes_at_level(nm.level(l)))
        if want_nodes != got_nodes:
            bad.append(('nodes_at_level', f'level {l}: {got_nodes} != {want_nodes}'))
        for n, lv in scn['leaves'][i]:
            got = as_leaves.get(nm.level(l), {}).get(nm.node(l, n))
            if got is None:
                bad.append(('as_leaves', f'({l},{n}): node missing from as_leaves'))
                continue
            try:
                g = sorted(nm.inv_node(leaf, x) for x in got)
            except KeyError:
                bad.append(('as_leaves', f'({l},{n}): unknown leaf among {got}'))
                continue
            if g != lv or len(got) != len(set(got)):
                bad.append(('as_leaves', f'({l},{n}): {g} != {lv}'))
        for n, anc in scn['parents'][i]:
            got = tree.parents(nm.level(l), nm.node(l, n))
            want = {nm.level(hier[k]): nm.node(hier[k], a) for k, a in enumerate(anc)}
            if got != want:
                bad.append(('parents', f'({l},{n}): {got} != {want}'))
        for n, ks in tj['kids'][i]:
            got = tree.children(nm.level(l), nm.node(l, n))
            if i == len(hier) - 1:
                # leaf level: children() returns the cells
                want = sorted(nm.cell(c) for c in dict((a, b) for a, b in tj['cells'])[n])
                if sorted(got) != want:
                    bad.append(('children', f'leaf ({l},{n}) cells {got} != {want}'))
            else:
                g = sorted(nm.inv_node(hier[i + 1], x) for x in got)
                if g != ks or len(got) != len(set(got)):
                    bad.append(('children', f'({l},{n}): {g} != {ks}'))
                # inverse
                for x in got:
                    if tree.parents(nm.level(hier[i + 1]), x)[nm.level(l)] != nm.node(l, n):
                        bad.append(('inverse', f'parent(child) != node for ({l},{n})/{x}'))
    top = sorted(nm.inv_node(hier[0], x) for x in tree.children(None, None))
    if top != sorted(n for n, _ in scn['leaves'][0]):
        bad.append(('children', 'children(None, None) differ'))
    if sorted(nm.inv_node(leaf, x) for x in tree.all_leaves) != sorted(n for n, _ in scn['leaves'][-1]):
        bad.append(('all_leaves', 'differ'))
    # all_parents and leaf pairs
    want_par = sorted(p['parent'] for p in scn['pairs'])
    got_par = tree.all_parents
    gp = sorted([0, 0] if p is None else [nm.inv_level(p[0], hier), nm.inv_node(nm.inv_level(p[0], hier), p[1])]
                for p in got_par)
    if gp != want_par or len(got_par) != len(want_par):
        bad.append(('all_parents', f'{gp} != {want_par}'))
    for p in scn['pairs']:
        got, err = _pairs_of(tree, nm, p['parent'], leaf)
        if err:
            bad.append(('leaf_pairs', err))
            continue
        if sorted(got) != sorted(p['pairs']):
            bad.append(('leaf_pairs', f'parent {p["parent"]}: {sorted(got)} != {p["pairs"]}'))
        if len(got) != len(p['pairs']):
            bad.append(('leaf_pairs_once', f'parent {p["parent"]}: listed {len(got)} pairs, '
                        f'{len(p["pairs"])} distinct expected'))
    # leaf pairs of a leaf "parent" are empty
    if tree.leaves_to_compare((nm.level(leaf), nm.node(leaf, 1))) != []:
        bad.append(('leaf_pairs', 'leaf parent has pairs'))
    # drop / flatten
    droppable = [l for l, _ in scn['drops']]
    for l, want in scn['drops']:
        try:
            t2 = tree.drop_level(nm.level(l))
            if taxo.project_dict(t2._data, nm) != want:
                bad.append(('drop_level', f'drop {l}: {taxo.project_dict(t2._data, nm)} != {want}'))
            if taxo.project_dict(tree._data, nm) != tj:
                bad.append(('drop_level', 'drop_level modified the original tree'))
        except Exception as e:
            bad.append(('drop_level', f'drop {l} raised {type(e).__name__}: {e}'))
    for l in hier:
        if l not in droppable:
            try:
                tree.drop_level(nm.level(l))
                bad.append(('drop_level', f'drop of non-droppable level {l} accepted'))
            except RuntimeError:
                pass
    try:
        fl = tree.flatten()
        if taxo.project_dict(fl._data, nm) != scn['flat']:
            bad.append(('flatten', f'{taxo.project_dict(fl._data, nm)} != {scn["flat"]}'))
    except Exception as e:
        bad.append(('flatten', f'raised {type(e).__name__}: {e}'))
    # construction from label columns: one record per cell, in cell id order
    cells = sorted((c, n) for n, cs in tj['cells'] for c in cs)
    leaf_anc = {n: anc for n, anc in scn['parents'][-1]}
    records = []
    for c, n in cells:
        rec = {nm.level(hier[k]): nm.node(hier[k], a) for k, a in enumerate(leaf_anc[n])}
        rec[nm.level(leaf)] = nm.node(leaf, n)
        rec['extra'] = 'x'
        records.append(rec)
    try:
        built = get_taxonomy_tree(obs_records=copy.deepcopy(records),
                                  column_hierarchy=[nm.level(l) for l in hier])
        built = json.loads(json.dumps({k: ({a: sorted(b) for a, b in v.items()} if isinstance(v, dict) else v)
                                       for k, v in built.items()}))
        if taxo.project_dict(built, nm, cells_as='rows') != tj:
            bad.append(('from_label_columns', 'tree built from label columns differs'))
        if len(hier) > 1 and len(tj['nodes'][0]) > 1:
            # inconsistent labels: first cell claims another top-level node
            rec2 = copy.deepcopy(records)
            other = [n for n in tj['nodes'][0] if nm.node(hier[0], n) != rec2[0][nm.level(hier[0])]][0]
            # only inconsistent if the cell's level-2 node has another cell
            lvl2 = rec2[0][nm.level(hier[1])]
            if sum(1 for r in rec2 if r[nm.level(hier[1])] == lvl2) > 1:
                rec2[0][nm.level(hier[0])] = nm.node(hier[0], other)
                try:
                    get_taxonomy_tree(obs_records=rec2, column_hierarchy=[nm.level(l) for l in hier])
                    bad.append(('from_label_columns', 'inconsistent label columns accepted'))
                except RuntimeError:
                    pass
    except Exception as e:
        bad.append(('from_label_columns', f'raised {type(e).__name__}: {e}'))
    # the same label columns as CATEGORICAL columns of an h5ad file, plus two cells without any label: the label
    # combination "missing at every level" is a lineage of its own ('nan'), nothing else changes
    if ctx.tier != 'quick' or (len(tj['nodes'][-1]) + len(hier)) % 3 == 0:
        try:
            import anndata
            import pandas as pd
            import tempfile
            cols = {nm.level(l): [r[nm.level(l)] for r in records] + [None, None] for l in hier}
            obs = pd.DataFrame({k: pd.Categorical(v) for k, v in cols.items()},
                               index=[f'c{i}' for i in range(len(records) + 2)])
            with tempfile.TemporaryDirectory(dir=str(ctx.scratch)) as td:
                pth = td + '/labels.h5ad'
                with warnings.catch_warnings():
                    warnings.simplefilter('ignore')
                    anndata.AnnData(X=np.zeros((len(obs), 1)), obs=obs,
                                    var=pd.DataFrame(index=['g'])).write_h5ad(pth)
                    t2 = TaxonomyTree.from_h5ad(pth, [nm.level(l) for l in hier])
            d2 = json.loads(t2.to_str())
            n_rec = len(records)
            for k, l in enumerate(hier):
                tab = d2[nm.level(l)]
                if l != leaf:
                    want = {nm.node(l, a): sorted(nm.node(hier[k + 1], c) for c in kids)
                            for a, kids in tj['kids'][k]}
                    want['nan'] = ['nan']
                    got = {a: sorted(b) for a, b in tab.items()}
                else:
                    want = {}
                    for i, r in enumerate(records):
                        want.setdefault(r[nm.level(leaf)], []).append(i)
                    want['nan'] = [n_rec, n_rec + 1]
                    got = {a: sorted(b) for a, b in tab.items()}
                if got != want:
                    bad.append(('from_h5ad', f'level {l}: tree built from categorical label columns with two un-annotated '
                                             f'cells is {got}, expected {want}'))
                    break
        except Exception as e:
            bad.append(('from_h5ad', f'raised {type(e).__name__}: {e}'))
    # malformed variants
    if variants:
        n_two = 0
        for v in scn['variants']:
            if v['edit'][0] == 'empty_then_twice':
                n_two += 1
                if ctx.tier == 'quick' and n_two > 6:
                    continue                    # quick: six of the two-edit variants per shape
            d2 = taxo.apply_edit(d, tj, nm, v['edit'])
            try:
                with warnings.catch_warnings():
                    warnings.simplefilter('ignore')
                    TaxonomyTree(data=d2)
                accepted = True
            except Exception:
                accepted = False
            if accepted != v['accepts']:
                bad.append((f'variant:{v["edit"][0]}',
                            f'edit {v["edit"]}: code accepts={accepted}, spec accepts={v["accepts"]}'))
            if v['edit'][0] == 'remove_link':
                # the same orphaned child, the parent's list padded back to its length with a sibling listed twice
                lst = d2[nm.level(v['edit'][1])][nm.node(v['edit'][1], v['edit'][2])]
                if lst:
                    d3 = copy.deepcopy(d2)
                    d3[nm.level(v['edit'][1])][nm.node(v['edit'][1], v['edit'][2])] = lst + [lst[0]]
                    try:
                        with warnings.catch_warnings():
                            warnings.simplefilter('ignore')
                            TaxonomyTree(data=d3)
                        acc3 = True
                    except Exception:
                        acc3 = False
                    if acc3 != v['accepts']:
                        bad.append(('variant:remove_link+listed_twice',
                                    f'edit {v["edit"]} with a sibling listed twice: code accepts={acc3}, spec '
                                    f'accepts={v["accepts"]}'))
    return bad


# ---------------------------------------------------------------------------
def _random_tree(rng, max_levels, max_leaves):
    L = rng.randint(1, max_levels)
    nleaf = rng.randint(1, max_leaves)
    counts = sorted(rng.randint(1, nleaf) for _ in range(L - 1)) + [nleaf]
    hier = list(range(1, L + 1))
    rng.shuffle(hier)            # level labels in arbitrary order
    kids = []
    for i in range(L - 1):
        k, j = counts[i + 1], counts[i]
        cuts = sorted(rng.sample(range(1, k), j - 1)) if j > 1 else []
        bounds = [0] + cuts + [k]
        # children ids permuted so that sibling groups are not contiguous
        perm = list(range(1, k + 1))
        rng.shuffle(perm)
        kids.append([[p + 1, sorted(perm[bounds[p]:bounds[p + 1]])] for p in range(j)])
    kids.append([[n, []] for n in range(1, nleaf + 1)])
    cid = 1
    cells = []
    for n in range(1, nleaf + 1):
        k = rng.randint(0, 3)
        cells.append([n, list(range(cid, cid + k))])
        cid += k
    nodes = [list(range(1, counts[i] + 1)) for i in range(L)]
    return {'hier': hier, 'keys': sorted(hier), 'nodes': nodes, 'kids': kids, 'cells': cells}


def _record_trace(rng, tj, scheme, TaxonomyTree):
    nm = taxo.Naming(scheme)
    tree = TaxonomyTree(data=taxo.dict_from_tree(tj, nm))
    events = []

    def queries(t):
        cur = taxo.project_dict(t._data, nm)
        h = cur['hier']
        for _ in range(rng.randint(1, 3)):
            i = rng.randrange(len(h))
            n = rng.choice(cur['nodes'][i])
            lv = t.as_leaves[nm.level(h[i])][nm.node(h[i], n)]
            events.append({'op': 'leaves', 'level': h[i], 'node': n,
                           'result': [nm.inv_node(h[-1], x) for x in lv]})
            par = t.parents(nm.level(h[i]), nm.node(h[i], n))
            events.append({'op': 'parents', 'level': h[i], 'node': n,
                           'result': [[nm.inv_level(k, h), nm.inv_node(nm.inv_level(k, h), v)]
                                      for k, v in par.items()]})
        ap = t.all_parents
        events.append({'op': 'all_parents',
                       'result': [[0, 0] if p is None else
                                  [nm.inv_level(p[0], h), nm.inv_node(nm.inv_level(p[0], h), p[1])]
                                  for p in ap]})
        for p in rng.sample(ap, min(3, len(ap))):
            pa = [0, 0] if p is None else [nm.inv_level(p[0], h), nm.inv_node(nm.inv_level(p[0], h), p[1])]
            got = t.leaves_to_compare(p)
            events.append({'op': 'pairs', 'parent': pa,
                           'result': [[nm.inv_node(h[-1], a), nm.inv_node(h[-1], b)] for _, a, b in got]})
            ch = t.children(None, None) if p is None else t.children(p[0], p[1])
            cl = h[0] if p is None else h[h.index(pa[0]) + 1]
            events.append({'op': 'children', 'parent': pa,
                           'result': [nm.inv_node(cl, x) for x in ch]})

    queries(tree)
    for _ in range(rng.randint(1, 5)):
        cur = taxo.project_dict(tree._data, nm)
        op = rng.choice(['drop', 'drop', 'drop', 'flatten', 'roundtrip', 'strip'])
        if op == 'drop':
            lev = rng.choice(cur['hier'])
            try:
                tree = tree.drop_level(nm.level(lev))
                events.append({'op': 'drop', 'level': lev, 'tree': taxo.project_dict(tree._data, nm)})
            except RuntimeError:
                events.append({'op': 'drop_refused', 'level': lev})
        elif op == 'flatten':
            tree = tree.flatten()
            events.append({'op': 'flatten', 'tree': taxo.project_dict(tree._data, nm)})
        elif op == 'roundtrip':
            tree = TaxonomyTree.from_str(tree.to_str())
            events.append({'op': 'roundtrip', 'tree': taxo.project_dict(tree._data, nm)})
        else:
            st = json.loads(tree.to_str(drop_cells=True))
            events.append({'op': 'strip', 'tree': taxo.project_dict(st, nm)})
        queries(tree)
    return {'init': tj, 'events': events, 'scheme': scheme}


INV_NAMES = {1: 'Accepts', 2: 'SameLeaves', 3: 'AncestorsPreserved', 4: 'Partition', 5: 'Inverse'}


def run(ctx):
    TaxonomyTree, get_taxonomy_tree = _imports()
    quick = ctx.tier == 'quick'
    ctx.cov['rule'] = (
        'scenarios = every tree shape (levels<=4, leaves<=6; monotone surjections level by level) '
        'x naming scheme, emitted by TLC from Taxonomy_MC with the expected result of every query, '
        'drop, flatten, serialisation and one-edit malformed variant; a scenario is non-trivial '
        'when the tree has >1 level or >1 leaf; distinct by canonical JSON of (tree, scheme). '
        'traces = random trees (<=5 levels, <=12 leaves, shuffled level labels and child ids) '
        'through random op sequences on the real class, validated by Taxonomy_Trace.')
    ctx.cov['trusted_base'] = ['TLC 1.8', 'harness/taxo.py projection (names <-> integers)']
    ctx.assumptions += [
        'children are sets in the spec; a dict listing one child twice under the same parent '
        'satisfies the three stated conditions and is not generated as a malformed variant']

    # 1. design model
    if ctx.only in (None, 'mc'):
        res = run_tlc('Taxonomy_MC', coverage=False, timeout=3600)
        ctx.add_tlc('Taxonomy_MC', res)
        if not res.ok:
            raise MachineryError('Taxonomy_MC design invariant violated (spec bug, not a verdict '
                                 'about the code):\n' + res.error_trace)
        ctx.part('mc', distinct=res.distinct, invariants=10, exhaustive=True)

    # 2. spec -> code
    if ctx.only in (None, 's2c'):
        scns = _scenarios(ctx, 4, 6)
        schemes = SCHEMES if not quick else SCHEMES[:2]
        nviol = 0
        for k, scn in enumerate(scns):
            for scheme in schemes:
                try:
                    bad = replay_scenario(ctx, scn, scheme, TaxonomyTree, get_taxonomy_tree,
                                          variants=(scheme == 'structural' or not quick))
                except MachineryError:
                    raise
                except Exception:
                    # a query of the real class raised where the spec has an answer
                    import traceback
                    bad = [('query-raised', traceback.format_exc()[-700:])]
                nontriv = len(scn['tree']['hier']) > 1 or len(scn['tree']['nodes'][-1]) > 1
                ctx.count({'tree': scn['tree'], 'scheme': scheme}, nontrivial=nontriv)
                for sig, msg in bad[:3]:
                    nviol += 1
                    ctx.report(f'taxonomy:{sig}', f'scheme={scheme} tree={scn["tree"]}: {msg}',
                               {'scenario': scn, 'scheme': scheme})
            if k in (3, 700):
                ctx.sample({'kind': 'scenario', 'tree': scn['tree'], 'pairs': scn['pairs'][:3],
                            'n_variants': len(scn['variants'])})
        ctx.part('s2c', scenarios=len(scns), schemes=len(schemes),
                 variants=sum(len(s['variants']) for s in scns), disagreements=nviol)
        ctx.cov['exhaustive'] = True

    # 3. code -> spec
    if ctx.only in (None, 'c2s'):
        rng = random.Random(ctx.seed + 10)
        n = 150 if quick else 1500
        traces = []
        for i in range(n):
            tj = _random_tree(rng, 5, 12)
            try:
                traces.append(_record_trace(rng, tj, SCHEMES[i % 3], TaxonomyTree))
            except Exception as e:
                ctx.report('taxonomy:op-raised', f'{type(e).__name__}: {e} on {tj}', {'tree': tj})
        verdicts = validate(ctx, 'Taxonomy_Trace', traces, 'Taxonomy_Trace')
        rej = 0
        for t, v in zip(traces, verdicts):
            ctx.count({'t': t}, nontrivial=len(t['init']['hier']) > 1)
            if not v['accepted']:
                rej += 1
                ev = t['events'][v['reached'] - 1] if v['reached'] - 1 < len(t['events']) else None
                why = (f'invariant {INV_NAMES.get(v["inv"])} fails after event {v["reached"] - 1}'
                       if v['inv'] else f'event {v["reached"]} not allowed by the spec: {ev}')
                ctx.report(f'taxonomy:trace:{ev["op"] if ev else "?"}', why, {'trace': t, 'verdict': v})
        ctx.sample({'kind': 'trace', 'init': traces[0]['init'], 'events': traces[0]['events'][:6]})
        ctx.part('c2s', traces=len(traces), rejected=rej,
                 events=sum(len(t['events']) for t in traces))
        # binding self-test: corrupt one recorded field per trace -> must be rejected
        st = []
        for t in traces[:40]:
            t2 = copy.deepcopy(t)
            cands = [e for e in t2['events'] if e['op'] in ('leaves', 'pairs', 'drop', 'flatten', 'children') and
                     (e.get('result') or e.get('tree'))]
            if not cands:
                continue
            e = rng.choice(cands)
            if 'result' in e:
                e['result'] = e['result'][:-1]
            else:
                e['tree']['hier'] = e['tree']['hier'][::-1] if len(e['tree']['hier']) > 1 else [77]
                if e['tree']['hier'] == [77]:
                    continue
            st.append(t2)
        if st:
            vs = validate(ctx, 'Taxonomy_Trace', st, 'Taxonomy_Trace_selftest', counts_as_impl=False)
            acc = sum(1 for v in vs if v['accepted'])
            ctx.cov['selftest'] = {'corrupted_traces': len(st), 'rejected': len(st) - acc}
            if acc:
                raise MachineryError(f'self-test: {acc} corrupted traces were accepted')


def replay(ctx, path):
    import pathlib
    TaxonomyTree, get_taxonomy_tree = _imports()
    case = json.load(open(pathlib.Path(path) / 'replay.json'))['case']
    if 'scenario' in case:
        for sig, msg in replay_scenario(ctx, case['scenario'], case['scheme'], TaxonomyTree,
                                        get_taxonomy_tree):
            ctx.report(f'taxonomy:{sig}', msg, case)
        ctx.count(case, True)
    elif 'trace' in case:
        t = _record_trace(random.Random(0), case['trace']['init'], case['trace']['scheme'], TaxonomyTree)
        v = validate(ctx, 'Taxonomy_Trace', [t], 'replay')[0]
        if not v['accepted']:
            ctx.report('taxonomy:trace', f'rejected at {v}', case)
