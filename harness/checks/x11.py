"""X11 (extension suite, not one of the 20 listed statements) - what the configuration schema of the mapping command
refuses before anything runs (schemas/hierarchical_type_assignment.py, schemas/mixins.py), reached through
harness/argshim.py.

1. MC   : Guards_MC - the decision table over (global factor, per-level table, normalisation name, result destinations,
          obsm key taken, permission to overwrite): every accepted configuration names exactly one source of factors, a
          destination, never overwrites an obsm entry without permission (ASSUME over all 1536 configurations); the table
          also shows a loophole: with a per-level table the normalisation name is not looked at by the schema.
2. S->C : every configuration of the table is turned into a real configuration (real query file with / without the obsm
          key, statistics and marker files) and given to the real FromSpecifiedMarkersRunner constructor; Guards_Trace
          compares accepted / refused and the reason.  Accepted configurations whose normalisation name is unknown
          (the loophole) are also RUN: the run must then stop with an error instead of mapping.
"""
import concurrent.futures as cf
import copy
import json
import pathlib
import random
import shutil
import tempfile
import traceback
import warnings

from harness import build, maptrace
from harness.tlc import run_tlc, MachineryError
from harness.traces import validate

PID = 'X11'
CL = {3001: 'configuration accepted / refused against the table', 3002: 'refused for a reason the table does not give',
      3003: 'an accepted configuration with an unknown normalisation name was mapped instead of stopped'}
FACTOR = {'none': None, 'neg': -0.25, 'zero': 0.0, 'tiny': 1e-9, 'half': 0.5, 'one': 1.0, 'one_eps': 1.0 + 5e-7, 'big': 1.0 + 2e-6}


def _reason(e):
    m = str(e)
    if 'bootstrap_factor must be in' in m:
        return 'factor_range'
    if 'not a valid query normalization' in m:
        return 'normalization'
    if "one and only one of 'bootstrap_factor'" in m:
        return 'factor_or_lookup'
    if 'already has key' in m:
        return 'obsm_taken'
    if 'You must specify at least one of' in m:
        return 'no_destination'
    return 'other: ' + m[:120]


def _batch(args):
    cfgs, seed, wd = args
    import anndata
    import numpy as np
    from harness import argshim
    argshim.install()
    from cell_type_mapper.cli.from_specified_markers import FromSpecifiedMarkersRunner
    rng = random.Random(seed)
    d = pathlib.Path(tempfile.mkdtemp(dir=wd))
    out = []
    try:
        scn = maptrace.gen_scenario(rng, max_levels=3, max_leaves=5, min_leaves=2, G=6, ncell=4,
                                    cfg={'drop': None, 'flatten': False, 'enc': 'dense'})
        with warnings.catch_warnings():
            warnings.simplefilter('ignore')
            conf0 = build.materialise(scn, d, 'structural', False)
            q_free = conf0['query_path']
            q_taken = str(d / 'q_taken.h5ad')
            a = anndata.read_h5ad(q_free)
            a.obsm['ctm'] = np.zeros((a.n_obs, 2))
            a.write_h5ad(q_taken)
        hier = scn['tree']['hier']
        for c in cfgs:
            conf = copy.deepcopy(conf0)
            ta = conf['type_assignment']
            ta['bootstrap_factor'] = FACTOR[c['factor']]
            ta['bootstrap_factor_lookup'] = ([['None', 0.5]] + [[f'L{l}', 0.5] for l in hier[:-1]] if c['lookup'] else None)
            ta['normalization'] = {'raw': 'raw', 'log2CPM': 'log2CPM', 'other': 'cpm'}[c['norm']]
            conf['query_path'] = q_taken if c['taken'] else q_free
            conf['extended_result_path'] = conf['extended_result_path'] if 'json' in c['dst'] else None
            conf['hdf5_result_path'] = conf['hdf5_result_path'] if 'hdf5' in c['dst'] else None
            conf['obsm_key'] = 'ctm' if 'obsm' in c['dst'] else None
            conf['obsm_clobber'] = bool(c['clobber'])
            rec = {'c': {k: (sorted(c[k]) if k == 'dst' else c[k]) for k in c}, 'ok': True, 'reason': 'none', 'ran': 'no'}
            try:
                with warnings.catch_warnings():
                    warnings.simplefilter('ignore')
                    r = FromSpecifiedMarkersRunner(args=[], input_data=conf)
            except Exception as e:                        # noqa
                rec['ok'] = False
                rec['reason'] = _reason(e)
                out.append(rec)
                continue
            if c['norm'] == 'other' and not c['taken']:
                # the loophole: accepted with an unknown normalisation name -> the run itself must stop
                import contextlib
                import io
                try:
                    with warnings.catch_warnings(), contextlib.redirect_stdout(io.StringIO()):
                        warnings.simplefilter('ignore')
                        r.run()
                    rec['ran'] = 'mapped'
                except Exception as e:                    # noqa
                    rec['ran'] = f'stopped: {type(e).__name__}: {str(e)[:100]}'
            out.append(rec)
        return out, None
    except Exception:
        return None, traceback.format_exc()
    finally:
        shutil.rmtree(d, ignore_errors=True)


def run(ctx):
    quick = ctx.tier == 'quick'
    rng = random.Random(ctx.seed + 111)
    ctx.cov['rule'] = ('one case = one configuration of the decision table (1536) given to the real runner constructor; '
                       'non-trivial = the configuration is refused or overwrites with permission; distinct by canonical JSON.')
    ctx.cov['trusted_base'] = ['TLC 1.8', 'harness/argshim.py (one argschema hook replaced)']
    res = run_tlc('Guards_MC', cfg_text='SPECIFICATION Spec\nCHECK_DEADLOCK FALSE\n', workers=1, timeout=3600)
    ctx.add_tlc('Guards_MC', res)
    if not res.ok:
        raise MachineryError('Guards_MC: ' + (res.error_trace or res.stdout[-1500:]))
    em = [json.loads(t[1]) for t in res.tuples('SCN')]
    ctx.part('emitted', configurations=len(em), accepted=sum(1 for e in em if e['accepted']))
    if quick:
        em = rng.sample(em, 400)
    else:
        ctx.cov['exhaustive'] = True
    wd = str(ctx.tmpdir('x11_'))
    cfgs = [e['c'] for e in em]
    batches = [cfgs[i:i + 40] for i in range(0, len(cfgs), 40)]
    with cf.ProcessPoolExecutor(max_workers=8) as ex:
        outs = list(ex.map(_batch, [(b, ctx.seed * 100 + i, wd) for i, b in enumerate(batches)]))
    recs = []
    for b, (rs, err) in zip(batches, outs):
        if rs is None:
            raise MachineryError(err)
        recs += rs
    for r in recs:
        ctx.count({'c': r['c']}, nontrivial=(not r['ok']) or (r['c']['taken'] and 'obsm' in r['c']['dst']))
        r['events'] = [0]
    vs = validate(ctx, 'Guards_Trace', recs, 'Guards_Trace', cfg='Guards_Trace.cfg')
    rej = 0
    for r, v in zip(recs, vs):
        if not v['accepted']:
            rej += 1
            ctx.report(f'clause:{v["inv"]}', f'{CL.get(v["inv"], v["inv"])} - {json.dumps({k: r[k] for k in ("c", "ok", "reason")})}',
                       {'c': r['c']})
        elif r['ran'] == 'mapped':
            rej += 1
            ctx.report('clause:3003', f'{CL[3003]} - {json.dumps(r["c"])}', {'c': r['c']})
    ctx.part('decided', constructed=len(recs), refused=sum(1 for r in recs if not r['ok']), rejected=rej,
             loophole_runs=sum(1 for r in recs if r['ran'] != 'no'),
             loophole_stopped=sum(1 for r in recs if r['ran'].startswith('stopped')))
    if recs:
        ctx.sample({'first': {k: recs[0][k] for k in ('c', 'ok', 'reason', 'ran')}})
        st = []
        for r in recs[:60]:
            r2 = copy.deepcopy(r)
            r2['ok'] = not r2['ok']
            r2['reason'] = 'none' if r2['ok'] else 'factor_range'
            st.append(r2)
        sv = validate(ctx, 'Guards_Trace', st, 'selftest', cfg='Guards_Trace.cfg', counts_as_impl=False)
        acc = sum(1 for v in sv if v['accepted'])
        ctx.cov['selftest'] = {'corrupted': len(st), 'rejected': len(st) - acc}
        if acc:
            raise MachineryError('self-test: corrupted guard observations accepted')


def replay(ctx, path):
    case = json.load(open(pathlib.Path(path) / 'replay.json'))['case']
    wd = str(ctx.tmpdir('x11_'))
    c = dict(case['c'])
    rs, err = _batch(([c], 0, wd))
    if rs is None:
        raise MachineryError(err)
    print(json.dumps(rs[0]))
    ctx.count(case)
