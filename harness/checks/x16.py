"""X16 (extension suite, not one of the 20 listed statements) - the CommandLog every command-line tool
carries and writes next to its results (cli/cli_log.py).

1. MC   : CommandLog.tla, two message kinds (ordinary / naming an existing absolute path) x every sequence
          of <= 3 (thorough 4) calls of add_msg / info / env / benchmark / warn / error / write_log(cloud_safe):
          memory and file are append-only, the file is exactly the writes (each the whole memory of the
          moment: WriteAppends deviation), a cloud-safe write stores no host path, warnings and printed lines
          are accounted for, an error raises and records nothing.
2. S->C : every complete history of the model is replayed into the real class (stdout and warnings captured,
          a real file written) and CommandLog_Trace compares after every call the outcome, the lines in
          memory, the lines of the file, the print and warning counts.  Outside TLC: each line (memory and file) has the
          '<seconds> seconds == ' prefix and the time stamps of the memory never decrease.
"""
import concurrent.futures as cf
import contextlib
import copy
import io
import json
import pathlib
import random
import re
import shutil
import tempfile
import traceback
import warnings

from harness.tlc import run_tlc, MachineryError
from harness.traces import validate

PID = 'X16'
CL = {3601: 'the call raised / returned differently', 3602: 'lines held in memory differ (tag, message or order)',
      3603: 'lines of the log file differ', 3604: 'number of printed lines differs',
      3605: 'number of warnings issued differs', 3690: 'a line lacks the time prefix or the time stamps of the memory decrease',
      0: 'call not possible in the model at this point'}
LINE = re.compile(r'^(\d\.\d{5}e[+-]\d\d) seconds == (.*)$')


def _project(lines, d, monotone=True):
    """log lines -> [{t, m}], plus whether every line is well formed (and, for the memory, the time stamps never
    decrease; the file repeats the memory at every write - WriteAppends - so its stamps restart per block)"""
    out, ok, t_prev = [], True, -1.0
    for ln in lines:
        mt = LINE.match(ln)
        if mt is None:
            ok = False
            out.append({'t': 'malformed', 'm': ln[:40]})
            continue
        t = float(mt.group(1))
        if monotone and t < t_prev:
            ok = False
        t_prev = t
        body = mt.group(2)
        tag = 'plain'
        if body.startswith('ENV: '):
            tag, body = 'ENV', body[5:]
        elif body.startswith('WARNING: '):
            tag, body = 'WARNING', body[9:]
        elif body.startswith('BENCHMARK: spent 2.5000e+00 seconds '):
            tag, body = 'BENCHMARK', body[len('BENCHMARK: spent 2.5000e+00 seconds '):]
        if body == 'hello world':
            m = 'm'
        elif body == f'wrote {d}/user/out.txt to disk':
            m = 'p'
        elif body == 'wrote out.txt to disk':
            m = 's'
        else:
            m = 'other:' + body[:40]
        out.append({'t': tag, 'm': m})
    return out, ok


def _case(args):
    scn, wd = args
    from cell_type_mapper.cli.cli_log import CommandLog
    d = pathlib.Path(tempfile.mkdtemp(dir=wd))
    try:
        (d / 'user').mkdir()
        (d / 'user' / 'out.txt').write_text('x')
        path = d / 'log.txt'
        text = {'m': 'hello world', 'p': f'wrote {d}/user/out.txt to disk', '': ''}
        log = CommandLog()
        printed = warned = 0
        events, wellformed = [], True
        for op in scn['ops']:
            outcome = 'ok'
            buf = io.StringIO()
            with warnings.catch_warnings(record=True) as caught, contextlib.redirect_stdout(buf):
                warnings.simplefilter('always')
                try:
                    msg = text[op['m']]
                    if op['op'] == 'write':
                        log.write_log(str(path), cloud_safe=bool(op['cs']))
                    elif op['op'] == 'benchmark':
                        log.benchmark(msg, 2.5)
                    else:
                        getattr(log, op['op'])(msg)
                except RuntimeError as e:
                    outcome = 'raised' if str(e) == text[op['m']] else 'raised other: ' + str(e)[:60]
            printed += len([x for x in buf.getvalue().split('\n') if x])
            warned += len(caught)
            mem, ok1 = _project(list(log.log), d)
            fl, ok2 = _project(path.read_text().split('\n')[:-1] if path.exists() else [], d, monotone=False)
            wellformed = wellformed and ok1 and ok2
            events.append({'op': op['op'], 'm': op['m'] or 'm', 'cs': bool(op['cs']), 'outcome': outcome,
                           'mem': mem, 'file': fl, 'printed': printed, 'warned': warned})
        return {'events': events, 'wellformed': wellformed}, None
    except Exception:
        return None, traceback.format_exc()
    finally:
        shutil.rmtree(d, ignore_errors=True)


def run(ctx):
    quick = ctx.tier == 'quick'
    rng = random.Random(ctx.seed + 116)
    ctx.cov['rule'] = ('one case = one complete history of CommandLog.tla (3 calls quick, 4 thorough, two message '
                       'kinds) replayed into the real class; non-trivial = the history writes the file after '
                       'recording something; distinct by canonical JSON.')
    ctx.cov['trusted_base'] = ['TLC 1.8', 'contextlib.redirect_stdout / warnings.catch_warnings as observers']
    import os
    cfg = open(os.path.join(os.path.dirname(__file__), '..', '..', 'spec', 'CommandLog_MC.cfg')).read()
    cfg = cfg.replace('MaxOps = 3', 'MaxOps = 3' if quick else 'MaxOps = 4') + 'CONSTRAINT Emit\n'
    res = run_tlc('CommandLog_MC', cfg_text=cfg, workers=1, timeout=3600)
    ctx.add_tlc('CommandLog_MC', res)
    if not res.ok:
        raise MachineryError(res.error_trace or res.stdout[-1500:])
    scns = [json.loads(t[1]) for t in res.tuples('SCN')]
    scns = list({json.dumps(s, sort_keys=True): s for s in scns}.values())
    if quick:
        scns = rng.sample(scns, min(len(scns), 1200))
    wd = str(ctx.tmpdir('x16_'))
    with cf.ProcessPoolExecutor(max_workers=8) as ex:
        outs = list(ex.map(_case, [(s, wd) for s in scns], chunksize=32))
    recs = []
    for s, (rec, err) in zip(scns, outs):
        if rec is None:
            raise MachineryError(err)
        ops = [o['op'] for o in s['ops']]
        ctx.count({'s': s}, nontrivial='write' in ops[1:] and ops[0] not in ('write', 'error'))
        recs.append(rec)
    vs = validate(ctx, 'CommandLog_Trace', recs, 'CommandLog_Trace', cfg='CommandLog_Trace.cfg')
    rej = 0
    for s, rec, v in zip(scns, recs, vs):
        calls = [(o['op'], o['m'], o['cs']) for o in s['ops']]
        if not v['accepted']:
            rej += 1
            ev = rec['events'][v['reached'] - 1] if v['reached'] - 1 < len(rec['events']) else None
            ctx.report(f'clause:{v["inv"]}', f'{CL.get(v["inv"], v["inv"])} - calls={calls} at call {v["reached"]}: {ev}',
                       {'scenario': s})
        elif not rec['wellformed']:
            rej += 1
            ctx.report('clause:3690', f'{CL[3690]} - calls={calls}', {'scenario': s})
    ctx.part('s2c', histories=len(scns), rejected=rej)
    if recs:
        ctx.sample({'scenario': scns[0], 'observed': recs[0]['events'][:2]})
        st = []
        for r in recs[:60]:
            r2 = copy.deepcopy(r)
            r2['events'][-1]['warned'] += 1
            st.append(r2)
        for r in [r for r in recs if r['events'][-1]['file']][:60]:
            r2 = copy.deepcopy(r)
            r2['events'][-1]['file'] = r2['events'][-1]['file'][:-1]
            st.append(r2)
        sv = validate(ctx, 'CommandLog_Trace', st, 'selftest', cfg='CommandLog_Trace.cfg', counts_as_impl=False)
        acc = sum(1 for v in sv if v['accepted'])
        ctx.cov['selftest'] = {'corrupted': len(st), 'rejected': len(st) - acc}
        if acc:
            raise MachineryError('self-test: corrupted log traces accepted')
    if not quick:
        ctx.cov['exhaustive'] = True


def replay(ctx, path):
    case = json.load(open(pathlib.Path(path) / 'replay.json'))['case']['scenario']
    wd = str(ctx.tmpdir('x16_'))
    rec, err = _case((case, wd))
    if rec is None:
        raise MachineryError(err)
    v = validate(ctx, 'CommandLog_Trace', [rec], 'replay', cfg='CommandLog_Trace.cfg')[0]
    if not v['accepted']:
        ctx.report(f'clause:{v["inv"]}', CL.get(v['inv']), {'scenario': case})
    elif not rec['wellformed']:
        ctx.report('clause:3690', CL[3690], {'scenario': case})
    ctx.count(case)
