"""C03 - confidence fields obey the documented arithmetic contract.

1. MC   : Election_MC - every vote vector (NC<=5 children, B<=6) through the report builder of
          choose_node satisfies ContractErr = 0; MapRun_MC - running product / inferred levels
          (clauses 32x) hold for every reachable final state.
2. C->S : real runs with generators stressing B=1, K=0, K > siblings, single-child chains,
          dropped / flattened levels; every record of every run is checked by MapRun_Trace
          (clauses 3xx) and by the projection layer for the float leaves ([-1,1], single-child
          correlation, inferred levels repeating the descendant's numbers).
"""
import json
import random

from harness import maptrace
from harness.campaign import campaign, report_for
from harness.checks.c01 import mc_cfg
from harness.tlc import run_tlc, MachineryError

PID = 'C03'


def run(ctx):
    quick = ctx.tier == 'quick'
    rng = random.Random(ctx.seed + 3)
    ctx.assumptions += ['floats are compared to 1e-9: a correlation of 1.0000000000000002 (rounding in double precision) '
                        'counts as inside [-1,1]']
    ctx.cov['rule'] = (
        'every record (cell x level) of every real run is one evaluation of the contract; runs come '
        'from a generator that forces iteration count 1, zero runners-up, more runners-up than '
        'siblings, single-child parents, dropped and flattened levels. Non-trivial = run with >=1 '
        'node where a choice exists; distinct by canonical JSON of the scenario.')
    ctx.cov['trusted_base'] = ['TLC 1.8', 'harness projection (probability -> votes with 1e-12 check)']
    if ctx.only in (None, 'mc'):
        for nc, b in ((3, 3), (4, 4)) if quick else ((3, 3), (4, 4), (5, 6)):
            cfg = (f'SPECIFICATION Spec\nCONSTANTS NC = {nc} B = {b} NG = 1 NL = 1 V = 0\n'
                   'INVARIANT ContractHolds\nINVARIANT VotesAccepted\nCHECK_DEADLOCK FALSE\n')
            res = run_tlc('Election_MC', cfg_text=cfg, timeout=3600)
            ctx.add_tlc(f'Election_MC_{nc}_{b}', res)
            if not res.ok:
                raise MachineryError('Election_MC violated:\n' + res.error_trace)
        dims = (3, 3, 2, 2, 1, 3, 2) if quick else (3, 4, 2, 2, 2, 3, 2)
        res = run_tlc('MapRun_MC', cfg_text=mc_cfg(*dims), timeout=7200)
        ctx.add_tlc('MapRun_MC', res)
        if not res.ok:
            raise MachineryError('MapRun_MC violated:\n' + res.error_trace)
    results = []
    if ctx.only in (None, 'c2s'):
        n = 120 if quick else 1500
        scns = []
        for i in range(n):
            m = i % 6
            big = (m == 5 and i % 4 == 1)
            # TLC integers are 32-bit: the running product B^depth must stay below 2^31
            s = maptrace.gen_scenario(rng, max_levels=2 if big else 4, max_leaves=7, min_leaves=1,
                                      ncell=rng.randint(1, 10))
            if m == 0:
                s['cfg']['B'] = 1
            elif m == 1:
                s['cfg']['K'] = 0
            elif m == 2:
                s['cfg']['K'] = 9
            elif m == 3:
                s['cfg']['fnum'] = rng.randint(1, 4)       # small subsets -> split votes
                s['cfg']['B'] = rng.randint(4, 9)
            elif m == 4:
                # sparse cells (one expressed gene): iterations that miss it see a constant vector,
                # correlation 0 with every leaf -> zero-correlation winners / runners-up
                s = maptrace.gen_scenario(rng, tree=maptrace.random_tree(rng, rng.randint(1, 2), 5, 3),
                                          ncell=rng.randint(3, 8), G=6)
                if len(s['tree']['nodes'][0]) == 1:
                    s['tree'] = maptrace.random_tree(rng, 1, 5, 3)
                    s['means'] = {str(l): [rng.randint(0, 4) for _ in range(6)]
                                  for l in s['tree']['nodes'][-1]}
                s['qgenes'] = rng.sample(range(1, 7), 6)
                s['markers'] = {'0/0': [1, 2, 3, 4, 5, 6]}
                s['Q'] = [[0] * 6 for _ in s['cells']]
                for row in s['Q']:
                    row[rng.randrange(6)] = rng.randint(1, 4)
                s['cfg'].update(fnum=rng.randint(4, 6), B=rng.randint(5, 9), K=rng.randint(1, 4),
                                enc=rng.choice(['dense', 'csr']), drop=None, flatten=False)
            elif m == 5 and i % 4 == 1:
                # iteration counts beyond one byte
                s['cfg']['B'] = rng.choice([256, 300, 517])
                s['Q'] = s['Q'][:2]
                s['cells'] = s['cells'][:2]
            if i % 8 == 6:
                # many siblings, few runners-up requested, votes spread over more than K + 1 of them
                s = maptrace.gen_scenario(rng, tree=maptrace.random_tree(rng, 1, 7, 5), ncell=rng.randint(4, 8), G=6)
                s['cfg'].update(K=rng.randint(1, 2), B=rng.randint(8, 12), fnum=rng.randint(2, 4), drop=None,
                                flatten=False)
                s['markers'] = {'0/0': [1, 2, 3, 4, 5, 6]}
                s['qgenes'] = rng.sample(range(1, 7), 6)
                s['Q'] = [[rng.randint(0, 4) for _ in range(6)] for _ in s['cells']]
            if i % 8 == 7:
                # a middle level of a >=3-level taxonomy is dropped and the votes below it are split: the inferred
                # level repeats ALL numbers (aggregate probability included) of the voted level below it
                while True:
                    t = maptrace.random_tree(rng, 4, 7, 4)
                    if len(t['hier']) >= 3:
                        break
                s = maptrace.gen_scenario(rng, tree=t, ncell=rng.randint(3, 8), G=6)
                s['cfg'].update(drop=rng.choice(t['hier'][1:-1]), flatten=False, fnum=rng.randint(2, 4),
                                B=rng.randint(4, 9))
                s['qgenes'] = rng.sample(range(1, 7), 6)
                s['Q'] = [[rng.randint(0, 4) for _ in range(6)] for _ in s['cells']]
                s['markers'] = {k: [1, 2, 3, 4, 5, 6] for k in s['markers']}
            if i % 16 == 5:
                # a reference cluster without any cell (its statistics are all zero): a constant profile like any other,
                # correlation 0 with every cell - never an undefined one
                leaf_ = rng.choice(s['tree']['nodes'][-1])
                s.setdefault('ncell', {})[str(leaf_)] = 0
                s['means'][str(leaf_)] = [0] * s['G']
            if i % 60 == 9:
                # more than 128 sibling leaves under one parent, few runners-up requested, few iterations
                t = maptrace.random_tree(rng, 1, 140, 130)
                s = maptrace.gen_scenario(rng, tree=t, ncell=rng.randint(2, 4), G=6)
                k_ = rng.randint(2, 4)
                # (no more iterations than runners-up asked for: fewer types receive a vote than places are reported)
                s['cfg'].update(K=k_, B=rng.randint(2, k_), fnum=rng.randint(3, 6), drop=None, flatten=False, minm=1)
                s['markers'] = {'0/0': [1, 2, 3, 4, 5, 6]}
                s['qgenes'] = rng.sample(range(1, 7), 6)
                s['Q'] = [[rng.randint(0, 4) for _ in range(6)] for _ in s['cells']]
            if i % 5 == 2:
                s['cfg']['qdtype'] = 'float32'          # the usual on-disk type of a query matrix
            scns.append(s)
        results = campaign(ctx, scns, 'MapRun_Trace_c03', focus='C03')
        # raw counts incl. a cell without any count (constant profile: every correlation 0).  The votes are not
        # recomputed by TLC here (log2(CPM+1) of the counts is not an integer); records and contract are.
        raws = []
        for i in range(20 if quick else 160):
            s = maptrace.gen_scenario(rng, max_levels=3, max_leaves=6, min_leaves=2, ncell=rng.randint(3, 8),
                                      **({'G': rng.randint(7, 12)} if i % 2 else {}))
            s['cfg'].update(norm='raw', B=rng.randint(1, 8))
            if i % 2 and max(s['qgenes']) <= s['G']:
                s['qgenes'].append(s['G'] + 1)
            s['Q'] = [[rng.randint(0, 30) for _ in s['qgenes']] for _ in s['cells']]
            s['Q'][rng.randrange(len(s['Q']))] = [0] * len(s['qgenes'])
            if i % 2:
                # "flat" cells: the same non-zero count in every gene the reference knows, arbitrary counts in
                # the others (a constant, non-integer log2CPM profile over any drawn subset: correlation 0 with
                # every leaf, never an undefined one)
                for _ in range(rng.randint(1, 2)):
                    v = rng.randint(1, 6)
                    s['Q'][rng.randrange(len(s['Q']))] = [v if g <= s['G'] else rng.randint(0, 400)
                                                          for g in s['qgenes']]
            raws.append(s)
        results += campaign(ctx, raws, 'MapRun_Trace_c03_raw', votes=False)
    nviol, blocked = report_for(ctx, results, PID)
    nrec = 0
    for r in results:
        nontriv = r['ok'] and any(e['op'] == 'node' and e['genes'] for e in r['trace']['events'])
        ctx.count(r['scn'], nontrivial=nontriv)
        if r['ok']:
            nrec += sum(len(x['lv']) for x in r['trace']['events'][-1]['recs'])
    ok = [r for r in results if r['ok']]
    if ok:
        ctx.sample({'final_records': ok[0]['trace']['events'][-1]['recs'][:2],
                    'B': ok[0]['scn']['cfg']['B'], 'K': ok[0]['scn']['cfg']['K']})
    ctx.part('runs', total=len(results), records_checked=nrec,
             failed_runs=sum(1 for r in results if not r['ok']), blocked_by_other_property=blocked,
             accepted=sum(1 for r in results if r['verdict']['accepted']))


def replay(ctx, path):
    from harness.checks.c01 import replay as rp
    rp(ctx, path)
