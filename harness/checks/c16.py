"""C16 - validation rewrites identifiers and integers without altering the data.

1. MC   : Validate_MC - the decision table (copy needed? reject? which integer type?) x the lattice of
          magnitudes at the boundaries of the integer types (symbolic 2^k + d/2): rounding moves a value by
          at most one half to an integer, the chosen type holds the rounded range, rounding is monotone.
2. S->C : every scenario of the model (5.5k: ranges x types; gene-identifier mixes x layer x rounding x
          integrality; duplicate cells / empty gene names) is materialised as a real h5ad (three encodings,
          chunk layouts) and given to validate_h5ad; checked against the spec's expectation: rejected or not,
          file written or not, obs / var order and annotations, X equal to the requested layer, every value
          moved by at most 1/2 to an integer of the expected type (or unchanged), identifier mapping,
          recorded renaming table and mapped-gene count, input bytes untouched.
"""
import concurrent.futures as cf
import hashlib
import json
import os
import pathlib
import random
import re
import shutil
import tempfile
import warnings
from fractions import Fraction

import anndata
import h5py
import numpy as np
import pandas as pd
import scipy.sparse as sp

from harness.tlc import run_tlc, MachineryError

PID = 'C16'


def val(a):
    return Fraction(a['s']) * (Fraction(2) ** a['k']) + Fraction(a['d'], 2)


def gene_name(g):
    if g['cls'] == 'ens':
        return f'ENSMUSG{g["id"]:011d}'
    if g['cls'] == 'ensv':
        return f'ENSMUSG{g["id"]:011d}.7'
    if g['cls'] == 'sym':
        return SYM[g['id']]
    # unknown names: every other one holds a slash (composite names such as "Gm100/Gm200" occur in real gene tables)
    return f'mystery-{g["id"]}' if g['id'] % 2 == 0 else f'mystery/{g["id"]}-x'


# known gene symbols; some contain a dot (like Tex19.1) and must not be taken for versioned identifiers
SYM = {i: (f'Sym{i}' if i % 2 else f'Sym{i}.1') for i in range(1, 6)}
MAPPER = {SYM[i]: f'ENSMUSG{i:011d}' for i in range(1, 6)}


def build_matrix(s, rng):
    """a matrix whose minimum is lo and maximum hi; non-integral value present iff not integral"""
    ng = len(s['genes'])
    lo, hi = val(s['lo']), val(s['hi'])
    nr = 4
    vals = [lo, hi]
    mid = None
    if not s['integral']:
        cands = [v for v in (lo, hi) if v.denominator != 1]
        if not cands:
            # need a non-integer strictly inside (lo, hi)
            for c in (lo + Fraction(1, 2), hi - Fraction(1, 2), lo + Fraction(3, 2)):
                if lo < c < hi and c.denominator != 1:
                    mid = c
                    break
            if mid is None:
                return None
            vals.append(mid)
    else:
        if lo.denominator != 1 or hi.denominator != 1:
            return None
    M = np.zeros((nr, ng), dtype=np.float64)
    zero_ok = lo <= 0 <= hi
    fill = float(lo) if not zero_ok else 0.0
    M[:, :] = fill
    pos = [(r, c) for r in range(nr) for c in range(ng)]
    rng.shuffle(pos)
    for v, (r, c) in zip(vals, pos):
        M[r, c] = float(v)
    # a few more values inside the range
    for (r, c) in pos[len(vals):len(vals) + 2]:
        if s['integral']:
            w = lo + int((hi - lo) * Fraction(rng.randint(0, 4), 4))
            M[r, c] = float(w)
    if M.min() != float(lo) or M.max() != float(hi):
        return None
    return M


def _case(args):
    s, enc, wd, seed = args
    from cell_type_mapper.validation.validate_h5ad import validate_h5ad
    from cell_type_mapper.gene_id.gene_id_mapper import GeneIdMapper
    rng = random.Random(seed)
    M = build_matrix(s, rng)
    if M is None:
        return 'skipped', []
    d = tempfile.mkdtemp(dir=wd)
    bad = []
    try:
        cells = [f'cell_{i}' for i in range(M.shape[0])]
        if s.get('dupCells'):
            cells[2] = cells[0]
        names = [gene_name(g) for g in s['genes']]
        if s.get('emptyName'):
            names[0] = ''
        obs = pd.DataFrame({'note': [f'n{i}' for i in range(len(cells))], 'num': list(range(len(cells)))},
                           index=pd.Index(cells, name='cell_id'))
        var = pd.DataFrame({'other': [f'o{j}' for j in range(len(names))]}, index=pd.Index(names, name='gene'))
        X = sp.csr_matrix(M) if enc == 'csr' else sp.csc_matrix(M) if enc == 'csc' else M
        src = os.path.join(d, 'in.h5ad')
        with warnings.catch_warnings():
            warnings.simplefilter('ignore')
            # the matrix that was NOT asked for holds other values, of another magnitude and integrality
            if s['layerIsX']:
                decoy = np.full(M.shape, 70000.5 if float(val(s['hi'])) < 60000 else 0.5)
                a = anndata.AnnData(X=X, obs=obs, var=var, layers={'decoy': decoy})
            else:
                decoy = (np.arange(M.size, dtype=np.float32).reshape(M.shape) % 3) + 0.25
                a = anndata.AnnData(X=decoy, obs=obs, var=var, layers={'raw': X})
            a.write_h5ad(src)
        if enc != 'dense' and seed % 3 == 1:
            # the sparse arrays stored contiguously (h5py's default; what writers other than a recent anndata produce)
            import h5py
            with h5py.File(src, 'a') as f:
                grp = f['X' if s['layerIsX'] else 'layers/raw']
                for k in ('data', 'indices', 'indptr'):
                    arr, attrs = grp[k][()], dict(grp[k].attrs)
                    del grp[k]
                    new = grp.create_dataset(k, data=arr)
                    for kk, vv in attrs.items():
                        new.attrs[kk] = vv
        digest0 = hashlib.sha256(open(src, 'rb').read()).hexdigest()
        dst = os.path.join(d, 'out.h5ad')
        os.makedirs(os.path.join(d, 'scratch'))
        raised = None
        ret = None
        try:
            with warnings.catch_warnings():
                warnings.simplefilter('ignore')
                ret = validate_h5ad(src, gene_id_mapper=GeneIdMapper(data=dict(MAPPER)),
                                    tmp_dir=os.path.join(d, 'scratch'), layer='X' if s['layerIsX'] else 'raw',
                                    round_to_int=s['round'], valid_h5ad_path=dst,
                                    expected_max=(20 if seed % 2 == 0 else None))
        except Exception as e:
            raised = f'{type(e).__name__}: {str(e)[:200]}'
        if hashlib.sha256(open(src, 'rb').read()).hexdigest() != digest0:
            bad.append(('validate:input-modified', 'the input file changed'))
        if os.listdir(os.path.join(d, 'scratch')):
            bad.append(('validate:scratch-left', f'{os.listdir(os.path.join(d, "scratch"))}'))
        if s['reject']:
            if raised is None:
                bad.append(('validate:not-rejected', f'invalid file accepted (returned {ret})'))
            return 'done', bad
        if raised is not None:
            if not s['mayreject']:
                bad.append(('validate:raised', raised))
            return 'done', bad
        path = ret[0] if isinstance(ret, (tuple, list)) else ret
        if not s['copy']:
            if path is not None or os.path.exists(dst):
                bad.append(('validate:unneeded-file', f'nothing to change but a file was written ({path})'))
            return 'done', bad
        if path is None or not os.path.exists(dst) or str(path) != dst:
            bad.append(('validate:no-file', f'a new file was needed but validate returned {path}'))
            return 'done', bad
        with warnings.catch_warnings():
            warnings.simplefilter('ignore')
            b = anndata.read_h5ad(dst)
        if list(b.obs.index) != cells or list(b.obs['note']) != list(obs['note']) or list(b.obs['num']) != list(obs['num']):
            bad.append(('validate:obs', 'cells / annotations differ'))
        want_names = []
        for (kind, k), g in zip(s['mapped'], s['genes']):
            want_names.append(f'ENSMUSG{k:011d}' if kind == 'ens' else None)
        got = list(b.var.index)
        if len(got) != len(want_names):
            bad.append(('validate:var', 'number of genes differs'))
        else:
            for w, gname, g in zip(want_names, got, s['genes']):
                if w is not None and gname != w:
                    bad.append(('validate:gene-id', f'{gene_name(g)} -> {gname}, expected {w}'))
                if w is None and (re.fullmatch(r'ENS[A-Z]+[0-9]+(\.[0-9]+)?', gname) or gname in names):
                    bad.append(('validate:placeholder', f'unknown gene {gene_name(g)} -> {gname}'))
            if len(set(got)) != len(got):
                bad.append(('validate:placeholder', f'identifiers not unique: {got}'))
            if list(b.var['other']) != list(var['other']):
                bad.append(('validate:var', 'gene annotations / order differ'))
        Xo = b.X.toarray() if sp.issparse(b.X) else np.asarray(b.X)
        if s['rounds']:
            if not np.all(np.abs(Xo.astype(np.float64) - M) <= 0.5) or not np.all(Xo == np.round(Xo)):
                bad.append(('validate:rounding', f'values not moved by at most 1/2 to integers: {Xo.tolist()} vs {M.tolist()}'))
            if str(Xo.dtype) != s['dtype']:
                bad.append(('validate:dtype', f'dtype {Xo.dtype}, expected {s["dtype"]} for range [{float(val(s["lo"]))}, '
                                              f'{float(val(s["hi"]))}]'))
        else:
            if not np.array_equal(Xo.astype(np.float64), M):
                bad.append(('validate:values-changed', 'values changed although no rounding was needed / requested'))
        uns = dict(b.uns)
        renamed = {gene_name(g): gn for g, gn in zip(s['genes'], got) if gene_name(g) != gn}
        if any(g['cls'] != 'ens' for g in s['genes']):
            # the package writes a '/' inside a key of uns as '$' (utils.clean_for_uns_serialization; anndata would read
            # the slash as a group boundary): the record is read with the inverse rule
            rec_map = {str(k).replace('$', '/'): v for k, v in dict(uns.get('AIBS_CDM_gene_mapping', {})).items()}
            if rec_map != renamed:
                bad.append(('validate:mapping-record', f'recorded {uns.get("AIBS_CDM_gene_mapping")} expected {renamed}'))
        if int(uns.get('AIBS_CDM_n_mapped_genes', -1)) != s['nmapped']:
            bad.append(('validate:mapped-count', f'recorded {uns.get("AIBS_CDM_n_mapped_genes")} expected {s["nmapped"]}'))
    except Exception as e:
        import traceback
        bad.append(('validate:harness', traceback.format_exc()[-600:]))
    finally:
        shutil.rmtree(d, ignore_errors=True)
    return 'done', bad


def _rechunk(path, key, chunks):
    import h5py
    with h5py.File(path, 'a') as f:
        ds = f[key]
        data = ds[()]
        attrs = dict(ds.attrs)
        del f[key]
        new = f.create_dataset(key, data=data, chunks=chunks)
        for k, v in attrs.items():
            new.attrs[k] = v


def _big_case(args):
    """matrices stored in several HDF5 chunks; the non-integral values sit only at the start / in the
    middle / at the end of the stored array / nowhere (Validate.tla: rounding is decided by the whole
    matrix, every value moves by at most one half)"""
    enc, where, place, chunk, wd, seed = args
    from cell_type_mapper.validation.validate_h5ad import validate_h5ad
    from cell_type_mapper.gene_id.gene_id_mapper import GeneIdMapper
    rng = np.random.default_rng(seed)
    nr, nc = 90, 60
    # small values everywhere; the one value that needs a wider integer type sits in the last row and column
    M = rng.integers(1, 100, size=(nr, nc)).astype(np.float64)
    if enc != 'dense':
        M[rng.random((nr, nc)) < 0.5] = 0.0
    M[nr - 1, nc - 1] = 40000.0
    # 'near': the non-integral values are within 1e-6 of an integer (17.00000005): they are not integers
    dl = 5e-8 if where == 'near' else 0.25
    region = 'start' if where == 'near' else 'none' if where == 'f32edge' else where
    flat_rows = {'start': range(0, 3), 'middle': range(44, 47), 'end': range(nr - 3, nr), 'none': range(0)}[region]
    if where == 'f32edge':
        # stored in single precision (what scanpy writes): huge odd counts, whose neighbours are 1 apart, the largest
        # single-precision value below one half, and one value that makes rounding necessary
        M[0, 0], M[1, 1], M[2, 2], M[3, 3], M[4, 4] = 8388609.0, 16777215.0, float(np.float32(0.49999997)), 12.25, 8388611.0
        if seed % 2:
            # 4294967295.5 as single precision holds: 2^32, one beyond the largest unsigned 32-bit integer
            M[5, 5] = float(np.float32(4294967295.5))
    for r in flat_rows:
        for c in range(nc):
            if M[r, c] != 0 and enc != 'csc' or enc == 'dense':
                M[r, c] += dl if (r + c) % 2 or where == 'near' else -dl
    if enc == 'csc' and region != 'none':
        cols = {'start': range(0, 3), 'middle': range(29, 32), 'end': range(nc - 3, nc)}[region]
        for c in cols:
            for r in range(nr):
                if M[r, c] != 0:
                    M[r, c] += dl
    d = tempfile.mkdtemp(dir=wd)
    bad = []
    try:
        names = [f'ENSMUSG{j + 1:011d}' for j in range(nc)]
        obs = pd.DataFrame(index=pd.Index([f'c{i}' for i in range(nr)], name='cell_id'))
        var = pd.DataFrame(index=pd.Index(names, name='gene'))
        if where == 'f32edge':
            M = M.astype(np.float32)
        X = sp.csr_matrix(M) if enc == 'csr' else sp.csc_matrix(M) if enc == 'csc' else M
        M = M.astype(np.float64)
        src = os.path.join(d, 'in.h5ad')
        with warnings.catch_warnings():
            warnings.simplefilter('ignore')
            if place == 'X':
                anndata.AnnData(X=X, obs=obs, var=var).write_h5ad(src)
                key = 'X'
            else:
                anndata.AnnData(X=np.zeros(M.shape, dtype=np.float32), obs=obs, var=var,
                                layers={'raw': X}).write_h5ad(src)
                key = 'layers/raw'
        if enc == 'dense':
            # 256: tall narrow chunks (more rows than columns, fewer columns than the matrix); else full-width bands
            _rechunk(src, key, (32, 8) if chunk == 256 else (max(1, chunk // nc), nc))
        else:
            _rechunk(src, key + '/data', (chunk,))
            _rechunk(src, key + '/indices', (chunk,))
        dst = os.path.join(d, 'out.h5ad')
        os.makedirs(os.path.join(d, 'scratch'))
        with warnings.catch_warnings():
            warnings.simplefilter('ignore')
            ret = validate_h5ad(src, gene_id_mapper=GeneIdMapper(data=dict(MAPPER)),
                                tmp_dir=os.path.join(d, 'scratch'), layer='X' if place == 'X' else 'raw',
                                round_to_int=True, valid_h5ad_path=dst, expected_max=None)
        path = ret[0] if isinstance(ret, (tuple, list)) else ret
        need = where != 'none' or place != 'X'
        if not need:
            if path is not None:
                bad.append(('validate:unneeded-file', 'nothing to change but a file was written'))
            return 'done', bad
        if path is None or not os.path.exists(dst):
            bad.append(('validate:no-file', f'a new file was needed (non-integral values at the {where} of the stored '
                                            f'array, {enc}, {place}) but validate returned {path}'))
            return 'done', bad
        with warnings.catch_warnings():
            warnings.simplefilter('ignore')
            b = anndata.read_h5ad(dst)
        Xo = b.X.toarray() if sp.issparse(b.X) else np.asarray(b.X)
        if not np.all(np.abs(Xo.astype(np.float64) - M) <= 0.5) or not np.all(Xo == np.round(Xo)):
            w = np.argwhere((np.abs(Xo.astype(np.float64) - M) > 0.5) | (Xo != np.round(Xo)))[:3].tolist()
            bad.append(('validate:rounding', f'values not moved by at most 1/2 to integers at {w} (non-integral values at '
                                             f'the {where} of the stored array, {enc}, {place}, chunks of {chunk})'))
        if os.listdir(os.path.join(d, 'scratch')):
            bad.append(('validate:scratch-left', f'{os.listdir(os.path.join(d, "scratch"))}'))
    except Exception:
        import traceback
        bad.append(('validate:raised', traceback.format_exc()[-600:]))
    finally:
        shutil.rmtree(d, ignore_errors=True)
    return 'done', bad


def _same_path_cases(wd):
    """the validated file is asked for AT the input's own path: whatever the call does, the input must stay as it is"""
    import hashlib
    from cell_type_mapper.validation.validate_h5ad import validate_h5ad
    from cell_type_mapper.gene_id.gene_id_mapper import GeneIdMapper
    out = []
    for needs_change in (False, True):
        d = tempfile.mkdtemp(dir=wd)
        try:
            names = [f'ENSMUSG{j + 1:011d}' for j in range(3)] if not needs_change else [SYM[1], SYM[3], f'ENSMUSG{9:011d}']
            X = np.array([[1, 0, 2], [0, 3, 0]], dtype=np.float32)
            p = os.path.join(d, 'in.h5ad')
            with warnings.catch_warnings():
                warnings.simplefilter('ignore')
                anndata.AnnData(X=X, obs=pd.DataFrame(index=pd.Index(['c0', 'c1'], name='cell_id')),
                                var=pd.DataFrame(index=pd.Index(names, name='gene'))).write_h5ad(p)
            before = hashlib.sha256(open(p, 'rb').read()).hexdigest()
            os.makedirs(os.path.join(d, 'scratch'))
            err = None
            try:
                with warnings.catch_warnings():
                    warnings.simplefilter('ignore')
                    validate_h5ad(p, gene_id_mapper=GeneIdMapper(data=dict(MAPPER)), tmp_dir=os.path.join(d, 'scratch'),
                                  layer='X', round_to_int=True, valid_h5ad_path=p)
            except Exception as e:                        # noqa
                err = f'{type(e).__name__}: {str(e)[:80]}'
            if not os.path.exists(p):
                out.append(('validate:same-path:input-gone', f'valid_h5ad_path = the input\'s own path (file needs '
                                                             f'{"a" if needs_change else "no"} change): the input file is gone ({err})'))
            elif hashlib.sha256(open(p, 'rb').read()).hexdigest() != before:
                out.append(('validate:same-path:input-modified', f'valid_h5ad_path = the input\'s own path (file needs '
                                                                 f'{"a" if needs_change else "no"} change): the input file was rewritten ({err})'))
        finally:
            shutil.rmtree(d, ignore_errors=True)
    return out


def run(ctx):
    quick = ctx.tier == 'quick'
    rng = random.Random(ctx.seed + 16)
    ctx.cov['rule'] = ('one case = one scenario of Validate_MC (range of values at integer-type boundaries, or a row of '
                       'the decision table: gene identifier mix x X/layer x rounding x integrality, or a rejected input) '
                       'x encoding, materialised as a real h5ad; non-trivial = scenario where a copy is needed or the '
                       'file is rejected; distinct by scenario x encoding.')
    ctx.cov['trusted_base'] = ['TLC 1.8', 'anndata writer / reader for inputs and outputs']
    ctx.assumptions += ['when rounding is requested but every value is already integral the data are "unchanged" and the '
                        'integer type is not asserted', 'a file in which no gene can be mapped may be refused (not in the '
                        'statement\'s list): either outcome accepted']
    res = run_tlc('Validate_MC', cfg='Validate_MC.cfg', workers=1, timeout=3600)
    ctx.add_tlc('Validate_MC', res)
    if not res.ok:
        raise MachineryError(res.error_trace or res.stdout[-1500:])
    scns = [json.loads(t[1]) for t in res.tuples('SCN')]
    table = [s for s in scns if s['mode'] != 'range']
    ranges = [s for s in scns if s['mode'] == 'range']
    if quick:
        ranges = rng.sample(ranges, 500)
    wd = str(ctx.tmpdir('c16_'))
    jobs = []
    for i, s in enumerate(table):
        for enc in ('dense', 'csr', 'csc'):
            jobs.append((s, enc, wd, ctx.seed + i))
    for i, s in enumerate(ranges):
        jobs.append((s, ('dense', 'csr', 'csc')[i % 3], wd, ctx.seed + i))
    with cf.ProcessPoolExecutor(max_workers=12) as ex:
        outs = list(ex.map(_case, jobs, chunksize=8))
    nbad = nskip = 0
    for (s, enc, _, _), (st, bad) in zip(jobs, outs):
        if st == 'skipped':
            nskip += 1
            continue
        ctx.count({'s': s, 'enc': enc}, nontrivial=s['copy'] or s['reject'])
        seen = set()
        for sig, msg in bad:
            if sig in seen:
                continue
            seen.add(sig)
            if ctx.report(sig, f'{msg} | scenario {json.dumps({k: s[k] for k in ("mode", "lo", "hi", "genes", "layerIsX", "round", "integral")})[:400]} ({enc})',
                          {'scenario': s, 'enc': enc}):
                nbad += 1
    # matrices stored in several HDF5 chunks
    big = [(enc, where, place, chunk, wd, ctx.seed + k)
           for k, (enc, where, place, chunk) in enumerate(
               (e, w, pl, c) for e in ('dense', 'csr', 'csc') for w in ('start', 'middle', 'end', 'none', 'near', 'f32edge')
               for pl in ('X', 'layer') for c in ((256, 1000) if not quick else (256,)))]
    with cf.ProcessPoolExecutor(max_workers=12) as ex:
        bouts = list(ex.map(_big_case, big, chunksize=2))
    for (enc, where, place, chunk, _, sd), (st, bad) in zip(big, bouts):
        ctx.count({'big': [enc, where, place, chunk]}, nontrivial=True)
        for sig, msg in bad[:2]:
            if ctx.report(sig, msg, {'big': [enc, where, place, chunk, sd]}):
                nbad += 1
    ctx.part('big', cases=len(big))
    for sig, msg in _same_path_cases(wd):
        if ctx.report(sig, msg, {'same_path': sig}):
            nbad += 1
    ctx.count({'same_path': 'no_change'}, nontrivial=True)
    ctx.count({'same_path': 'change'}, nontrivial=True)
    ctx.sample({'scenario': table[3]})
    ctx.sample({'scenario': ranges[0]})
    ctx.part('s2c', table_scenarios=len(table), range_scenarios=len(ranges), runs=len(jobs) - nskip,
             skipped_unrealisable=nskip, disagreements=nbad)
    if not quick:
        ctx.cov['exhaustive'] = True


def replay(ctx, path):
    case = json.load(open(pathlib.Path(path) / 'replay.json'))['case']
    wd = str(ctx.tmpdir('c16_'))
    if 'big' in case:
        enc, where, place, chunk, sd = case['big']
        st, bad = _big_case((enc, where, place, chunk, wd, sd))
    else:
        st, bad = _case((case['scenario'], case['enc'], wd, 0))
    for sig, msg in bad:
        ctx.report(sig, msg, case)
    ctx.count(case)
