"""C02 - assignments are the plurality of bootstrapped nearest-centroid votes.

1. MC   : Election_MC - the vote/contract oracle accepts every report choose_node can build
          from every vote vector (NC<=4, B<=4, K 0..5) and refuses a wrong one.
2. S->C : TLC enumerates every reference matrix (NL leaves x NG genes, values 0..V) with
          Best(q) for every query vector q; each matrix is one real run (flat taxonomy,
          factor 1, B=1) whose cells are all query vectors; the winner must be in Best(q).
3. C->S : random runs (random trees, marker tables, factors, B, K, column orders, extra
          genes, encodings); hooks give the drawn subsets; TLC recomputes every vote from the
          input files and validates the reported winner / vote shares / runners-up (2xx);
          the average correlation is compared by the projection layer (numeric leaf).
"""
import json
import random

from harness import maptrace, build
from harness.campaign import campaign, report_for
from harness.tlc import run_tlc, MachineryError

PID = 'C02'


def pearson_scenarios(ctx, NG, NL, V):
    cfg = (f'SPECIFICATION GenSpec\nCONSTANTS NC = 1 B = 1 NG = {NG} NL = {NL} V = {V}\n'
           'CHECK_DEADLOCK FALSE\n')
    res = run_tlc('Election_MC', cfg_text=cfg, workers=1, timeout=3600)
    ctx.add_tlc('Election_MC_gen', res)
    return [json.loads(t[1]) for t in res.tuples('SCN')]


def scenario_from_matrix(e, rng, NG, NL):
    """flat taxonomy with NL leaves, all query vectors as cells, query columns permuted"""
    tj = {'hier': [1], 'keys': [1], 'nodes': [list(range(1, NL + 1))],
          'kids': [[[n, []] for n in range(1, NL + 1)]], 'cells': [[n, []] for n in range(1, NL + 1)]}
    perm = list(range(1, NG + 1))
    rng.shuffle(perm)
    qs = [b['q'] for b in e['best']]
    Q = [[q[g - 1] for g in perm] + [rng.randint(0, 3)] for q in qs]
    return {'tree': tj, 'G': NG, 'means': {str(i + 1): e['M'][i] for i in range(NL)},
            'qgenes': perm + [NG + 1], 'Q': Q, 'cells': list(range(1, len(qs) + 1)),
            'markers': {'0/0': list(range(1, NG + 1))},
            'cfg': {'B': 1, 'fnum': 1, 'fden': 1, 'K': NL, 'chunk': rng.choice([5, 9, 100]),
                    'P': rng.randint(1, 3), 'flatten': False, 'drop': None, 'minm': 1, 'seed': 1,
                    'norm': 'log2CPM', 'enc': rng.choice(['dense', 'csr', 'csc'])},
            'expect_best': [b['best'] for b in e['best']]}


def run(ctx):
    quick = ctx.tier == 'quick'
    rng = random.Random(ctx.seed + 2)
    ctx.cov['rule'] = (
        'S->C: every reference matrix NLxNG over 0..V from TLC (Election_MC) as one real run whose '
        'cells are all query vectors; C->S: random runs, each node visit of each cell is one vote '
        'event recomputed by TLC from the input files and the logged draws. Non-trivial = a run '
        'with at least one node where a choice exists; distinct by canonical JSON.')
    ctx.cov['trusted_base'] = ['TLC 1.8', 'numpy float Pearson in harness/maptrace.py for the '
                               'average-correlation leaf (not the package)']
    ctx.assumptions += ['expression values are integers in log2CPM space so that correlation order is '
                        'exact; exact ties are accepted either way (sets)',
                        'average correlation compared with tolerance 1e-9; cells whose two best '
                        'correlations are closer than 1e-9 are not asserted']
    if ctx.only in (None, 'mc'):
        for nc, b in ((3, 3), (4, 4)) if quick else ((3, 3), (4, 4), (4, 6), (5, 5)):
            cfg = (f'SPECIFICATION Spec\nCONSTANTS NC = {nc} B = {b} NG = 1 NL = 1 V = 0\n'
                   'INVARIANT ContractHolds\nINVARIANT VotesAccepted\nINVARIANT WrongRefused\n'
                   'CHECK_DEADLOCK FALSE\n')
            res = run_tlc('Election_MC', cfg_text=cfg, timeout=3600)
            ctx.add_tlc(f'Election_MC_{nc}_{b}', res)
            if not res.ok:
                raise MachineryError('Election_MC violated:\n' + res.error_trace)
    results = []
    if ctx.only in (None, 's2c'):
        NG, NL, V = (3, 2, 2) if quick else (3, 3, 2)
        em = pearson_scenarios(ctx, NG, NL, V)
        if quick:
            em = rng.sample(em, 120)
        else:
            em = rng.sample(em, 4000)
        scns = [scenario_from_matrix(e, rng, NG, NL) for e in em]
        rs = campaign(ctx, scns, 'MapRun_Trace_pearson')
        bad = 0
        for r in rs:
            if not r['ok']:
                continue
            byid = {}
            for rec in r['trace']['events'][-1]['recs']:
                byid[rec['id']] = rec['lv'][0]['a']
            for i, best in enumerate(r['scn']['expect_best']):
                ctx.cov['evaluations'] += 1
                if byid.get(i + 1) not in best:
                    bad += 1
                    ctx.report('clause:s2c-best', f'cell q={r["scn"]["Q"][i]} assigned to leaf '
                               f'{byid.get(i + 1)}, spec Best={best}, M={r["scn"]["means"]}',
                               {'scn': r['scn'], 'scheme': r['scheme'], 'cell': i + 1})
        ctx.part('s2c', matrices=len(scns), cells_checked=sum(len(s['expect_best']) for s in scns),
                 disagreements=bad)
        results += rs
    if ctx.only in (None, 'c2s'):
        n = 80 if quick else 1500
        scns = []
        for _ in range(n):
            # TLC integers are 32-bit: with > 255 iterations keep B^depth below 2^31
            s = maptrace.gen_scenario(rng, max_levels=2 if _ % 20 == 7 else 3, max_leaves=6, min_leaves=2,
                                      ncell=rng.randint(3, 12))
            s['cfg']['B'] = rng.randint(1, 8 if quick else 25)
            s['cfg']['fnum'] = rng.randint(1, 10)
            if _ % 20 == 7:
                # iteration counts beyond one byte (vote counters must not wrap)
                s['cfg']['B'] = rng.choice([256, 300, 517])
                s['Q'] = s['Q'][:2]
                s['cells'] = s['cells'][:2]
            if _ % 20 == 11:
                # a CSC query with more than 100 stored values, converted under a tiny memory budget (several blocks)
                while True:
                    tj_ = maptrace.random_tree(rng, 2, 5, 3)
                    if len(tj_['nodes'][0]) > 1:
                        break
                s = maptrace.gen_scenario(rng, tree=tj_, ncell=40, G=6, vmax=4,
                                          cfg={'enc': 'csc', 'max_gb': 1e-7, 'chunk': 13, 'P': 2, 'B': 3,
                                               'drop': None, 'flatten': False, 'minm': 1})
                s['qgenes'] = rng.sample(range(1, 7), 6)
                s['Q'] = [[rng.randint(1, 4) for _ in range(6)] for _ in s['cells']]     # every value stored
                s['markers']['0/0'] = [1, 2, 3, 4, 5, 6]
            if _ % 4 == 1:
                # a bootstrap factor per level (level 0 = the root) instead of the global one
                s['cfg']['flookup'] = {str(l): [rng.randint(1, 10), 10] for l in [0] + s['tree']['hier'][:-1]}
            if _ % 10 == 3:
                s['Q'] = [[0] * len(s['qgenes']) for _ in s['cells']]
                for row in s['Q']:
                    row[rng.randrange(len(row))] = rng.randint(1, 4)
            scns.append(s)
        rs = campaign(ctx, scns, 'MapRun_Trace_c2s')
        ctx.part('c2s', runs=len(rs),
                 vote_events=sum(len(e['rows']) * len(e['draws']) for r in rs if r['ok']
                                 for e in r['trace']['events'] if e['op'] == 'node'),
                 corr_checked=sum(r.get('corr_checked', 0) for r in rs),
                 corr_undetermined=sum(r.get('corr_undetermined', 0) for r in rs))
        results += rs
    nviol, blocked = report_for(ctx, results, PID)
    for r in results:
        nontriv = r['ok'] and any(e['op'] == 'node' and e['genes'] for e in r['trace']['events'])
        ctx.count({k: v for k, v in r['scn'].items() if k != 'expect_best'}, nontrivial=nontriv)
    ok = [r for r in results if r['ok']]
    if ok:
        node = [e for e in ok[-1]['trace']['events'] if e['op'] == 'node'][:1]
        ctx.sample({'run': {k: ok[-1]['trace']['run'][k] for k in ('B', 'fnum', 'fden', 'K', 'qg', 'means')},
                    'node_event': node})
    ctx.part('runs', total=len(results), failed_runs=sum(1 for r in results if not r['ok']),
             blocked_by_other_property=blocked,
             accepted=sum(1 for r in results if r['verdict']['accepted']))


def replay(ctx, path):
    from harness.checks.c01 import replay as rp
    rp(ctx, path)
