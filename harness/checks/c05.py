"""C05 - row access is exact for every on-disk encoding and chunking.

1. MC   : RowAccess.tla - chunk ranges tile the rows in order (every chunk but the last is full),
          every row is yielded exactly once with its stored values; the sort / merge-ranges /
          un-sort route of get_batch equals direct selection for every duplicate-free row list.
2. S->C : every matrix of the model (values incl. empty rows / columns / all-zero) is written as
          dense, CSR and CSC, in X or a named layer, with several numeric types and HDF5 chunk
          layouts, and read back through the real iterator for every chunk size 1..n+1 and every
          duplicate-free row list; random larger matrices (> 100 stored values) with memory
          budgets down to the enforced minimum of the CSC->CSR conversion.
3. C->S : the (r0, r1) sequences of the real iterators are validated by RowAccess_Trace.
4. "Consequently": the mapping of a query and the statistics of a reference are identical for
          the three encodings of the same matrix (bitwise; Relations_Trace / digests).
"""
import concurrent.futures as cf
import copy
import json
import os
import pathlib
import random
import shutil
import tempfile
import warnings

import anndata
import h5py
import numpy as np
import pandas as pd
import scipy.sparse as sp

from harness import maptrace, relations
from harness.checks.c04 import base_scenario
from harness.tlc import run_tlc, MachineryError
from harness.traces import validate

PID = 'C05'
DTYPES = ['float32', 'float64', 'int32', 'uint16', 'bool', 'uint8', 'int64']      # (scipy has no sparse float16)
LAYOUTS = ['default', 'contiguous', 'tiny', 'unsorted']


def write_matrix(path, M, enc, layer, dtype, layout):
    M = np.array(M).astype(dtype)
    obs = pd.DataFrame(index=pd.Index([f'c{i}' for i in range(M.shape[0])], name='cell_id'))
    var = pd.DataFrame(index=pd.Index([f'g{j}' for j in range(M.shape[1])], name='gene'))
    X = sp.csr_matrix(M) if enc == 'csr' else sp.csc_matrix(M) if enc == 'csc' else M
    if layer:
        a = anndata.AnnData(X=np.zeros(M.shape, dtype=np.float32), obs=obs, var=var, layers={layer: X})
    else:
        a = anndata.AnnData(X=X, obs=obs, var=var)
    a.write_h5ad(path)
    if layout == 'unsorted':
        # a legal CSR / CSC file whose minor indices are not ascending within a slice (as written by anndata after
        # adata[:, gene_list] on a sparse matrix)
        if enc != 'dense':
            key = f'layers/{layer}' if layer else 'X'
            with h5py.File(path, 'a') as f:
                ptr = f[key]['indptr'][()]
                idx = f[key]['indices'][()]
                dat = f[key]['data'][()]
                for i in range(len(ptr) - 1):
                    a0, a1 = int(ptr[i]), int(ptr[i + 1])
                    idx[a0:a1] = idx[a0:a1][::-1]
                    dat[a0:a1] = dat[a0:a1][::-1]
                f[key]['indices'][...] = idx
                f[key]['data'][...] = dat
        return
    if layout != 'default':
        key = f'layers/{layer}' if layer else 'X'
        with h5py.File(path, 'a') as f:
            grp = f[key]
            names = ['data', 'indices', 'indptr'] if enc != 'dense' else [None]
            for nme in names:
                ds = grp[nme] if nme else grp
                arr = ds[()]
                attrs = dict(ds.attrs)
                full = f'{key}/{nme}' if nme else key
                if arr.size == 0 and layout != 'contiguous':
                    continue                              # (a zero-length array cannot be cut into one-element chunks)
                del f[full]
                if layout == 'contiguous':
                    new = f.create_dataset(full, data=arr)
                else:
                    new = f.create_dataset(full, data=arr, chunks=tuple(1 for _ in arr.shape))
                for k, v in attrs.items():
                    new.attrs[k] = v


def _matrix_case(args):
    s, combos, wd = args
    from cell_type_mapper.anndata_iterator.anndata_iterator import AnnDataRowIterator
    M = np.array(s['matrix'])
    n = M.shape[0]
    out = []
    traces = []
    neval = 0
    d = tempfile.mkdtemp(dir=wd)
    try:
        for ci, (enc, layer, dtype, layout) in enumerate(combos):
            # a fresh path per combination: a call that raised may keep the previous file open
            p = os.path.join(d, f'm{ci}.h5ad')
            with warnings.catch_warnings():
                warnings.simplefilter('ignore')
                write_matrix(p, M, enc, layer, dtype, layout)
            want = M.astype(dtype)
            tag = f'{enc}/{layer or "X"}/{dtype}/{layout}'
            for k in range(1, n + 2):
                neval += 1
                try:
                    it = AnnDataRowIterator(p, row_chunk_size=k, layer=layer or 'X', tmp_dir=d, max_gb=1)
                    got = []
                    rows = []
                    for chunk in it:
                        got.append([int(chunk[1]), int(chunk[2])])
                        rows.append(np.asarray(chunk[0]))
                    traces.append({'n': n, 'c': k, 'events': [{'r0': a, 'r1': b} for a, b in got]})
                    if got != s['chunks'][k - 1]:
                        out.append(('rows:chunk-ranges', f'{tag} chunk={k}: ranges {got} != {s["chunks"][k - 1]} matrix={s["matrix"]}'))
                    elif not np.array_equal(np.vstack(rows), want):
                        out.append(('rows:chunk-values', f'{tag} chunk={k}: values {np.vstack(rows).tolist()} != {want.tolist()}'))
                    del it
                except Exception as e:
                    sig = 'rows:iterator-exception'
                    out.append((sig, f'{tag} chunk={k} matrix={s["matrix"]}: {type(e).__name__}: {e}'))
                    break
            # an iteration with random accesses between its steps: the accesses return the stored rows and the
            # iteration is the one of the model all the same (the cursor belongs to the iteration)
            if n >= 2:
                try:
                    kk = 1 + (ci % max(1, n - 1))
                    it = AnnDataRowIterator(p, row_chunk_size=kk, layer=layer or 'X', tmp_dir=d, max_gb=1)
                    evs, rows = [], []
                    neval += 1
                    for step, chunk in enumerate(it):
                        evs.append({'r0': int(chunk[1]), 'r1': int(chunk[2])})
                        rows.append(np.asarray(chunk[0]))
                        a0 = (step + ci) % n
                        a1 = min(n, a0 + 1 + (step % 2))
                        ch = it.get_chunk(a0, a1)
                        ok1 = np.array_equal(np.asarray(ch[0]), want[a0:a1]) and (int(ch[1]), int(ch[2])) == (a0, a1)
                        sel = [(n - 1 - step) % n, (step + 1) % n] if n > 1 and (n - 1 - step) % n != (step + 1) % n else [step % n]
                        gb = np.asarray(it.get_batch(sel))
                        ok2 = np.array_equal(gb, want[sel])
                        evs.append({'r0': -1, 'r1': 1 if (ok1 and ok2) else 0})
                    traces.append({'n': n, 'c': kk, 'events': evs})
                    if rows and not np.array_equal(np.vstack(rows), want):
                        out.append(('rows:chunk-values', f'{tag} chunk={kk} with random accesses in between: values '
                                                         f'{np.vstack(rows).tolist()} != {want.tolist()}'))
                    del it
                except Exception as e:
                    out.append(('rows:iterator-exception', f'{tag} interleaved matrix={s["matrix"]}: {type(e).__name__}: {e}'))
            try:
                it = AnnDataRowIterator(p, row_chunk_size=2, layer=layer or 'X', tmp_dir=d, max_gb=1)
                for b in s['batches']:
                    neval += 1
                    got = np.asarray(it.get_batch(list(b['rows'])))
                    if not np.array_equal(got, np.array(b['result']).astype(dtype)):
                        out.append(('rows:batch-values', f'{tag} rows={b["rows"]}: {got.tolist()} != {b["result"]} matrix={s["matrix"]}'))
                        break
                    gs = it.get_batch(list(b['rows']), sparse=True)
                    gs = gs.toarray() if sp.issparse(gs) else np.asarray(gs)
                    if not np.array_equal(gs, np.array(b['result']).astype(dtype)):
                        out.append(('rows:batch-sparse-values', f'{tag} rows={b["rows"]} sparse=True: {gs.tolist()} != {b["result"]}'))
                        break
                ch = it.get_chunk(0, n)
                if not np.array_equal(np.asarray(ch[0]), want) or (ch[1], ch[2]) != (0, n):
                    out.append(('rows:get_chunk', f'{tag}: get_chunk(0,{n}) wrong'))
                del it
            except Exception as e:
                out.append(('rows:batch-exception', f'{tag} matrix={s["matrix"]}: {type(e).__name__}: {e}'))
                it = None
                import gc
                gc.collect()
    finally:
        shutil.rmtree(d, ignore_errors=True)
    return out, neval, traces


def _large_case(args):
    seed, wd = args
    from cell_type_mapper.anndata_iterator.anndata_iterator import AnnDataRowIterator
    rng = np.random.default_rng(seed)
    nr, nc = int(rng.integers(15, 40)), int(rng.integers(8, 20))
    dens = float(rng.choice([0.3, 0.6, 0.9]))
    if seed % 4 == 1:
        # few, long rows: a single row holds more stored values than the smallest budget (100 elements) allows per block
        nr, nc, dens = int(rng.integers(5, 10)), int(rng.integers(150, 260)), 0.9
    M = (rng.random((nr, nc)) < dens) * rng.integers(1, 50, size=(nr, nc))
    if seed % 5 == 0:
        M[int(rng.integers(0, nr))] = 0
        M[:, int(rng.integers(0, nc))] = 0
    out = []
    d = tempfile.mkdtemp(dir=wd)
    try:
        for enc in ('dense', 'csr', 'csc'):
            p = os.path.join(d, f'{enc}.h5ad')
            write_matrix(p, M, enc, None, 'float32', 'default')
            k = int(rng.integers(1, nr + 3))
            gb = float(rng.choice([1e-9, 1e-7, 1.0]))
            it = AnnDataRowIterator(p, row_chunk_size=k, tmp_dir=d, max_gb=gb)
            rows = [np.asarray(c[0]) for c in it]
            if not np.array_equal(np.vstack(rows), M.astype('float32')):
                out.append(('rows:large-values', f'{enc} {nr}x{nc} chunk={k} max_gb={gb}: values differ'))
            sel = rng.permutation(nr)[:int(rng.integers(1, nr))].tolist()
            it2 = AnnDataRowIterator(p, row_chunk_size=k, tmp_dir=d, max_gb=gb)
            if not np.array_equal(np.asarray(it2.get_batch(sel)), M[sel].astype('float32')):
                out.append(('rows:large-batch', f'{enc} {nr}x{nc} rows={sel}: batch differs'))
            # an arbitrary list may name a row twice
            rep = sel + [sel[0]] if seed % 2 else [sel[-1]] + sel
            try:
                got = np.asarray(it2.get_batch(rep))
                if not np.array_equal(got, M[rep].astype('float32')):
                    out.append(('rows:batch-repeated-row', f'{enc} {nr}x{nc} rows={rep}: batch differs'))
            except Exception as e:
                out.append(('rows:batch-repeated-row', f'{enc}: a row list that names a row twice ({rep[:6]}...) ends with '
                                                       f'{type(e).__name__}: {str(e)[:80]}'))
            # ... or no row at all
            try:
                got = np.asarray(it2.get_batch([]))
                if got.shape != (0, nc):
                    out.append(('rows:batch-empty-list', f'{enc}: the empty row list gives shape {got.shape}'))
            except Exception as e:
                out.append(('rows:batch-empty-list', f'{enc}: the empty row list ends with {type(e).__name__}: {str(e)[:80]}'))
            del it, it2
        import gc
        gc.collect()
        left = [x for x in os.listdir(d) if x.startswith('anndata_iterator')]
        if left:
            out.append(('rows:scratch-left', f'{left}'))
    except Exception as e:
        out.append(('rows:large-exception', f'{type(e).__name__}: {e}'))
    finally:
        shutil.rmtree(d, ignore_errors=True)
    return out, int((M != 0).sum())


def _boundary_case(args):
    """matrices whose number of columns / rows sits at an unsigned-integer boundary (the CSC->CSR
    conversion chooses the narrowest unsigned type for its column indices)"""
    nr, nc, wd = args
    from cell_type_mapper.anndata_iterator.anndata_iterator import AnnDataRowIterator
    rng = np.random.default_rng(nr * 7 + nc)
    M = np.zeros((nr, nc), dtype=np.float32)
    for r in range(nr):
        for c in (0, 1, nc // 2, nc - 2, nc - 1):
            if rng.random() < 0.8:
                M[r, c] = float(rng.integers(1, 50))
    M[0, nc - 1] = 7.0
    M[nr - 1, 0] = 3.0
    out = []
    d = tempfile.mkdtemp(dir=wd)
    try:
        for enc in ('csc', 'csr'):
            p = os.path.join(d, f'{enc}.h5ad')
            write_matrix(p, M, enc, None, 'float32', 'default')
            it = AnnDataRowIterator(p, row_chunk_size=max(1, nr // 2), tmp_dir=d, max_gb=1)
            got = np.vstack([np.asarray(c[0]) for c in it])
            if not np.array_equal(got, M):
                bad = int((got != M).sum())
                out.append(('rows:boundary-values', f'{enc} {nr}x{nc}: {bad} entries differ'))
            del it
    except Exception as e:
        out.append(('rows:boundary-exception', f'{nr}x{nc}: {type(e).__name__}: {e}'))
    finally:
        shutil.rmtree(d, ignore_errors=True)
    return out


def _wide_int_case(args):
    """64-bit integers beyond 2^53 (not representable in float64) must come back exactly in every encoding"""
    dtype, wd = args
    from cell_type_mapper.anndata_iterator.anndata_iterator import AnnDataRowIterator
    big = [2 ** 53 + 1, 2 ** 62 + 3, 2 ** 53 + 7, 9007199254740993]
    M = np.zeros((5, 4), dtype=dtype)
    M[0, 0], M[1, 3], M[3, 1], M[4, 2] = big
    M[2, 2] = 5
    out = []
    d = tempfile.mkdtemp(dir=wd)
    try:
        for enc in ('dense', 'csr', 'csc'):
            p = os.path.join(d, f'{enc}.h5ad')
            write_matrix(p, M, enc, None, dtype, 'default')
            for gb in (1.0, 1e-9):
                it = AnnDataRowIterator(p, row_chunk_size=2, tmp_dir=d, max_gb=gb)
                got = np.vstack([np.asarray(c[0]) for c in it])
                if got.dtype.kind not in 'iu' or not np.array_equal(got.astype(object), M.astype(object)):
                    out.append(('rows:wide-integers', f'{enc} {dtype} max_gb={gb}: {got.tolist()} != {M.tolist()} '
                                                      f'(returned dtype {got.dtype})'))
                del it
    except Exception as e:
        out.append(('rows:wide-integers-exception', f'{dtype}: {type(e).__name__}: {e}'))
    finally:
        shutil.rmtree(d, ignore_errors=True)
    return out


def run(ctx):
    quick = ctx.tier == 'quick'
    rng = random.Random(ctx.seed + 5)
    ctx.cov['rule'] = ('one case = (matrix, encoding, X/layer, numeric type, HDF5 layout, chunk size or row list); '
                       'matrices: every 2x2 / 3x2 matrix over {0,1,2} (quick) or 3x3 sample (thorough) from TLC; '
                       'plus random larger matrices and encoding-paired mapping / statistics runs. Non-trivial = '
                       'matrix with a stored value; distinct by (matrix, combo).')
    ctx.cov['trusted_base'] = ['TLC 1.8', 'anndata / h5py writers for the input files']
    dims = (3, 2, 3) if quick else (3, 3, 3)
    if ctx.only in (None, 'mc'):
        cfg = (f'SPECIFICATION Spec\nCONSTANTS NR = {dims[0]} NC = {dims[1]} Vals = {{0, 1, 2}} MaxBatch = {dims[2]}\n'
               'INVARIANT RangesTile\nINVARIANT FullChunks\nINVARIANT EveryRowOnce\nINVARIANT BatchCorrect\n'
               'CHECK_DEADLOCK FALSE\n')
        res = run_tlc('RowAccess', cfg_text=cfg, timeout=3600)
        ctx.add_tlc('RowAccess', res)
        if not res.ok:
            raise MachineryError(res.error_trace)
    wd = str(ctx.tmpdir('c05_'))
    all_traces = []
    if ctx.only in (None, 's2c'):
        cfg = (f'SPECIFICATION GenSpec\nCONSTANTS NR = {dims[0]} NC = {dims[1]} Vals = {{0, 1, 2}} MaxBatch = {dims[2]}\n'
               'CHECK_DEADLOCK FALSE\n')
        res = run_tlc('RowAccess', cfg_text=cfg, workers=1, timeout=3600)
        ctx.add_tlc('RowAccess_gen', res)
        scns = [json.loads(t[1]) for t in res.tuples('SCN')]
        if quick:
            scns = rng.sample(scns, 180)
        elif len(scns) > 2500:
            scns = rng.sample(scns, 2500)
        else:
            ctx.cov['exhaustive'] = True
        # all-zero and single-row corner cases are always included
        allc = [(e, l, dt, lay) for e in ('dense', 'csr', 'csc') for l in (None, 'counts')
                for dt in DTYPES for lay in LAYOUTS]
        jobs = []
        for i, s in enumerate(scns):
            combos = [(e, None, 'float32', 'default') for e in ('dense', 'csr', 'csc')]
            combos += rng.sample(allc, 3 if quick else 6)
            jobs.append((s, combos, wd))
        with cf.ProcessPoolExecutor(max_workers=12) as ex:
            outs = list(ex.map(_matrix_case, jobs, chunksize=8))
        nbad = 0
        for s, (bad, n, tr) in zip(scns, outs):
            ctx.count({'m': s['matrix']}, nontrivial=any(any(r) for r in s['matrix']))
            ctx.cov['evaluations'] += n - 1
            all_traces += tr[:3]
            seen = set()
            for sig, msg in bad:
                empty_csc = 'csc' in msg.split(' ')[0] and not any(any(r) for r in s['matrix'])
                if sig in seen:
                    continue
                seen.add(sig)
                if ctx.report(sig, msg, {'scenario': s}):
                    nbad += 1
        ctx.sample({'scenario_matrix': scns[0]['matrix'], 'chunks': scns[0]['chunks'], 'batch': scns[0]['batches'][:2]})
        ctx.part('s2c', matrices=len(scns), disagreements=nbad)
        # single-row and larger random matrices
        ljobs = [(ctx.seed * 100 + i, wd) for i in range(12 if quick else 200)]
        with cf.ProcessPoolExecutor(max_workers=12) as ex:
            louts = list(ex.map(_large_case, ljobs))
        for (bad, nnz), (seed, _) in zip(louts, ljobs):
            ctx.count({'large': seed}, nontrivial=nnz > 100)
            for sig, msg in bad[:2]:
                ctx.report(sig, msg, {'large_seed': seed})
        ctx.part('large', matrices=len(ljobs), over_100_entries=sum(1 for b, n in louts if n > 100))
        bj = [(nr, nc, wd) for nr, nc in [(4, 255), (4, 256), (4, 257), (4, 258), (257, 4), (256, 5),
                                          (3, 65535), (3, 65536), (3, 65537)]]
        with cf.ProcessPoolExecutor(max_workers=9) as ex:
            bouts = list(ex.map(_boundary_case, bj))
        for (nr, nc, _), bad in zip(bj, bouts):
            ctx.count({'boundary': [nr, nc]}, nontrivial=True)
            for sig, msg in bad[:2]:
                ctx.report(sig, msg, {'boundary': [nr, nc]})
        ctx.part('boundary', shapes=len(bj))
        for dt in ('int64', 'uint64'):
            ctx.count({'wide': dt}, nontrivial=True)
            for sig, msg in _wide_int_case((dt, wd))[:2]:
                ctx.report(sig, msg, {'wide': dt})
    if ctx.only in (None, 'c2s') and all_traces:
        tr = all_traces[:400]
        vs = validate(ctx, 'RowAccess_Trace', tr, 'RowAccess_Trace')
        rej = sum(1 for v in vs if not v['accepted'])
        for t, v in zip(tr, vs):
            if not v['accepted']:
                ctx.report(f'rows:trace:{v["inv"]}', f'iterator ranges {t["events"]} (n={t["n"]}, chunk={t["c"]}) '
                           f'are not a behaviour of RowAccess (clause {v["inv"]})', {'trace': t})
        ctx.part('c2s', traces=len(tr), rejected=rej)
    if ctx.only in (None, 'enc'):
        # "consequently": same mapping / statistics for all encodings of the same matrix
        items, meta = [], []
        for b in range(4 if quick else 40):
            s = None
            while s is None:
                s = base_scenario(rng, 3, 2)
            if b % 2:
                s['cfg']['norm'] = 'raw'
                s['Q'] = [[rng.randint(0, 30) for _ in s['qgenes']] for _ in s['cells']]
            for enc in ('dense', 'csr', 'csc'):
                s2 = copy.deepcopy(s)
                s2['cfg']['enc'] = enc
                items.append((s2, 'structural', {}))
                meta.append((b, enc))
        rs = relations.run_many(ctx, items)
        pairs = []
        for i in range(0, len(rs), 3):
            base = rs[i]
            for r, (b, enc) in zip(rs[i + 1:i + 3], meta[i + 1:i + 3]):
                ctx.count({'s': base['scn'], 'enc': enc}, nontrivial=True)
                if not base['ok'] or not r['ok']:
                    ctx.report('enc:run-failed', f'dense ok={base["ok"]} ({base["error"]}) {enc} ok={r["ok"]} '
                               f'({r["error"]})', {'scn': r['scn']})
                    continue
                pairs.append({'rel': 'order_bits', 'tree': base['scn']['tree'], 'base': base['recs'],
                              'image': r['recs'], 'levels': base['scn']['tree']['hier'], 'enc': enc,
                              'scn': r['scn']})
        rej = 0
        for p, v in relations.decide(ctx, pairs, 'Relations_Trace_c05'):
            if not v['accepted']:
                rej += 1
                ctx.report(f'enc:mapping:{v["inv"]}', f'mapping of the {p["enc"]} encoding differs from the dense '
                           f'one: {relations.CL.get(v["inv"])}', {'scn': p['scn']})
        ctx.part('enc', mapping_pairs=len(pairs), rejected=rej)


def replay(ctx, path):
    case = json.load(open(pathlib.Path(path) / 'replay.json'))['case']
    wd = str(ctx.tmpdir('c05_'))
    if 'scenario' in case:
        allc = [(e, l, dt, lay) for e in ('dense', 'csr', 'csc') for l in (None, 'counts')
                for dt in DTYPES for lay in LAYOUTS]
        bad, n, tr = _matrix_case((case['scenario'], allc, wd))
        for sig, msg in bad:
            ctx.report(sig, msg, case)
    ctx.count(case)
