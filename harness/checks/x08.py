"""X08 (extension suite, not one of the 20 listed statements) - MarkerGeneArray, the in-memory table of reference
markers that query-marker selection works on (marker_selection/marker_array.py, diff_exp/sparse_markers*.py).

1. MC   : MarkerArray_MC - every file over 3 genes x 2 pairs (each combination: no marker / up / down), every history of
          <= 2 operations (load with any query gene set incl. an unknown gene, keep any sequence of distinct gene rows,
          keep any sequence of distinct pairs in any order): the four index views (up / down, by pair / by gene) always
          agree, no gene is up and down for a pair, the array repeats the file on what it still holds, gene and pair
          down-sampling commute, a load with query genes is the naive load thinned.
2. S->C : every history of <= 2 operations over every 2 x 2 file is emitted by TLC and replayed into the real class;
          random larger files / longer histories on top.  After every call the harness dumps the full state (names, the
          four views) and every query (masks from gene / pair index, batch counts, pair look-up) and MarkerArray_Trace
          compares it with the state the spec computes, view by view.
"""
import concurrent.futures as cf
import copy
import json
import os
import pathlib
import random
import shutil
import tempfile
import traceback

from harness.tlc import run_tlc, MachineryError
from harness.traces import validate

PID = 'X08'
CL = {2701: 'call accepted / refused against the rule (or refused for another reason)',
      2702: 'gene names or pair order of the array differ',
      2703: 'a by-pair view differs', 2704: 'a by-gene view differs',
      2705: 'an index is listed twice in a row of a view',
      2706: 'marker / up mask returned by a query differs from the views',
      2707: 'pair look-up table, n_pairs, n_genes or the single-pair masks disagree with the views',
      2708: 'batch counts differ', 0: 'call not possible in the model at this point'}
LEVEL = 'cluster'


def _pair_name(j):
    return (LEVEL, f'a{j}', f'b{j % 3}')


def _write_file(path, f):
    import h5py
    import numpy as np
    ng, npair = len(f['genes']), len(f['pairs'])
    gpos = {g: i for i, g in enumerate(f['genes'])}
    ppos = {p: j for j, p in enumerate(f['pairs'])}
    lookup = {}
    for j, p in enumerate(f['pairs']):
        lv, n1, n2 = _pair_name(p)
        lookup.setdefault(lv, {}).setdefault(n1, {})[n2] = j

    def views(rel):
        byp = [[] for _ in range(npair)]
        byg = [[] for _ in range(ng)]
        for g, p in rel:
            byp[ppos[p]].append(gpos[g])
            byg[gpos[g]].append(ppos[p])

        def csr(rows):
            ptr, idx = [0], []
            for r in rows:
                idx += sorted(r)
                ptr.append(len(idx))
            return np.array(ptr, dtype=np.int64), np.array(idx, dtype=np.int64)
        return csr(byp), csr(byg)
    (upp, upg), (dnp, dng) = views(f['up']), views(f['down'])
    with h5py.File(path, 'w') as h:
        h.create_dataset('gene_names', data=json.dumps([f'g{g}' for g in f['genes']]).encode())
        h.create_dataset('pair_to_idx', data=json.dumps(lookup).encode())
        h.create_dataset('n_pairs', data=npair)
        g = h.create_group('sparse_by_pair')
        g.create_dataset('up_pair_idx', data=upp[0])
        g.create_dataset('up_gene_idx', data=upp[1])
        g.create_dataset('down_pair_idx', data=dnp[0])
        g.create_dataset('down_gene_idx', data=dnp[1])
        g = h.create_group('sparse_by_gene')
        g.create_dataset('up_gene_idx', data=upg[0])
        g.create_dataset('up_pair_idx', data=upg[1])
        g.create_dataset('down_gene_idx', data=dng[0])
        g.create_dataset('down_pair_idx', data=dng[1])


def _dump(arr, rng):
    import numpy as np
    genes = [int(n[1:]) for n in arr.gene_names]
    n_pairs = int(arr.n_pairs)
    by_idx = {}
    for lv, d1 in arr.taxonomy_pair_to_idx.items():
        for n1, d2 in d1.items():
            for n2, j in d2.items():
                by_idx.setdefault(int(j), []).append((lv, n1, n2))
    lookup_ok = sorted(by_idx) == list(range(n_pairs)) and all(len(v) == 1 for v in by_idx.values())
    pairs = []
    if lookup_ok:
        for j in range(n_pairs):
            lv, n1, n2 = by_idx[j][0]
            pairs.append(int(n1[1:]))
            lookup_ok = lookup_ok and (lv, n1, n2) == _pair_name(int(n1[1:])) and arr.idx_of_pair(lv, n1, n2) == j
    lookup_ok = lookup_ok and arr.n_genes == len(genes)
    clean = True

    def rows(view, n, getter):
        nonlocal clean
        out = []
        for i in range(n):
            r = [int(x) + 1 for x in getter(i)]
            clean = clean and len(set(r)) == len(r)
            out.append(sorted(set(r)))
        return out
    st = {'genes': genes, 'pairs': pairs,
          'upP': rows('upP', n_pairs, arr.up_by_pair.get_genes_for_pair),
          'dnP': rows('dnP', n_pairs, arr.down_by_pair.get_genes_for_pair),
          'upG': rows('upG', len(genes), arr.up_by_gene.get_pairs_for_gene),
          'dnG': rows('dnG', len(genes), arr.down_by_gene.get_pairs_for_gene)}
    qg, qp = [], []
    for i in range(len(genes)):
        m, u = arr.marker_mask_from_gene_idx(i)
        lookup_ok = lookup_ok and m.shape == (n_pairs,) and u.shape == (n_pairs,)
        qg.append([i + 1, [int(x) + 1 for x in np.where(m)[0]], [int(x) + 1 for x in np.where(u)[0]]])
    for j in range(n_pairs):
        m, u = arr.marker_mask_from_pair_idx(j)
        lookup_ok = lookup_ok and m.shape == (len(genes),)
        qp.append([j + 1, [int(x) + 1 for x in np.where(m)[0]], [int(x) + 1 for x in np.where(u)[0]]])
        u1 = arr.up_mask_from_pair_idx(j)
        d1 = arr.down_mask_from_pair_idx(j)
        lookup_ok = lookup_ok and bool((u1 == u).all()) and bool((d1 == (m & ~u)).all())
    js = [rng.randrange(n_pairs) for _ in range(rng.randint(0, 4))] if n_pairs else []
    upc = [int(x) for x in arr.up_mask_from_pair_idx_batch(js)]
    dnc = [int(x) for x in arr.down_mask_from_pair_idx_batch(js)]
    return {'state': st, 'clean': bool(clean), 'lookup': bool(lookup_ok), 'qg': qg, 'qp': qp,
            'js': [j + 1 for j in js], 'upc': upc, 'dnc': dnc}


EMPTY = {'state': {'genes': [], 'pairs': [], 'upP': [], 'dnP': [], 'upG': [], 'dnG': []}, 'clean': True, 'lookup': True,
         'qg': [], 'qp': [], 'js': [], 'upc': [], 'dnc': []}


def _case(args):
    scn, wd = args
    from cell_type_mapper.marker_selection.marker_array import MarkerGeneArray
    import numpy as np
    d = pathlib.Path(tempfile.mkdtemp(dir=wd))
    rng = random.Random(scn['seed'])
    try:
        path = d / 'ref_markers.h5'
        _write_file(path, scn['file'])
        (d / 'scratch').mkdir()
        arr = None
        events = []
        for op in scn['ops']:
            ev = {'op': op['op'], 'naive': bool(op.get('naive', False)), 'arg': op.get('arg', []), 'ok': True, 'kind': 'ok'}
            try:
                if op['op'] == 'load':
                    q = None if op.get('naive') else [('zz' if g == 0 else f'g{g}') for g in op['arg']]
                    if q is not None and op.get('shuffle'):
                        rng.shuffle(q)
                    new = MarkerGeneArray.from_cache_path(path, query_gene_names=q, tmp_dir=str(d / 'scratch'))
                elif op['op'] == 'genes':
                    idx = np.array([i - 1 for i in op['arg']], dtype=np.int64)
                    if op.get('in_place'):
                        arr.downsample_genes(idx, tmp_dir=str(d / 'scratch'))
                        new = arr
                    else:
                        new = arr.downsample_genes_to_other(idx, tmp_dir=str(d / 'scratch'))
                else:
                    keep = []
                    for p in op['arg']:
                        lv, n1, n2 = _pair_name(abs(p))
                        keep.append((lv, n2, n1) if p < 0 else (lv, n1, n2))
                    new = arr.downsample_pairs_to_other(only_keep_pairs=keep, tmp_dir=str(d / 'scratch'))
                    ev['arg'] = [abs(p) if p > 0 else 1000 + abs(p) for p in op['arg']]
            except RuntimeError as e:
                m = str(e)
                ev['ok'] = False
                ev['kind'] = ('no_overlap' if 'No gene overlap' in m else
                              'unknown_pair' if ('not under taxonomy level' in m or 'not a valid taxonomy pair' in m)
                              else 'other: ' + m[:80])
                ev.update(copy.deepcopy(EMPTY))
                events.append(ev)
                continue
            except Exception as e:                       # noqa
                ev['ok'] = False
                ev['kind'] = f'other: {type(e).__name__}: {str(e)[:80]}'
                ev.update(copy.deepcopy(EMPTY))
                events.append(ev)
                continue
            arr = new
            try:
                ev.update(_dump(arr, rng))
            except Exception as e:                       # noqa  - a query of the class raised on the new array
                ev.update(copy.deepcopy(EMPTY))
                ev['lookup'] = False
                ev['kind'] = f'a query raised {type(e).__name__}: {str(e)[:80]}'
                events.append(ev)
                break
            left = os.listdir(d / 'scratch')
            if left:
                ev['lookup'] = False
                ev['kind'] = f'scratch not empty: {left[:3]}'
            events.append(ev)
        return {'file': scn['file'], 'events': events}, None
    except Exception:
        return None, traceback.format_exc()
    finally:
        shutil.rmtree(d, ignore_errors=True)


def _random_scn(rng):
    ng, npair = rng.randint(2, 7), rng.randint(1, 6)
    genes = rng.sample(range(1, 30), ng)
    pairs = rng.sample(range(1, 30), npair)
    up, down = [], []
    dens = rng.choice([0.15, 0.4, 0.8])
    for g in genes:
        for p in pairs:
            if rng.random() < dens:
                (up if rng.random() < 0.5 else down).append([g, p])
    ops = [{'op': 'load', 'naive': True}] if rng.random() < 0.5 else \
          [{'op': 'load', 'arg': sorted(set(rng.sample(genes, rng.randint(0, ng)) + ([0] if rng.random() < 0.5 else []))),
            'shuffle': True}]
    cur_g, cur_p = list(genes), list(pairs)
    if not ops[0].get('naive'):
        kept = [g for g in genes if g in ops[0]['arg']]
        if not kept:
            return {'file': {'genes': genes, 'pairs': pairs, 'up': up, 'down': down}, 'ops': ops,
                    'seed': rng.randint(0, 10 ** 6)}
        cur_g = kept
    for _ in range(rng.randint(1, 4)):
        r = rng.random()
        if r < 0.45 and cur_g:
            k = rng.randint(1, len(cur_g))
            idx = rng.sample(range(1, len(cur_g) + 1), k)
            if rng.random() < 0.6:
                idx.sort()
            ops.append({'op': 'genes', 'arg': idx, 'in_place': rng.random() < 0.5})
            cur_g = [cur_g[i - 1] for i in idx]
        elif r < 0.9 and cur_p:
            k = rng.randint(1, len(cur_p))
            ps = rng.sample(cur_p, k)
            if rng.random() < 0.12:
                bad = rng.choice([-ps[0], 31])           # reversed nodes / a pair the array does not hold
                ops.append({'op': 'pairs', 'arg': ps + [bad]})
            else:
                ops.append({'op': 'pairs', 'arg': ps})
                cur_p = ps
        else:
            q = sorted(set(rng.sample(genes, rng.randint(1, ng))))
            ops.append({'op': 'load', 'arg': q, 'shuffle': True})
            cur_g, cur_p = [g for g in genes if g in q], list(pairs)
    return {'file': {'genes': genes, 'pairs': pairs, 'up': up, 'down': down}, 'ops': ops, 'seed': rng.randint(0, 10 ** 6)}


def run(ctx):
    quick = ctx.tier == 'quick'
    rng = random.Random(ctx.seed + 108)
    ctx.cov['rule'] = ('one case = one history of calls on a real MarkerGeneArray (every history of <= 2 operations over '
                       'every 2 x 2 file from TLC; random files of 2-7 genes x 1-6 pairs with histories of 2-5 calls); '
                       'non-trivial = the file has a marker and a call down-samples; distinct by canonical JSON.')
    ctx.cov['trusted_base'] = ['TLC 1.8', 'h5py writing of the marker file', 'harness dump of the class state']
    if ctx.only in (None, 'mc'):
        dims = (3, 2, 2) if quick else (3, 2, 3)
        cfg = ('SPECIFICATION Spec\nCONSTANTS NG = %d NP = %d MaxOps = %d\n' % dims
               + ''.join(f'INVARIANT {i}\n' for i in ('InvWellFormed', 'InvViewsAgree', 'InvNeverBoth', 'InvFaithful',
                                                      'InvNames', 'InvCommute', 'InvLoadIsThin'))
               + 'CHECK_DEADLOCK FALSE\n')
        res = run_tlc('MarkerArray_MC', cfg_text=cfg, timeout=7200)
        ctx.add_tlc('MarkerArray_MC', res)
        if not res.ok:
            raise MachineryError('MarkerArray_MC: design invariant violated:\n' + (res.error_trace or res.stdout[-1500:]))
        ctx.part('mc', dims=str(dims), distinct=res.distinct)
    scns = []
    if ctx.only in (None, 's2c'):
        res = run_tlc('MarkerArray_MC', cfg_text='SPECIFICATION GenSpec\nCONSTANTS NG = 2 NP = 2 MaxOps = 2\nCONSTRAINT Emit\n'
                                                 'CHECK_DEADLOCK FALSE\n', workers=1, timeout=3600)
        ctx.add_tlc('MarkerArray_Gen', res)
        if not res.ok:
            raise MachineryError(res.error_trace or res.stdout[-1500:])
        em = [json.loads(t[1]) for t in res.tuples('SCN')]
        ctx.part('emitted', histories=len(em))
        if quick:
            em = rng.sample(em, min(len(em), 500))
        else:
            ctx.cov['exhaustive_small'] = True
        for e in em:
            f = {'genes': e['file']['genes'], 'pairs': e['file']['pairs'], 'up': e['file']['up'], 'down': e['file']['down']}
            ops = [{'op': 'load', 'naive': True}]
            for o in e['ops']:
                if o['op'] == 'load':
                    ops.append({'op': 'load', 'arg': [0 if g == 3 else g for g in o['arg']], 'shuffle': False})
                elif o['op'] == 'genes':
                    ops.append({'op': 'genes', 'arg': o['arg'], 'in_place': rng.random() < 0.5})
                else:
                    ops.append({'op': 'pairs', 'arg': o['arg']})
            scns.append({'file': f, 'ops': ops, 'seed': rng.randint(0, 10 ** 6)})
    if ctx.only in (None, 'c2s', 's2c'):
        scns += [_random_scn(rng) for _ in range(150 if quick else 3000)]
    _run_and_decide(ctx, scns)


def _run_and_decide(ctx, scns, selftest=True):
    wd = str(ctx.tmpdir('x08_'))
    with cf.ProcessPoolExecutor(max_workers=8) as ex:
        outs = list(ex.map(_case, [(s, wd) for s in scns], chunksize=8))
    recs = []
    for s, (rec, err) in zip(scns, outs):
        if rec is None:
            raise MachineryError(err)
        ctx.count({'s': s}, nontrivial=bool(s['file']['up'] or s['file']['down'])
                  and any(o['op'] != 'load' or not o.get('naive') for o in s['ops']))
        recs.append(rec)
    vs = validate(ctx, 'MarkerArray_Trace', recs, 'MarkerArray_Trace', cfg='MarkerArray_Trace.cfg')
    rej = 0
    for s, rec, v in zip(scns, recs, vs):
        if not v['accepted']:
            rej += 1
            ev = rec['events'][v['reached'] - 1] if v['reached'] - 1 < len(rec['events']) else None
            ctx.report(f'clause:{v["inv"]}', f'{CL.get(v["inv"], v["inv"])} - file {s["file"]} calls '
                       f'{[(o["op"], o.get("arg"), o.get("naive", False)) for o in s["ops"]]} at call {v["reached"]}: '
                       f'{json.dumps(ev)[:400] if ev else None}', {'scenario': s})
    ctx.part('replayed', histories=len(scns), rejected=rej, calls=sum(len(r['events']) for r in recs),
             refused=sum(1 for r in recs for e in r['events'] if not e['ok']))
    if recs and selftest:
        ctx.sample({'scenario': scns[-1], 'observed': recs[-1]['events'][-1]})
        st = []
        for r in recs:
            if len(st) >= 60:
                break
            e = r['events'][-1]
            if not e['ok'] or not any(e['state']['upP'] + e['state']['dnP']):
                continue
            r2 = copy.deepcopy(r)
            e = r2['events'][-1]
            m = len(st) % 3
            if m == 0:
                j = next(k for k, row in enumerate(e['state']['upP'] + e['state']['dnP']) if row)
                view = 'upP' if j < len(e['state']['upP']) else 'dnP'
                j = j if view == 'upP' else j - len(e['state']['upP'])
                e['state'][view][j] = e['state'][view][j][1:]
            elif m == 1:
                e['state']['genes'] = list(reversed(e['state']['genes'])) if len(e['state']['genes']) > 1 else [77]
            else:
                e['upc'] = [x + 1 for x in e['upc']] or [1]
            st.append(r2)
        if st:
            sv = validate(ctx, 'MarkerArray_Trace', st, 'selftest', cfg='MarkerArray_Trace.cfg', counts_as_impl=False)
            acc = sum(1 for v in sv if v['accepted'])
            ctx.cov['selftest'] = {'corrupted': len(st), 'rejected': len(st) - acc}
            if acc:
                raise MachineryError('self-test: corrupted marker-array histories accepted')


def replay(ctx, path):
    case = json.load(open(pathlib.Path(path) / 'replay.json'))['case']['scenario']
    _run_and_decide(ctx, [case], selftest=False)
