"""C20 - cloud-safe outputs reveal no absolute path of the host.

1. MC   : Sanitize.tla - which embeddings of a path in a word the sanitiser recognises (sound
          for words that start with the path, blind for every other shape) and the flow
          sources -> log -> sinks under the assumption that sources only emit recognisable
          shapes.
2. S->C : the word alphabet (8 shapes x 4 referents) with the predicted outcome is replayed
          into the real sanitize_paths (real files, package files, nested structures).
3. C->S : the assumption is validated on real runs: successful and failing cloud-safe mapping
          runs (each class of invalid input, injected worker failures) under several directory
          layouts / file names; every string that reaches a sink (config and log of the JSON
          and HDF5 outputs, the log file) is scanned by an independent scanner for a token
          that resolves to an existing absolute path.
"""
import json
import os
import pathlib
import random
import re
import shutil

import h5py
import numpy as np

from harness import maptrace, build, sub, pooltrace
from harness.checks.c04 import base_scenario
from harness.tlc import run_tlc, MachineryError

PID = 'C20'
LEAD = '([{<=:,\'"`|;'


def leaks_in(text):
    """independent scanner: tokens of `text` that contain an absolute path whose longest existing
    prefix is at least two components deep (or the whole path exists)."""
    found = []
    for tok in str(text).split():
        for i, ch in enumerate(tok):
            if ch != '/':
                continue
            # a path glued to a word (e.g. after an escaped line break, "file\\n/abs/path") still counts, but
            # must then resolve three components deep (a relative path like a/var/tmp/x must not be flagged)
            glued = i > 0 and tok[i - 1] not in LEAD
            cand = tok[i:]
            cand = re.sub(r'^/+', '/', cand)
            # strip trailing punctuation progressively and test
            while cand and cand != '/':
                parts = [p for p in cand.split('/') if p]
                deepest = 0
                cur = ''
                for p in parts:
                    cur += '/' + p
                    if os.path.exists(cur):
                        deepest += 1
                    else:
                        break
                if (deepest >= 3 if glued else deepest >= 2) or \
                        (not glued and deepest == len(parts) and deepest >= 1 and len(parts) >= 2):
                    found.append(tok)
                    break
                if cand[-1] in ')]}>,;:.\'"`|':
                    cand = cand[:-1]
                elif '\\' in cand:
                    cand = cand[:cand.rindex('\\')]       # text after an escaped character
                else:
                    break
    return found


def scan_outputs(d):
    """returns list of (sink, token)"""
    out = []
    d = pathlib.Path(d)
    # a run whose outputs / scratch space sat directly below a top-level directory: those names are gone by now (moved,
    # deleted), so the scanner is told what they were
    known = []
    if (d / 'toplevel_tag.txt').exists():
        known = [(d / 'toplevel_tag.txt').read_text().strip(), '/tmp/cell_type_mapper_', '/tmp/file_tracker_']

    def walk(sink, obj):
        if isinstance(obj, dict):
            for k, v in obj.items():
                walk(sink, k)
                walk(sink, v)
        elif isinstance(obj, (list, tuple)):
            for v in obj:
                walk(sink, v)
        elif isinstance(obj, str):
            for t in leaks_in(obj):
                out.append((sink, t))
            for kn in known:
                for t in obj.split():
                    if kn in t and (sink, t) not in out:
                        out.append((sink, t))

    jp = d / 'out' / 'res.json'
    if jp.exists():
        js = json.load(open(jp))
        walk('json.config', js.get('config'))
        walk('json.log', js.get('log'))
        walk('json.metadata', js.get('metadata'))
    hp = d / 'out' / 'res.h5'
    if hp.exists():
        with h5py.File(hp, 'r') as f:
            md = json.loads(f['metadata'][()].decode())
        walk('hdf5.config', md.get('config'))
        walk('hdf5.log', md.get('log'))
        walk('hdf5.metadata', md.get('metadata'))
    lp = d / 'out' / 'log.txt'
    if lp.exists():
        walk('logfile', open(lp).read())
    return out


def replay_alphabet(ctx, words):
    from cell_type_mapper.utils.cloud_utils import sanitize_paths
    import cell_type_mapper
    d = ctx.tmpdir('c20_words_')
    real = d / 'some.dir' / 'data_file.h5'
    real.parent.mkdir()
    real.write_text('x')
    pkg = pathlib.Path(cell_type_mapper.__file__).resolve().parent / 'utils' / 'cloud_utils.py'
    deepdir = d
    for i in range(9):
        deepdir = deepdir / f'a_rather_long_directory_name_{i:02d}'
    deepdir.mkdir(parents=True)
    longfile = deepdir / 'data_file.h5'
    longfile.write_text('x')
    assert len(str(longfile)) > 255
    refs = {'file': str(real), 'child': str(real.parent / 'not_there.h5'),
            'deep': str(real.parent / 'missing_1' / 'missing_2' / 'not_there.h5'), 'long': str(longfile),
            'package': str(pkg), 'nowhere': '/zz_no_such_dir_/qq/file.h5',
            'odd_file': str(real.parent) + '//data_file.h5', 'odd_child': str(d) + '/./some.dir//not_there.h5',
            'toplevel': f'/tmp/zz_not_there_{os.getpid()}.h5'}
    assert os.path.isdir('/tmp') and not os.path.exists(refs['toplevel'])
    shapes = {'bare': ['{p}'], 'quoted': ["'{p}'", '"{p}"'], 'trailing': ['{p},', '{p}:', "'{p}',", '{p})'],
              'leading': ['({p}', '[{p}', '<{p}'], 'keyeq': ['key={p}', 'path={p}'],
              'repr': ["PosixPath('{p}')"], 'colon': ['name:{p}', 'file:{p}']}
    bad = 0
    n = 0
    for shape, ref, outcome, leaks in words:
        if shape == 'plain':
            forms, p = ['hello'], None
        else:
            forms, p = shapes[shape], refs[ref]
        for form in forms:
            word = form.format(p=p) if p else form
            for wrap in ('str', 'list', 'dict'):
                msg = f'start {word} end'
                arg = msg if wrap == 'str' else [msg] if wrap == 'list' else {'k': [msg]}
                got = sanitize_paths(arg)
                got = got if wrap == 'str' else got[0] if wrap == 'list' else got['k'][0]
                n += 1
                still = p is not None and p in got
                if outcome == 'kept':
                    ok = (got == msg)
                elif outcome == 'file_name':
                    ok = (not still) and os.path.basename(p) in got
                else:
                    ok = (not still) and 'cell_type_mapper/utils/cloud_utils.py' in got
                ctx.count({'w': [shape, ref, form, wrap]}, nontrivial=shape != 'plain')
                if not ok:
                    bad += 1
                    ctx.report(f'sanitizer:{shape}:{ref}', f'word "{word}" ({shape}/{ref}): spec predicts '
                               f'{outcome}, sanitize_paths returned "{got}"', {'word': word})
    return n, bad


LAYOUTS = ['plain', '/'.join(f'a_rather_long_directory_name_{i:02d}' for i in range(9)), 'with.dots-and_dash',
           'eq=sign', 'nested/deep/er', 'plus+comma,dir', 'br[ack]et', 'par(en)']


def run(ctx):
    quick = ctx.tier == 'quick'
    rng = random.Random(ctx.seed + 20)
    ctx.cov['rule'] = ('cases: (a) every (shape, referent) word of Sanitize.tla x concrete forms x nesting '
                       'replayed into sanitize_paths; (b) one real cloud-safe mapping run per (outcome class x '
                       'directory layout): success, missing query, corrupt query, negative raw, root unusable, '
                       'marker unknown to reference, markers of another taxonomy, injected worker failures, an output '
                       'file name too long for the file system, a statistics file without its sum table, a taken obsm '
                       'key; all '
                       'sink strings scanned. Non-trivial = every run (distinct class x layout).')
    ctx.cov['trusted_base'] = ['TLC 1.8', 'independent scanner harness/checks/c20.py:leaks_in (os.path.exists)']
    ctx.assumptions += ['a token counts as a leak when it contains an absolute path whose existing prefix is '
                        'at least two components deep']
    if ctx.only in (None, 'mc'):
        res = run_tlc('Sanitize', cfg='Sanitize.cfg', timeout=1800)
        ctx.add_tlc('Sanitize', res)
        if not res.ok:
            raise MachineryError(res.error_trace or res.stdout[-1500:])
    if ctx.only in (None, 's2c'):
        res = run_tlc('Sanitize', cfg_text='SPECIFICATION SSpec\nCONSTRAINT Small\nCONSTRAINT EmitAlphabet\n'
                      'CHECK_DEADLOCK FALSE\n', workers=1, timeout=1800)
        ctx.add_tlc('Sanitize_alphabet', res)
        words = sorted(set((t[1], t[2], t[3], t[4]) for t in res.tuples('WORD')))
        n, bad = replay_alphabet(ctx, words)
        ctx.part('s2c', words=len(words), calls=n, disagreements=bad)
        ctx.sample({'alphabet': words[:6]})
    if ctx.only in (None, 'c2s'):
        layouts = LAYOUTS[:4] if quick else LAYOUTS
        classes = ['ok', 'missing_csv_dir', 'missing_query', 'corrupt_query', 'negative_raw', 'root_unusable',
                   'unknown_marker', 'other_taxonomy', 'fault_kill', 'fault_raise', 'ok_csc',
                   'long_csv_name', 'stats_without_sum', 'obsm_taken', 'negative_raw_nolog', 'fault_raise_nolog',
                   'fault_term', 'odd_spelling', 'odd_spelling_fault', 'toplevel', 'toplevel_missing_query', 'toplevel_fault']
        jobs, meta = [], []
        for li, lay in enumerate(layouts):
            for ci, cls in enumerate(classes):
                if quick and (li + ci) % 2 == 1 and cls not in ('ok', 'fault_raise', 'missing_csv_dir', 'long_csv_name',
                                                                'stats_without_sum', 'obsm_taken', 'negative_raw_nolog',
                                                                'fault_raise_nolog', 'odd_spelling', 'toplevel',
                                                                'toplevel_missing_query'):
                    continue
                s = None
                while s is None:
                    s = base_scenario(rng, 3, 2)
                s['cfg']['cloud_safe'] = True
                root = ctx.scratch / f'lay_{li}_{ci}' / lay
                root.mkdir(parents=True)
                plan = None
                if cls in ('negative_raw', 'negative_raw_nolog'):
                    s['cfg']['norm'] = 'raw'
                    s['Q'][0][0] = -2
                elif cls == 'root_unusable':
                    s['markers']['0/0'] = [g for g in range(1, s['G'] + 1) if g not in s['qgenes']][:1]
                elif cls == 'unknown_marker':
                    s['markers']['0/0'] = s['markers']['0/0'] + [13]
                elif cls == 'other_taxonomy':
                    s['markers'] = {'0/0': s['markers']['0/0'], '7/7': [1, 2]}
                    s['markers'].pop('1/1', None)
                elif cls in ('fault_kill', 'fault_raise', 'fault_raise_nolog', 'fault_term', 'odd_spelling_fault', 'toplevel_fault'):
                    pp = root / 'plan.json'
                    json.dump(pooltrace.fault_plan(s, 2, 'mid', 'raise' if cls.endswith('_fault') else cls.split('_')[1]),
                              open(pp, 'w'))
                    plan = str(pp)
                elif cls == 'ok_csc':
                    s['cfg']['enc'] = 'csc'
                elif cls == 'missing_csv_dir':
                    pass      # handled in the runner: CSV path two missing levels below the output dir
                jobs.append({'job': {'scn': s, 'scheme': 'structural', 'plan': plan, 'mode': 'cli', 'keep': True,
                                     'workdir': str(root), 'damage': 'no_log_file' if cls.endswith('_nolog') else
                                     cls[:-6] if cls.endswith('_fault') else cls}})
                meta.append((cls, lay))
        outs = sub.run_jobs(ctx, jobs)
        nleak = 0
        for (cls, lay), o in zip(meta, outs):
            ctx.count({'cls': cls, 'layout': lay}, nontrivial=True)
            expect_ok = cls in ('ok', 'ok_csc', 'odd_spelling', 'toplevel')
            if o['ok'] != expect_ok and cls not in ('other_taxonomy',):
                # not C20's business whether it fails, but record it
                ctx.part('c2s', **{f'unexpected_outcome_{cls}': 1})
            leaks = scan_outputs(o['dir'])
            for sink, tok in leaks[:3]:
                nleak += 1
                ctx.report(f'leak:{sink}:{cls}', f'{sink} of a cloud-safe run ({cls}, layout "{lay}") contains '
                           f'"{tok}"', {'class': cls, 'layout': lay, 'token': tok})
            shutil.rmtree(o['dir'], ignore_errors=True)
        ctx.sample({'run': meta[0], 'ok': outs[0]['ok']})
        ctx.part('c2s', runs=len(jobs), leaks=nleak,
                 failing_runs=sum(1 for o in outs if not o['ok']))


def replay(ctx, path):
    ctx.only = 'c2s'
    run(ctx)
