"""C17 - flattening or dropping a level equals mapping on the reduced taxonomy.

1. MC   : Taxonomy_MC (drop/flatten preserve leaves and ancestors) + MarkerTable_MC with the
          drop / flatten dimensions (reconciliation iterates parents of the reduced tree only).
2. S->C : TLC emits every tree shape with DropLevel(T, l) for every droppable level and
          Flatten(T) (Taxonomy_MC); for each, two real runs with a common seed - (image) the
          stored tree T with drop_level / flatten, (base) a reference whose stored taxonomy is
          the spec's reduced tree - are projected and Relations_Trace decides: bitwise equal on
          all remaining levels, removed levels inferred from the finer assignment.
          Dropping an absent level must change nothing.
"""
import copy
import json
import random

from harness import maptrace, relations
from harness.checks.c10 import _scenarios
from harness.tlc import run_tlc, MachineryError

PID = 'C17'


def safe_markers(rng, scn):
    """every list shares a gene with the query (keeps finding F4 out of the way)"""
    usable = [g for g in scn['qgenes'] if g <= scn['G']]
    for k, v in list(scn['markers'].items()):
        if not set(v) & set(usable):
            scn['markers'][k] = sorted(set(v) | {rng.choice(usable)})


def run(ctx):
    quick = ctx.tier == 'quick'
    rng = random.Random(ctx.seed + 17)
    ctx.cov['rule'] = ('one case = a pair of real runs (tree T with drop_level/flatten vs the '
                       'spec-reduced tree) over tree shapes emitted by TLC, random centroids, marker '
                       'tables, bootstrap settings, common seed; non-trivial = the removed level has '
                       '>1 node or the tree has >2 levels; distinct by canonical JSON of the pair.')
    ctx.cov['trusted_base'] = ['TLC 1.8', 'harness projection']
    if ctx.only in (None, 'mc'):
        res = run_tlc('Taxonomy_MC', cfg_text=(
            'SPECIFICATION Spec\nCONSTANTS MaxLevels = 4 MaxLeaves = 5\nINVARIANT InvAccepted\n'
            'INVARIANT InvSameLeaves\nINVARIANT InvAncestors\nINVARIANT InvDropOrderIrrelevant\n'
            'INVARIANT InvFlattenIsDropAll\nCHECK_DEADLOCK FALSE\n'), timeout=3600)
        ctx.add_tlc('Taxonomy_MC', res)
        if not res.ok:
            raise MachineryError(res.error_trace)
    if ctx.only in (None, 's2c'):
        shapes = _scenarios(ctx, 4, 5)
        shapes = [s for s in shapes if len(s['tree']['hier']) > 1 and len(s['tree']['nodes'][0]) > 1]
        cases = []
        for s in shapes:
            for lev, reduced in s['drops']:
                # the level that becomes the top must not be a single node (finding F10)
                if len(reduced['nodes'][0]) > 1:
                    cases.append(('drop', s['tree'], lev, reduced))
            if len(s['flat']['nodes'][0]) > 1:
                cases.append(('flatten', s['tree'], None, s['flat']))
                # flatten together with a dropped level: still the one-level tree, union of ALL lists
                for lev, reduced in s['drops']:
                    cases.append(('drop+flatten', s['tree'], lev, s['flat']))
            cases.append(('absent', s['tree'], 77, s['tree']))
        ctx.part('s2c', shapes=len(shapes), cases_available=len(cases))
        def _deep(c):
            # a dropped level with a choice parent on a retained level below it
            kind, tj, lev, _ = c
            h = tj['hier']
            return kind == 'drop' and h.index(lev) < len(h) - 2 and any(
                len(ks) > 1 for j in range(h.index(lev) + 1, len(h) - 1) for _, ks in tj['kids'][j])
        if quick:
            deep = [c for c in cases if _deep(c)]
            deeper = [c for c in deep if c[1]['hier'].index(c[2]) >= 1]      # ... and a retained level above it
            cases = rng.sample(cases, 70) + rng.sample(deep, min(15, len(deep))) + rng.sample(deeper, min(15, len(deeper)))
        elif len(cases) > 2500:
            cases = rng.sample(cases, 2500)
        else:
            ctx.cov['exhaustive'] = True
        items, meta = [], []
        n_below = n_below_gp = 0
        for kind, tj, lev, reduced in cases:
            tj = dict(tj)
            tj['cells'] = [[n, []] for n in tj['nodes'][-1]]
            img = maptrace.gen_scenario(rng, tree=tj, ncell=rng.randint(1, 6),
                                        cfg={'drop': None, 'flatten': False},
                                        **({'G': 10} if _deep((kind, tj, lev, reduced)) else {}))
            safe_markers(rng, img)
            hier_ = tj['hier']
            if kind == 'drop' and hier_.index(lev) < len(hier_) - 2 and rng.random() < 0.75:
                # a parent BELOW the dropped level with fewer usable markers than min_markers: its list is topped up
                # from its ancestors in the REDUCED tree (never from the dropped level's node); the dropped node, the
                # retained ancestors and the root each list different genes
                usable = [g for g in img['qgenes'] if g <= img['G']]
                j = rng.randrange(hier_.index(lev) + 1, len(hier_) - 1)
                cands = [n for n, ks in tj['kids'][j] if len(ks) > 1]
                if cands and len(usable) >= 3:
                    n0 = rng.choice(cands)
                    rng.shuffle(usable)
                    img['markers'][f'{hier_[j]}/{n0}'] = [usable[0]]
                    i_l = hier_.index(lev)
                    anc = n0
                    for jj in range(j, i_l, -1):
                        anc = next(p_ for p_, ks in tj['kids'][jj - 1] if anc in ks)
                    img['markers'][f'{lev}/{anc}'] = sorted(usable[1:2 + (len(usable) > 3)])
                    img['markers']['0/0'] = sorted(usable[2:])
                    n_below += 1
                    if i_l >= 1 and len(usable) >= 6:
                        n_below_gp += 1
                        # a retained ancestor above the dropped level completes the list on its own: the root's
                        # (different) genes are not needed
                        gp = next(p_ for p_, ks in tj['kids'][i_l - 1] if anc in ks)
                        img['markers'][f'{lev}/{anc}'] = [usable[1]]
                        img['markers'][f'{hier_[i_l - 1]}/{gp}'] = sorted(usable[2:4])
                        img['markers']['0/0'] = sorted(usable[4:])
                    img['cfg']['minm'] = 3
            base = copy.deepcopy(img)
            red = dict(reduced)
            red['cells'] = [[n, []] for n in red['nodes'][-1]]
            if kind == 'drop':
                img['cfg']['drop'] = lev
                base['tree'] = red
                base['markers'] = {k: v for k, v in base['markers'].items()}
            elif kind in ('flatten', 'drop+flatten'):
                img['cfg']['flatten'] = True
                if kind == 'flatten' and rng.random() < 0.5:
                    # a list stored under a key that is no node of this taxonomy (e.g. from another edition) with
                    # a gene found in no other list: flattening pools EVERY list of the table
                    usable = [g for g in img['qgenes'] if g <= img['G']]
                    g0 = usable[-1]
                    if all(len(v) > 1 or g0 not in v for v in img['markers'].values()):
                        for k in list(img['markers']):
                            img['markers'][k] = [g for g in img['markers'][k] if g != g0]
                        img['markers']['7/7'] = [g0]
                if kind == 'drop+flatten':
                    img['cfg']['drop'] = lev
                    # give the parents of the dropped level a gene that occurs in no other list, so
                    # that leaving their lists out of the union changes the genes used
                    usable = [g for g in img['qgenes'] if g <= img['G']]
                    others = set(g for k, v in img['markers'].items() if not k.startswith(f'{lev}/') for g in v)
                    private = [g for g in usable if g not in others]
                    i = tj['hier'].index(lev)
                    for n in tj['nodes'][i]:
                        if private:
                            img['markers'][f'{lev}/{n}'] = sorted(set(img['markers'].get(f'{lev}/{n}', []))
                                                                 | {private[0]})
                    base = copy.deepcopy(img)
                    base['cfg']['drop'] = None
                    base['cfg']['flatten'] = False
                base['tree'] = red
                allg = sorted(set(g for v in img['markers'].values() for g in v))
                base['markers'] = {'0/0': allg}
            else:
                img['cfg']['drop_name'] = rng.choice(['no_such_level', 'prefix-of-top', 'top-with-blank', 'blank-top'])
            scheme = rng.choice(['structural', 'reversed', 'shared', 'prefix', 'longtop'])
            items.append((img, scheme, {}))
            items.append((base, scheme, {}))
            meta.append((kind, lev))
        # absent level: materialise passes cfg['drop']; emulate an absent name via a level id
        for it in items:
            if it[0]['cfg'].get('drop_name'):
                it[0]['cfg']['drop'] = None  # build.materialise passes the literal name
        rs = relations.run_many(ctx, items)
        pairs = []
        for i, (kind, lev) in enumerate(meta):
            a, b = rs[2 * i], rs[2 * i + 1]
            ctx.count({'img': a['scn'], 'kind': kind}, nontrivial=True)
            if not a['ok'] or not b['ok']:
                # both must succeed: all lists are usable, tops have >1 node
                ctx.report(f'pair:{kind}:run-failed', f'image ok={a["ok"]} ({a["error"]}) '
                           f'base ok={b["ok"]} ({b["error"]})', {'img': a['scn'], 'base': b['scn']})
                continue
            T = a['scn']['tree']
            hier = T['hier']
            if kind == 'drop':
                finer = hier[hier.index(lev) + 1]
                levels = [l for l in hier if l != lev]
                inferred = [[lev, finer]]
            elif kind in ('flatten', 'drop+flatten'):
                levels = [hier[-1]]
                inferred = []
                for j in range(len(hier) - 2, -1, -1):
                    inferred.append([hier[j], hier[j + 1]])
            else:
                levels = hier
                inferred = []
            pairs.append({'rel': 'order_bits', 'tree': T, 'base': b['recs'], 'image': a['recs'],
                          'levels': levels, 'inferred': inferred, 'kind': kind,
                          'img': a['scn'], 'basescn': b['scn'], 'scheme': a['scheme']})
        rej = 0
        for p, v in relations.decide(ctx, pairs, 'Relations_Trace_c17'):
            if not v['accepted']:
                rej += 1
                ctx.report(f'clause:{v["inv"]}:{p["kind"]}', f'{relations.CL.get(v["inv"])} ({p["kind"]})',
                           {'img': p['img'], 'base': p['basescn'], 'scheme': p['scheme']})
        if pairs:
            p = pairs[0]
            ctx.sample({'kind': p['kind'], 'tree': p['tree'], 'levels': p['levels'],
                        'inferred': p['inferred'], 'image_first': p['image'][:1], 'base_first': p['base'][:1]})
        ctx.part('pairs', compared=len(pairs), rejected=rej, short_parent_below_drop=n_below,
                 short_parent_below_drop_with_retained_ancestor=n_below_gp,
                 kinds={k: sum(1 for p in pairs if p['kind'] == k) for k in ('drop', 'flatten', 'drop+flatten', 'absent')})


def replay(ctx, path):
    import pathlib
    case = json.load(open(pathlib.Path(path) / 'replay.json'))['case']
    rs = relations.run_many(ctx, [(case['img'], case.get('scheme', 'structural'), {}),
                                  (case['base'], case.get('scheme', 'structural'), {})], jobs=2)
    ctx.sample({'image_ok': rs[0]['ok'], 'base_ok': rs[1]['ok']})
    ctx.count(case)
    if rs[0]['ok'] and rs[1]['ok']:
        same = [r['lv'] for r in rs[0]['recs']] == [r['lv'] for r in rs[1]['recs']]
        print('records identical on all levels present in both:', same)
