"""X01 (extension suite, not one of the 20 listed statements) - results written back into the
query file (obsm_key / obsm_clobber).

1. MC   : QueryStore_MC - every history of three runs over (no key | key a | key b) x clobber on a file
          that already holds a foreign obsm entry: the immutable part never changes, every key holds the
          result of the last successful run that named it, nothing is lost, a run fails exactly when it
          would overwrite without permission.
2. S->C : every history of the model is replayed into real mapping runs on ONE query file (runs differ
          by seed); after every run the file is read back: QueryStore_Trace decides outcome (ok / error),
          keys present, immutable part (X, obs, var, uns) and foreign entry unchanged, and - via the obsm
          view added to Outputs.tla - that the table under every key is the JSON result of the run the
          model says owns it (labels, names, aliases, votes, runners-up, flags; floats to 1e-8).
"""
import concurrent.futures as cf
import copy
import hashlib
import json
import os
import pathlib
import random
import re
import shutil
import tempfile
import traceback
import warnings

import numpy as np

from harness import build, maptrace, taxo
from harness.relations import _q
from harness.tlc import run_tlc, MachineryError
from harness.traces import validate

PID = 'X01'
CL = {2101: 'the run succeeded / failed against the rule (fails only when the key is taken and clobber is off)',
      2102: 'keys present in obsm differ from the model', 2103: 'X / obs / var / uns of the query file changed',
      2104: 'an obsm entry that no run named changed', 2107: 'rows of the stored table are not the cells in obs order',
      2108: 'number of rows differs from the number of cells',
      1540: 'stored table lacks a level', 1541: 'levels out of order', 1542: 'label differs from the JSON assignment',
      1543: 'name is not the label translated through the name table', 1544: 'alias wrong / present off the leaf level',
      1545: 'votes / directly-assigned flag differ from JSON', 1546: 'runner-up list differs from JSON',
      1547: 'a float field differs from JSON', 2199: 'harness could not read the stored table'}
B = 7


def base_digest(path):
    import h5py
    h = hashlib.sha256()
    f_dig = hashlib.sha256()

    def visit(name, obj):
        if isinstance(obj, h5py.Dataset):
            tgt = f_dig if name.startswith('obsm/umap') else (None if name.startswith('obsm') else h)
            if tgt is None:
                return
            tgt.update(name.encode())
            v = obj[()]
            tgt.update(v if isinstance(v, bytes) else repr(np.asarray(v).tolist()).encode()
                       if np.asarray(v).dtype == object else np.asarray(v).tobytes())
    with h5py.File(path, 'r') as f:
        f.visititems(visit)
        top = sorted(k for k in f.keys())
        h.update(json.dumps(top).encode())
    return h.hexdigest(), f_dig.hexdigest()


def json_entries(rec, hier, nm):
    out = []
    for l in hier:
        v = rec[nm.level(l)]
        ru = []
        if 'runner_up_assignment' in v:
            for a, p in zip(v['runner_up_assignment'], v['runner_up_probability']):
                ru.append([nm.inv_node(l, a), int(round(float(p) * B))])
        out.append({'lev': l, 'a': nm.inv_node(l, v['assignment']), 'k': int(round(v['bootstrapping_probability'] * B)),
                    'ru': ru, 'direct': bool(v['directly_assigned']),
                    'f': [_q(v['avg_correlation']), _q(v['aggregate_probability'])]})
    return out


def df_rows(df, hier, nm, named):
    rl = (lambda l: f'H{l}') if named else (lambda l: nm.level(l))
    rows = []
    for cid, r in df.iterrows():
        ent = []
        for l in hier:
            L = rl(l)

            def inv(x, lev=l):
                try:
                    return nm.inv_node(lev, str(x))
                except (KeyError, ValueError):
                    return -7
            label = inv(r[f'{L}_label'])
            name = str(r[f'{L}_name'])
            if named:
                mm = re.fullmatch(rf'nm{l} "(.*)", x', name, flags=re.S)
                nid = 1000 + inv(mm.group(1)) if mm else -7
            else:
                nid = inv(name)
            alias = -1
            if f'{L}_alias' in df.columns:
                al = str(r[f'{L}_alias'])
                if l != hier[-1]:
                    alias = -7
                elif named:
                    mm = re.fullmatch(rf'a{l}(\d+)', al)
                    m0 = re.fullmatch(r'\d+', al)             # numeric aliases are counted from 0
                    alias = 2000 + int(mm.group(1)) if mm else 2001 + int(al) if m0 else -7
                else:
                    alias = inv(al)
            ru = []
            i = 0
            while f'{L}_runner_up_assignment_{i}' in df.columns:
                a = r[f'{L}_runner_up_assignment_{i}']
                if a is not None and a == a:           # not NaN
                    ru.append([inv(a), int(round(float(r[f'{L}_runner_up_probability_{i}']) * B))])
                i += 1
            ent.append({'lev': l, 'label': label, 'name': nid, 'alias': alias,
                        'k': int(round(float(r[f'{L}_bootstrapping_probability']) * B)),
                        'direct': bool(r[f'{L}_directly_assigned']), 'ru': ru,
                        'f': [_q(r[f'{L}_avg_correlation']), _q(r[f'{L}_aggregate_probability'])]})
        rows.append(ent)
    return rows


def _transcribe(d, i, conf, q, cells_in_file, hier, nm, named):
    """cli/transcribe_to_obs.py on the result of run i: a NEW file whose obs table carries the result"""
    import anndata
    import pandas as pd
    from harness import argshim
    argshim.install()
    from cell_type_mapper.cli.transcribe_to_obs import TranscribeToObsRunner
    tr = {'done': True, 'ok': True, 'ids_ok': False, 'rows': [], 'rest_same': False, 'again_refused': False,
          'again_clobber_ok': False, 'dup_refused': False}
    newp = d / f'transcribed_{i}.h5ad'
    args = {'result_path': conf['extended_result_path'], 'h5ad_path': q, 'new_h5ad_path': str(newp)}
    before = base_digest(q)
    try:
        with warnings.catch_warnings():
            warnings.simplefilter('ignore')
            TranscribeToObsRunner(args=[], input_data=dict(args)).run()
            a0 = anndata.read_h5ad(q)
            a1 = anndata.read_h5ad(newp)
    except Exception as e:                                # noqa
        tr['ok'] = False
        tr['error'] = f'{type(e).__name__}: {str(e)[:200]}'
        return tr
    cdm = [c for c in a1.obs.columns if c.startswith('CDM_')]
    df = a1.obs[cdm].rename(columns={c: c[4:] for c in cdm})
    tr['ids_ok'] = list(a1.obs.index) == cells_in_file
    tr['rows'] = df_rows(df, hier, nm, named)

    def same_x(x, y):
        x = x.toarray() if hasattr(x, 'toarray') else np.asarray(x)
        y = y.toarray() if hasattr(y, 'toarray') else np.asarray(y)
        return x.shape == y.shape and bool(np.array_equal(x, y))
    old_cols = [c for c in a1.obs.columns if not c.startswith('CDM_')]
    tr['rest_same'] = bool(
        base_digest(q) == before and same_x(a0.X, a1.X) and a0.var.equals(a1.var) and old_cols == list(a0.obs.columns)
        and a0.obs.equals(a1.obs[old_cols]) and sorted(a0.obsm.keys()) == sorted(a1.obsm.keys())
        and all((a0.obsm[k].equals(a1.obsm[k]) if isinstance(a0.obsm[k], pd.DataFrame) else same_x(a0.obsm[k], a1.obsm[k]))
                for k in a0.obsm.keys())
        and json.dumps(_jsonable(dict(a0.uns)), sort_keys=True) == json.dumps(_jsonable(dict(a1.uns)), sort_keys=True))
    # the output exists now: a second transcription is refused unless clobber is set
    try:
        TranscribeToObsRunner(args=[], input_data=dict(args))
    except Exception as e:                                # noqa
        tr['again_refused'] = 'already exists' in str(e)
    try:
        with warnings.catch_warnings():
            warnings.simplefilter('ignore')
            TranscribeToObsRunner(args=[], input_data=dict(args, clobber=True)).run()
        tr['again_clobber_ok'] = True
    except Exception:                                     # noqa
        pass
    # a file that already carries the columns is refused
    try:
        with warnings.catch_warnings():
            warnings.simplefilter('ignore')
            TranscribeToObsRunner(args=[], input_data=dict(args, h5ad_path=str(newp),
                                                           new_h5ad_path=str(d / f'transcribed_twice_{i}.h5ad'))).run()
    except RuntimeError as e:
        tr['dup_refused'] = 'already contains' in str(e)
    except Exception:                                     # noqa
        pass
    return tr


def _jsonable(x):
    if isinstance(x, dict):
        return {str(k): _jsonable(v) for k, v in x.items()}
    if isinstance(x, (list, tuple)):
        return [_jsonable(v) for v in x]
    if isinstance(x, np.ndarray):
        return x.tolist()
    if isinstance(x, (np.integer, np.floating, np.bool_)):
        return x.item()
    return x if isinstance(x, (str, int, float, bool)) or x is None else str(x)


def _case(args):
    hist, seed, wd = args
    import anndata
    import h5py
    rng = random.Random(seed)
    d = pathlib.Path(tempfile.mkdtemp(dir=wd))
    try:
        scheme = ['structural', 'reversed', 'shared', 'quoted'][seed % 4]
        named = seed % 2 == 0
        for _ in range(50):
            scn = maptrace.gen_scenario(rng, max_levels=3, max_leaves=5, min_leaves=2, G=6, ncell=rng.randint(6, 12),
                                        cfg={'B': B, 'fnum': 5, 'fden': 10, 'K': 2, 'flatten': False, 'drop': None,
                                             'minm': 1, 'enc': rng.choice(['dense', 'csr', 'csc'])})
            tj = scn['tree']
            if len(tj['nodes'][0]) > 1:
                break
        else:
            return 'skipped', None, []                  # single top node: finding F10 (C01)
        nm = taxo.Naming(scheme)
        hier = tj['hier']
        conf0 = build.materialise(scn, d, scheme, named)
        q = conf0['query_path']
        a = anndata.read_h5ad(q)
        a.obsm['umap'] = np.arange(2 * a.n_obs, dtype=float).reshape((a.n_obs, 2)) / 3.0
        a.uns['note'] = 'keep me'
        a.write_h5ad(q)
        cells_in_file = list(a.obs.index)
        b0, f0 = base_digest(q)
        events = []
        issues = []
        for i, st in enumerate(hist['steps']):
            conf = copy.deepcopy(conf0)
            conf['type_assignment']['rng_seed'] = 1000 * seed + i
            conf['type_assignment']['n_runners_up'] = (seed + i) % 3       # runs differ in seed and list length
            conf['obsm_key'] = None if st['key'] == 'none' else st['key']
            conf['obsm_clobber'] = bool(st['clobber'])
            for k in ('extended_result_path', 'csv_result_path', 'hdf5_result_path', 'log_path'):
                conf[k] = conf[k].replace('/out/', f'/out/s{i}_')
            r = build.run_mapping(conf)
            ev = {'key': st['key'], 'clobber': bool(st['clobber']), 'ok': bool(r['ok']), 'json': []}
            if r['ok']:
                js = json.load(open(conf['extended_result_path']))['results']
                ev['json'] = [json_entries(x, hier, nm) for x in js]
            b1, f1 = base_digest(q)
            ev['base_same'] = b1 == b0
            ev['foreign_same'] = f1 == f0
            try:
                a2 = anndata.read_h5ad(q)
                ev['keys'] = sorted(a2.obsm.keys())
                views = []
                for k in ev['keys']:
                    if k == 'umap':
                        continue
                    df = a2.obsm[k]
                    ids_ok = list(df.index) == cells_in_file and list(a2.obs.index) == cells_in_file
                    views.append([k, ids_ok, df_rows(df, hier, nm, named)])
                ev['views'] = views
            except Exception:
                issues.append((2199, traceback.format_exc()[-500:]))
                ev['keys'], ev['views'] = [], []
            ev['error'] = r['error']
            ev['tr'] = {'done': False, 'ok': False, 'ids_ok': True, 'rows': [], 'rest_same': True, 'again_refused': True,
                        'again_clobber_ok': True, 'dup_refused': True}
            if r['ok']:
                ev['tr'] = _transcribe(d, i, conf, q, cells_in_file, hier, nm, named)
            events.append(ev)
        distinct = len(set(json.dumps(e['json']) for e in events if e['ok'])) == sum(1 for e in events if e['ok'])
        rec = {'hier': hier, 'leaf': hier[-1], 'named': named, 'foreign': ['umap'], 'events': events,
               'runs_distinguishable': distinct}
        return 'done', rec, issues
    except MachineryError:
        raise
    except Exception:
        return 'harness', None, [(-1, traceback.format_exc())]
    finally:
        shutil.rmtree(d, ignore_errors=True)


def run(ctx):
    quick = ctx.tier == 'quick'
    rng = random.Random(ctx.seed + 101)
    ctx.cov['rule'] = ('one case = one history of three mapping runs (no key / key a / key b x clobber) on one query '
                       'file, every history of QueryStore_MC; non-trivial = at least one run writes; distinct by '
                       'history x scenario seed.')
    ctx.cov['trusted_base'] = ['TLC 1.8', 'anndata reader for the stored tables']
    res = run_tlc('QueryStore_MC', cfg='QueryStore_MC.cfg', workers=1, timeout=1800)
    ctx.add_tlc('QueryStore_MC', res)
    if not res.ok:
        raise MachineryError(res.error_trace or res.stdout[-1500:])
    hists = [json.loads(t[1]) for t in res.tuples('SCN')]
    hists = [h for h in {json.dumps(h, sort_keys=True): h for h in hists}.values()]
    if quick:
        hists = rng.sample(hists, 48)
    wd = str(ctx.tmpdir('x01_'))
    jobs = [(h, ctx.seed * 1000 + i, wd) for i, h in enumerate(hists)]
    with cf.ProcessPoolExecutor(max_workers=10) as ex:
        outs = list(ex.map(_case, jobs, chunksize=1))
    recs, owners = [], []
    nskip = 0
    for (h, sd, _), (st, rec, issues) in zip(jobs, outs):
        if st == 'harness':
            raise MachineryError(issues[0][1])
        if st == 'skipped':
            nskip += 1
            continue
        ctx.count({'h': h, 'seed': sd}, nontrivial=any(s['key'] != 'none' for s in h['steps']))
        for code, msg in issues:
            ctx.report(f'clause:{code}', f'{CL.get(code, code)}: {msg}', {'history': h, 'seed': sd})
        recs.append(rec)
        owners.append((h, sd))
    vs = validate(ctx, 'QueryStore_Trace', recs, 'QueryStore_Trace')
    rej = 0
    for (h, sd), rec, v in zip(owners, recs, vs):
        if not v['accepted']:
            rej += 1
            ev = rec['events'][v['reached'] - 1] if v['reached'] - 1 < len(rec['events']) else {}
            ctx.report(f'clause:{v["inv"]}', f'{CL.get(v["inv"], v["inv"])} - run {v["reached"]} of history '
                       f'{[(s["key"], s["clobber"]) for s in h["steps"]]}: ok={ev.get("ok")} keys={ev.get("keys")} '
                       f'error={ev.get("error")}', {'history': h, 'seed': sd})
    ctx.sample({'history': owners[0][0], 'observed': [{k: e[k] for k in ('key', 'clobber', 'ok', 'keys')}
                                                       for e in recs[0]['events']]})
    ctx.part('s2c', histories=len(recs), skipped_single_top=nskip, rejected=rej,
             runs_distinguishable=sum(1 for r in recs if r['runs_distinguishable']))
    # binding self-test
    st = []
    for r in recs[:30]:
        for i, e in enumerate(r['events']):
            if e['views'] and e['views'][0][2]:
                r2 = copy.deepcopy(r)
                r2['events'][i]['views'][0][2][0][0]['k'] += 1
                st.append(r2)
                r3 = copy.deepcopy(r)
                r3['events'][i]['base_same'] = False
                st.append(r3)
                break
    if st:
        sv = validate(ctx, 'QueryStore_Trace', st, 'selftest', counts_as_impl=False)
        acc = sum(1 for v in sv if v['accepted'])
        ctx.cov['selftest'] = {'corrupted': len(st), 'rejected': len(st) - acc}
        if acc:
            raise MachineryError('self-test: corrupted store traces accepted')
    if not quick:
        ctx.cov['exhaustive'] = True


def replay(ctx, path):
    case = json.load(open(pathlib.Path(path) / 'replay.json'))['case']
    wd = str(ctx.tmpdir('x01_'))
    st, rec, issues = _case((case['history'], case['seed'], wd))
    for code, msg in issues:
        ctx.report(f'clause:{code}', msg, case)
    if rec:
        v = validate(ctx, 'QueryStore_Trace', [rec], 'replay')[0]
        if not v['accepted']:
            ctx.report(f'clause:{v["inv"]}', CL.get(v['inv']), case)
    ctx.count(case)
