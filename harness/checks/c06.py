"""C06 - a cell's mapping depends only on its own expression vector (bootstrap factor 1).

1. MC   : MapRun_MC - the batched election (row-index sets per parent, write-back by index)
          never mixes cells: clause 112 / PathInv for every chunking (shared with C01).
2. S->C : transformations of a base query - every permutation of the rows, every subset,
          duplication of a row under a new id, added foreign cells, chunk sizes 1..n, 1..3
          workers - are run for real; Relations_Trace joins base and image on the cell id:
          discrete fields equal, floats within 1e-8.  Cells whose two best correlations at a
          visited node are closer than 1e-9 are reported as undetermined, not asserted.
"""
import copy
import itertools
import json
import random

from harness import maptrace, relations
from harness.checks.c01 import mc_cfg
from harness.checks.c17 import safe_markers
from harness.tlc import run_tlc, MachineryError

PID = 'C06'


def transforms(rng, base, quick):
    n = len(base['cells'])
    out = []
    perms = list(itertools.permutations(range(n))) if n <= (4 if quick else 5) else []
    if quick and len(perms) > 6:
        perms = rng.sample(perms, 6)
    for p in perms:
        out.append(('perm', list(p)))
    for k in range(1, n):
        for sub in itertools.combinations(range(n), k):
            out.append(('subset', list(sub)))
    if quick and len(out) > 14:
        out = rng.sample(out, 14)
    out.append(('dup', rng.randrange(n)))
    out.append(('foreign', rng.randint(1, 4)))
    if base['cfg'].get('norm') != 'raw':
        out.append(('foreign_nan', 1))
    for cs in range(1, n + 2):
        out.append(('chunk', cs))
    return out


def apply(rng, base, t):
    s = copy.deepcopy(base)
    kind, arg = t
    keys = [k for k in ('Q', 'Qf') if k in base]
    if kind in ('perm', 'subset'):
        for k in keys:
            s[k] = [base[k][i] for i in arg]
        s['cells'] = [base['cells'][i] for i in arg]
        ids = s['cells']
    elif kind == 'dup':
        for k in keys:
            s[k] = base[k] + [base[k][arg]]
        s['cells'] = base['cells'] + [99]
        ids = base['cells']
    elif kind == 'foreign':
        hi = 40 if base['cfg'].get('norm') == 'raw' else 4
        extra = [[rng.randint(0, hi) for _ in base['qgenes']] for _ in range(arg)]
        pos = rng.randint(0, len(base['cells']))
        for k in keys:
            s[k] = base[k][:pos] + [[float(v) for v in row] for row in extra] + base[k][pos:]
        s['cells'] = base['cells'][:pos] + [90 + i for i in range(arg)] + base['cells'][pos:]
        ids = base['cells']
    elif kind == 'foreign_nan':
        # a foreign cell with missing values (NaN) next to the cells of the base query
        Qf = [[float(v) for v in row] for row in base.get('Qf', base['Q'])]
        bad = [float(rng.randint(0, 4)) for _ in base['qgenes']]
        for j in rng.sample(range(len(bad)), max(1, len(bad) // 2)):
            bad[j] = float('nan')
        pos = rng.randint(0, len(base['cells']))
        s['Qf'] = Qf[:pos] + [bad] + Qf[pos:]
        s['Q'] = base['Q'][:pos] + [[0 for _ in base['qgenes']]] + base['Q'][pos:]
        s['cells'] = base['cells'][:pos] + [97] + base['cells'][pos:]
        ids = base['cells']
        s['cfg']['chunk'] = len(s['cells'])          # all cells in one batch
        s['cfg']['P'] = 1
        s['cfg']['enc'] = 'dense'
        return s, ids
    else:
        s['cfg']['chunk'] = arg
        s['cfg']['P'] = rng.randint(1, 3)
        ids = base['cells']
    if kind != 'chunk':
        s['cfg']['chunk'] = rng.randint(1, 5)
        s['cfg']['P'] = rng.randint(1, 3)
    s['cfg']['enc'] = rng.choice(['dense', 'csr'])
    return s, ids


def run(ctx):
    quick = ctx.tier == 'quick'
    rng = random.Random(ctx.seed + 6)
    ctx.cov['rule'] = ('one case = (base query, transformation) run for real and joined on cell id; '
                       'transformations: all row permutations (n<=4 quick / 5 thorough), all subsets, '
                       'duplication, foreign cells, every chunk size, 1-3 workers; factor 1. '
                       'Non-trivial = image differs from base in rows or chunking; distinct by JSON.')
    ctx.cov['trusted_base'] = ['TLC 1.8', 'harness projection; float Pearson for the near-tie rule']
    ctx.assumptions += ['cells whose best two correlations differ by < 1e-9 at a visited node are '
                        'counted as undetermined and not asserted (rounding may order them either way)']
    if ctx.only in (None, 'mc'):
        dims = (3, 3, 3, 3, 2, 2, 1) if quick else (3, 4, 3, 3, 2, 2, 1)
        res = run_tlc('MapRun_MC', cfg_text=mc_cfg(*dims), timeout=7200)
        ctx.add_tlc('MapRun_MC', res)
        if not res.ok:
            raise MachineryError(res.error_trace)
    if ctx.only in (None, 's2c'):
        nbase = 12 if quick else 90
        items, meta = [], []
        for b in range(nbase):
            base = maptrace.gen_scenario(rng, max_levels=3, max_leaves=6, min_leaves=2,
                                         G=(10 if b % 3 == 2 else rng.choice([5, 10])), vmax=9,
                                         ncell=rng.randint(2, 4 if quick else 5),
                                         cfg={'fnum': 1, 'fden': 1, 'drop': None, 'flatten': False})
            if b % 4 == 3:
                # few leaves, many cells: several cells share an assignment (levels removed below)
                for _ in range(50):
                    base = maptrace.gen_scenario(rng, max_levels=3, max_leaves=3, min_leaves=2, G=10, vmax=9, ncell=8,
                                                 cfg={'fnum': 1, 'fden': 1, 'drop': None, 'flatten': False, 'K': 2})
                    if len(base['tree']['hier']) >= 2 and len(base['tree']['nodes'][0]) > 1:
                        break
            if len(base['tree']['nodes'][0]) == 1:
                base['tree'] = maptrace.random_tree(rng, 1, 5, 2)
                base['means'] = {str(l): [rng.randint(0, 9) for _ in range(base['G'])]
                                 for l in base['tree']['nodes'][-1]}
                base['markers'] = {'0/0': base['markers']['0/0']}
            # make two cells identical: "cells with identical vectors receive identical results"
            if len(base['Q']) > 2:
                base['Q'][1] = list(base['Q'][0])
            safe_markers(rng, base)
            if b % 3 == 0 and len(base['Q']) > 2:
                base['Q'][2] = [0] * len(base['qgenes'])        # a cell that is constant on every marker set
            if b % 3 == 0:
                # a root marker that no reference profile expresses and only the first cell does: it still counts in every
                # other cell's correlation, whoever shares the batch with it
                cand = [g for g in base['markers']['0/0'] if g in base['qgenes'] and g <= base['G']]
                if len(cand) >= 3:
                    g0 = rng.choice(cand)
                    for lf in base['means']:
                        base['means'][lf][g0 - 1] = 0
                    col = base['qgenes'].index(g0)
                    for r, row in enumerate(base['Q']):
                        row[col] = 7 if r == 0 or (r == 1 and len(base['Q']) > 2) else 0
            mode = b % 3
            if mode == 2 and len(base['cells']) < 4:
                extra = 4 - len(base['cells'])
                base['cells'] = base['cells'] + [70 + i for i in range(extra)]
                base['Q'] = base['Q'] + [[rng.randint(0, 9) for _ in base['qgenes']] for _ in range(extra)]
            if mode == 1:
                # raw counts: every chunk must be normalised (not only the first one)
                base['cfg']['norm'] = 'raw'
                base['Q'] = [[rng.randint(0, 40) for _ in base['qgenes']] for _ in base['cells']]
                if len(base['Q']) > 2:
                    base['Q'][1] = list(base['Q'][0])
                if b % 6 == 1:
                    # cells without a single count, in the middle and at the end: their row of the normalised chunk is
                    # determined by the cell alone, whatever chunk it falls into
                    base['Q'][1] = list(base['Q'][0])
                    pos = rng.randint(2, len(base['cells']))
                    base['cells'] = base['cells'][:pos] + [60] + base['cells'][pos:] + [61]
                    base['Q'] = base['Q'][:pos] + [[0] * len(base['qgenes'])] + base['Q'][pos:] + [[0] * len(base['qgenes'])]
            elif mode == 2:
                # non-integer profiles incl. a nearly constant cell next to high-variance ones
                usable = [g for g in base['qgenes'] if g <= base['G']]
                base['markers']['0/0'] = sorted(set(base['markers']['0/0']) | set(usable[:5]))
                Qf = [[v + rng.random() * 1e-3 for v in row] for row in base['Q']]
                Qf[0] = [5.0 + 1e-9 * rng.randint(0, 9) for _ in base['qgenes']]
                if len(Qf) > 2:
                    Qf[1] = list(Qf[0])
                Qf[-1] = [float(rng.choice([0, 40])) for _ in base['qgenes']]
                if len(Qf) > 3:
                    # flat to within 1e-17 around 1e-6, but not constant
                    Qf[2] = [1e-6 + 1e-17 * rng.randint(0, 9) for _ in base['qgenes']]
                base['Qf'] = Qf
                base['cfg']['chunk'] = 10        # base: all cells in one batch
                base['cfg']['P'] = 1
            if b % 4 == 3 and len(base['tree']['hier']) >= 2:
                # removed levels are inferred per cell from its own finer assignment
                if b % 8 == 3:
                    base['cfg']['flatten'] = True
                else:
                    base['cfg']['drop'] = rng.choice(base['tree']['hier'][:-1])
                if len(base['tree']['nodes'][0]) == 1 and base['cfg'].get('drop') == base['tree']['hier'][0]:
                    pass
            scheme = rng.choice(['structural', 'reversed', 'shared'])
            items.append((base, scheme, {'want_trace': True}))
            meta.append(('base', b, None, None))
            for t in transforms(rng, base, quick):
                img, ids = apply(rng, base, t)
                items.append((img, scheme, {}))
                meta.append(('img', b, t, ids))
        rs = relations.run_many(ctx, items)
        pairs = []
        cur = None
        und_total = 0
        for r, (kind, b, t, ids) in zip(rs, meta):
            if kind == 'base':
                cur = r
                und = set()
                if r['ok']:
                    import numpy as np
                    sc = r['scn']
                    Qm = np.array(sc.get('Qf', sc['Q']), dtype=float)
                    if sc['cfg'].get('norm') == 'raw':
                        den = np.where(Qm.sum(axis=1) > 0, Qm.sum(axis=1), 1.0)
                        Qm = np.log2(1.0 + 1e6 * Qm / den[:, None])
                    und = relations.undetermined_cells(sc, r['trace'], Qfloat=Qm.tolist())
                # identical vectors inside the base run
                if r['ok'] and len(r['scn']['Q']) > 2:
                    c0, c1 = r['scn']['cells'][0], r['scn']['cells'][1]
                    if c0 not in und:
                        twin = copy.deepcopy([x for x in r['recs'] if x['id'] == c1])
                        twin[0]['id'] = c0
                        pairs.append({'rel': 'join_close', 'tree': r['scn']['tree'],
                                      'base': [x for x in r['recs'] if x['id'] == c0],
                                      'image': twin,
                                      'levels': r['scn']['tree']['hier'], 'ids': [c0],
                                      't': ('identical', None), 'b': r['scn'], 'i': r['scn'],
                                      'scheme': r['scheme']})
                continue
            ctx.count({'base': cur['scn'], 't': t}, nontrivial=True)
            if not cur['ok'] or not r['ok']:
                ctx.report('pair:run-failed', f'base ok={cur["ok"]} ({cur["error"]}) image ok={r["ok"]} '
                           f'({r["error"]}) transformation {t}', {'base': cur['scn'], 'img': r['scn']})
                continue
            keep = [c for c in ids if c not in und]
            und_total += len(ids) - len(keep)
            image = r['recs']
            # a cell left open by ties still has a determined correlation at the top level of the run: with
            # factor 1 every iteration sees the same genes, so whoever wins does so with the same best value
            skipped = [c for c in ids if c in und]
            if skipped and not cur['scn']['cfg'].get('flatten') and cur['scn']['cfg'].get('drop') is None:
                def top_only(recs):
                    out_ = []
                    for x in recs:
                        if x['id'] in skipped and x['lv']:
                            t0 = x['lv'][0]
                            out_.append({'id': x['id'], 'lv': [{'lev': t0['lev'], 'a': 0, 'k': 0, 'ru': [], 'direct': True,
                                                                'f': [], 'q': [t0['q'][0]]}]})
                    return out_
                pairs.append({'rel': 'join_close', 'tree': cur['scn']['tree'], 'base': top_only(cur['recs']),
                              'image': top_only(image), 'levels': cur['scn']['tree']['hier'][:1], 'ids': skipped,
                              't': (t[0] + ':top-correlation-of-tied-cells', t[1]), 'b': cur['scn'], 'i': r['scn'],
                              'scheme': r['scheme']})
            if t[0] == 'dup':
                # the duplicate (id 99) must equal its original
                orig = cur['scn']['cells'][t[1]]
                if orig not in und:
                    d = copy.deepcopy([x for x in image if x['id'] == 99])
                    d[0]['id'] = orig
                    pairs.append({'rel': 'join_close', 'tree': cur['scn']['tree'],
                                  'base': [x for x in cur['recs'] if x['id'] == orig], 'image': d,
                                  'levels': cur['scn']['tree']['hier'], 'ids': [orig], 't': ('dup-copy', t[1]),
                                  'b': cur['scn'], 'i': r['scn'], 'scheme': r['scheme']})
            pairs.append({'rel': 'join_close', 'tree': cur['scn']['tree'], 'base': cur['recs'],
                          'image': image, 'levels': cur['scn']['tree']['hier'], 'ids': keep, 't': t,
                          'b': cur['scn'], 'i': r['scn'], 'scheme': r['scheme']})
        rej = 0
        for p, v in relations.decide(ctx, pairs, 'Relations_Trace_c06'):
            if not v['accepted']:
                rej += 1
                ctx.report(f'clause:{v["inv"]}:{p["t"][0]}', f'{relations.CL.get(v["inv"])}; '
                           f'transformation {p["t"]}', {'base': p['b'], 'img': p['i'], 'scheme': p['scheme']})
        if pairs:
            p = pairs[-1]
            ctx.sample({'transformation': p['t'], 'ids': p['ids'], 'base_first': p['base'][:1],
                        'image_first': p['image'][:1]})
        ctx.part('pairs', compared=len(pairs), rejected=rej, undetermined_cells=und_total, bases=nbase)
    if ctx.only in (None, 'sparse'):
        # 30-60 cells stored sparsely (CSR with cells without any count in the middle of a batch; CSC converted
        # in several blocks because max_gb is tiny) against the same cells reordered / thinned out / in other batches
        items, meta = [], []
        for b in range(4 if quick else 40):
            while True:
                t_ = maptrace.random_tree(rng, 2, 6, 3)
                if len(t_['nodes'][0]) > 1:
                    break
            n = rng.randint(30, 60)
            enc = 'csc' if b % 2 else 'csr'
            base = maptrace.gen_scenario(rng, tree=t_, G=6, vmax=9, ncell=n,
                                         cfg={'fnum': 1, 'fden': 1, 'drop': None, 'flatten': False, 'B': 2,
                                              'K': rng.randint(0, 2), 'chunk': rng.randint(7, n), 'P': rng.randint(1, 3),
                                              'enc': enc, 'minm': 1, 'max_gb': 1e-7 if enc == 'csc' else 1.0})
            base['qgenes'] = rng.sample(range(1, 7), 6)
            base['markers']['0/0'] = [1, 2, 3, 4, 5, 6]
            safe_markers(rng, base)
            base['Q'] = [[rng.choice([0, 0, 1, 3, 9]) for _ in range(6)] for _ in range(n)]
            for i in rng.sample(range(1, n - 1), 4):
                base['Q'][i] = [0] * 6
            items.append((base, 'structural', {'want_trace': True}))
            meta.append(('base', None))
            order = list(range(n))
            rng.shuffle(order)
            for t in (('perm', list(reversed(range(n)))), ('perm', order),
                      ('subset', [i for i in range(n) if i % 2 == 0]),
                      ('subset', sorted(rng.sample(range(n), n // 3))), ('chunk', rng.randint(3, 11))):
                img, ids = apply(rng, base, t)
                img['cfg']['enc'] = enc
                if t[0] != 'chunk':
                    img['cfg']['chunk'] = rng.randint(5, n)
                items.append((img, 'structural', {}))
                meta.append((t[0], ids))
        rs = relations.run_many(ctx, items)
        pairs, und_total = [], 0
        cur = None
        for r, (kind, ids) in zip(rs, meta):
            if kind == 'base':
                cur = r
                und = relations.undetermined_cells(r['scn'], r['trace']) if r['ok'] else set()
                continue
            ctx.count({'base': cur['scn'], 't': kind, 'chunk': r['scn']['cfg']['chunk'], 'n': len(ids)}, nontrivial=True)
            if not cur['ok'] or not r['ok']:
                ctx.report('pair:run-failed', f'base ok={cur["ok"]} ({cur["error"]}) image ok={r["ok"]} ({r["error"]}) '
                           f'sparse {cur["scn"]["cfg"]["enc"]} {kind}', {'base': cur['scn'], 'img': r['scn']})
                continue
            keep = [c for c in ids if c not in und]
            und_total += len(ids) - len(keep)
            pairs.append({'rel': 'join_close', 'tree': cur['scn']['tree'], 'base': cur['recs'], 'image': r['recs'],
                          'levels': cur['scn']['tree']['hier'], 'ids': keep, 't': (kind + ':' + cur['scn']['cfg']['enc'], None),
                          'b': cur['scn'], 'i': r['scn'], 'scheme': 'structural'})
        rej = 0
        for p, v in relations.decide(ctx, pairs, 'Relations_Trace_c06_sparse'):
            if not v['accepted']:
                rej += 1
                ctx.report(f'clause:{v["inv"]}:{p["t"][0]}', f'{relations.CL.get(v["inv"])}; transformation {p["t"][0]} of a '
                           f'{len(p["b"]["cells"])}-cell query', {'base': p['b'], 'img': p['i'], 'scheme': p['scheme']})
        ctx.part('sparse', compared=len(pairs), rejected=rej, undetermined_cells=und_total)
    if ctx.only in (None, 'big'):
        # more than 10 000 cells in one batch against the same cells in batches of 3 000
        tj = {'hier': [1, 2], 'keys': [1, 2], 'nodes': [[1, 2, 3], [1, 2, 3, 4, 5, 6]],
              'kids': [[[1, [1, 2]], [2, [3, 4]], [3, [5, 6]]], [[n, []] for n in range(1, 7)]],
              'cells': [[n, []] for n in range(1, 7)]}
        nb = 10400 + rng.randint(1, 300)
        big = maptrace.gen_scenario(rng, tree=tj, G=6, vmax=9, ncell=4,
                                    cfg={'fnum': 1, 'fden': 1, 'drop': None, 'flatten': False, 'B': 2, 'K': 1,
                                         'chunk': 20000, 'P': 1, 'enc': 'dense', 'minm': 1})
        big['qgenes'] = [1, 2, 3, 4, 5, 6]
        big['markers'] = {'0/0': [1, 2, 3, 4, 5, 6], '1/1': [1, 2, 3], '1/2': [3, 4, 5], '1/3': [2, 4, 6]}
        big['cells'] = list(range(1, nb + 1))
        big['Q'] = [[rng.randint(0, 9) for _ in range(6)] for _ in range(nb)]
        small = copy.deepcopy(big)
        small['cfg']['chunk'] = 3000
        rs = relations.run_many(ctx, [(big, 'structural', {}), (small, 'structural', {})], jobs=2)
        ctx.count({'big': nb}, nontrivial=True)
        if not rs[0]['ok'] or not rs[1]['ok']:
            ctx.report('pair:run-failed', f'large batch run failed: {rs[0]["error"]} / {rs[1]["error"]}', {'big': nb})
        else:
            by = [{x['id']: x for x in r['recs']} for r in rs]
            pairs = []
            ids_all = big['cells']
            for k in range(0, nb, 400):
                ids = ids_all[k:k + 400]
                pairs.append({'rel': 'join_close', 'tree': tj, 'base': [by[0][c] for c in ids if c in by[0]],
                              'image': [by[1][c] for c in ids if c in by[1]], 'levels': tj['hier'], 'ids': ids,
                              't': ('batch-size', k)})
            rej = 0
            for p, v in relations.decide(ctx, pairs, 'Relations_Trace_c06_big'):
                if not v['accepted']:
                    rej += 1
                    if rej <= 2:
                        ctx.report(f'clause:{v["inv"]}:batch-size', f'{relations.CL.get(v["inv"])}; {nb} cells in one '
                                   f'batch vs batches of 3000, cells {p["ids"][0]}..{p["ids"][-1]}', {'big': nb})
            ctx.part('big', cells=nb, groups=len(pairs), rejected=rej)


def replay(ctx, path):
    import pathlib
    case = json.load(open(pathlib.Path(path) / 'replay.json'))['case']
    rs = relations.run_many(ctx, [(case['base'], case.get('scheme', 'structural'), {}),
                                  (case['img'], case.get('scheme', 'structural'), {})], jobs=2)
    ctx.count(case)
    if rs[0]['ok'] and rs[1]['ok']:
        ids = [c for c in case['base']['cells'] if c in case['img']['cells']]
        for p, v in relations.decide(ctx, [{'rel': 'join_close', 'tree': case['base']['tree'],
                                            'base': rs[0]['recs'], 'image': rs[1]['recs'],
                                            'levels': case['base']['tree']['hier'], 'ids': ids}], 'replay'):
            if not v['accepted']:
                ctx.report(f'clause:{v["inv"]}', relations.CL.get(v['inv']), case)
