"""C04 - results depend only on inputs and seed, never on scheduling.

1. MC   : WorkerPool.tla - every interleaving of N workers on P slots: child seeds are drawn in
          dispatch order, every chunk is stored exactly once before the run returns, never
          more than P alive; liveness: without a fault the run returns.
2. S->C : TLC emits every feasible order in which results can be stored; each becomes a gate
          plan that forces the real workers into that order, for both gather paths (per-chunk
          files re-read in name order; shared list appended under a lock); plus Python hash
          seeds and worker counts that induce the same chunks.  Relations_Trace decides that
          all runs are bitwise identical to the canonical one.
3. C->S : Dispatch / Poll hook events of these runs are validated by WorkerPool_Trace.
"""
import copy
import json
import random

from harness import maptrace, relations, pooltrace, sub
from harness.checks.c17 import safe_markers
from harness.tlc import run_tlc, MachineryError

PID = 'C04'


def feasible_orders(ctx, N, P):
    cfg = (f'SPECIFICATION Spec\nCONSTANTS N = {N} P = {P} FaultKs = {{0}} FaultPoints = {{"before"}} '
           'FaultModes = {"kill"} Fixed = TRUE\nCONSTRAINT EmitStoreOrder\nCHECK_DEADLOCK FALSE\n')
    res = run_tlc('WorkerPool', cfg_text=cfg, workers=1, timeout=3600)
    ctx.add_tlc(f'WorkerPool_orders_N{N}_P{P}', res)
    return sorted(set(tuple(t[1]) for t in res.tuples('ORDER')))


def rich_tree():
    """3 levels, two classes x two subclasses x two clusters: several non-root parents with a choice"""
    return {'hier': [1, 2, 3], 'keys': [1, 2, 3], 'nodes': [[1, 2], [1, 2, 3, 4], list(range(1, 9))],
            'kids': [[[1, [1, 2]], [2, [3, 4]]], [[1, [1, 2]], [2, [3, 4]], [3, [5, 6]], [4, [7, 8]]],
                     [[n, []] for n in range(1, 9)]], 'cells': [[n, []] for n in range(1, 9)]}


def base_scenario(rng, N, P, rich=True):
    """a scenario with exactly N chunks on P workers.  `rich`: 12 genes with values 0..9, a 3-level
    tree, bootstrap factor 1/2 and 10 iterations, so that different random streams, vote orders or
    accumulation orders change the output with overwhelming probability (no TLC arithmetic is done on
    these values: the runs are only compared with each other)."""
    import math
    clen = rng.randint(2, 4) if rich else rng.randint(1, 3)
    ncell = (N - 1) * clen + rng.randint(1, clen)
    if rich:
        s = maptrace.gen_scenario(rng, tree=rich_tree(), ncell=ncell, G=12, vmax=9,
                                  cfg={'chunk': clen, 'P': P, 'drop': None, 'flatten': False})
        s['qgenes'] = rng.sample(range(1, 13), 12) + [13]
        s['Q'] = [[rng.randint(0, 9) for _ in s['qgenes']] for _ in s['cells']]
        s['markers'] = {'0/0': sorted(rng.sample(range(1, 13), 8))}
        for l, nodes in ((1, [1, 2]), (2, [1, 2, 3, 4])):
            for n in nodes:
                s['markers'][f'{l}/{n}'] = sorted(rng.sample(range(1, 13), 6))
        s['cfg'].update(B=10, fnum=5, fden=10, K=3, minm=1)
    else:
        s = maptrace.gen_scenario(rng, max_levels=3, max_leaves=6, min_leaves=2, ncell=ncell,
                                  cfg={'chunk': clen, 'P': P, 'drop': None, 'flatten': False})
        if len(s['tree']['nodes'][0]) == 1:
            s['tree'] = maptrace.random_tree(rng, 1, 5, 2)
            s['means'] = {str(l): [rng.randint(0, 4) for _ in range(s['G'])] for l in s['tree']['nodes'][-1]}
            s['markers'] = {'0/0': s['markers']['0/0']}
        safe_markers(rng, s)
        s['cfg']['B'] = rng.randint(2, 6)
        s['cfg']['fnum'] = rng.randint(3, 9)
    # chunk length must come out as clen: ceil(n/P) >= clen
    if min(max(1, math.ceil(ncell / P)), clen) != clen or len(pooltrace.chunk_starts(s)[0]) != N:
        return None
    return s


def run(ctx):
    quick = ctx.tier == 'quick'
    rng = random.Random(ctx.seed + 4)
    ctx.cov['rule'] = ('one case = a real mapping run under a forced store order (every feasible order from '
                       'TLC for N<=3 quick / N<=4 thorough, both gather paths), a Python hash seed, or a '
                       'worker count inducing the same chunks; compared bitwise with the canonical run. '
                       'Non-trivial = order differs from dispatch order or seed/worker count differs; '
                       'distinct by (scenario, plan, mode, hash seed).')
    ctx.cov['trusted_base'] = ['TLC 1.8', 'gate tokens of the guarded hooks force the schedule',
                               'harness projection']
    ctx.assumptions += ['worker counts change the partial sums of the statistics stage (different work split), '
                        'so that comparison is left to C09 (to rounding); every other comparison is bitwise']
    combos = [(3, 2), (2, 1), (4, 3)] if quick else [(2, 1), (3, 1), (3, 2), (3, 3), (4, 2), (4, 3), (4, 4)]
    if ctx.only in (None, 'mc'):
        for N, P in combos:
            cfg = (f'SPECIFICATION FairSpec\nCONSTANTS N = {N} P = {P} FaultKs = {{0}} '
                   'FaultPoints = {"before"} FaultModes = {"kill"} Fixed = TRUE\n'
                   'INVARIANT TypeOK\nINVARIANT SeedsInDispatchOrder\nINVARIANT ReturnedComplete\n'
                   'INVARIANT NeverMoreThanP\nINVARIANT ScratchEmptyAtEnd\nPROPERTY NoFaultLeadsToReturn\n'
                   'CHECK_DEADLOCK FALSE\n')
            res = run_tlc('WorkerPool', cfg_text=cfg, timeout=3600)
            ctx.add_tlc(f'WorkerPool_N{N}_P{P}', res)
            if not res.ok:
                raise MachineryError(f'WorkerPool N={N} P={P}:\n' + (res.error_trace or res.stdout[-2000:]))
    if ctx.only in (None, 's2c'):
        jobs, meta = [], []
        keep_alive = []
        for N, P in combos:
            orders = feasible_orders(ctx, N, P)
            s = None
            while s is None:
                s = base_scenario(rng, N, P)
            scheme = rng.choice(['structural', 'reversed', 'shared'])
            for mode in ('cli', 'direct_list'):
                for o in orders:
                    plan = pooltrace.order_plan(s, list(o))
                    pp = ctx.scratch / f'plan_{len(jobs)}.json'
                    json.dump(plan, open(pp, 'w'))
                    jobs.append({'job': {'scn': s, 'scheme': scheme, 'plan': str(pp), 'mode': mode},
                                 'env': {'PYTHONHASHSEED': '0'}})
                    meta.append((id(s), mode, ('order', o)))
            if N >= 3:
                # the same cell identifier in the first and in the last chunk (different expression): whichever record
                # the output keeps for it, it must not depend on which worker finished last
                sd = copy.deepcopy(s)
                sd['cells'][-1] = sd['cells'][0]
                keep_alive.append(sd)
                for o in orders:
                    plan = pooltrace.order_plan(sd, list(o))
                    pp = ctx.scratch / f'plan_{len(jobs)}.json'
                    json.dump(plan, open(pp, 'w'))
                    jobs.append({'job': {'scn': sd, 'scheme': scheme, 'plan': str(pp), 'mode': 'cli'},
                                 'env': {'PYTHONHASHSEED': '0'}})
                    meta.append((id(sd), 'cli', ('order_repeated_id', o)))
            for hs in (['1', '7'] if quick else ['1', '2', '3', '11', 'random']):
                jobs.append({'job': {'scn': s, 'scheme': scheme, 'plan': None, 'mode': 'cli'},
                             'env': {'PYTHONHASHSEED': hs}})
                meta.append((id(s), 'cli', ('hashseed', hs)))
            # worker counts that induce the same chunks
            import math
            n = len(s['cells'])
            for P2 in range(1, 5):
                if P2 != P and min(max(1, math.ceil(n / P2)), s['cfg']['chunk']) == pooltrace.chunk_starts(s)[1]:
                    s2 = copy.deepcopy(s)
                    s2['cfg']['P'] = P2
                    jobs.append({'job': {'scn': s2, 'scheme': scheme, 'plan': None, 'mode': 'cli'},
                                 'env': {'PYTHONHASHSEED': '0'}})
                    meta.append((id(s), 'cli', ('workers', P2)))
        outs = sub.run_jobs(ctx, jobs)
        canon = {}
        pairs, ptraces, powners = [], [], []
        for j, o, (sid, mode, what) in zip(jobs, outs, meta):
            s = j['job']['scn']
            ctx.count({'s': s, 'mode': mode, 'what': what},
                      nontrivial=not (what[0].startswith('order') and list(what[1]) == sorted(what[1])))
            if 'GateTimeout' in json.dumps(o.get('traces', {})):
                raise MachineryError(f'gate timeout while forcing {what} ({mode})')
            if not o['ok'] or not o.get('has_results'):
                ctx.report(f'run-failed:{what[0]}', f'{mode} {what}: {o["error"]}',
                           {'scn': s, 'what': what, 'mode': mode})
                continue
            key = sid
            if key not in canon:
                canon[key] = (o, what, mode)
                continue
            c = canon[key][0]
            pairs.append({'rel': 'order_bits', 'tree': s['tree'], 'base': c['recs'], 'image': o['recs'],
                          'levels': s['tree']['hier'], 'what': what, 'mode': mode, 'scn': s})
            if mode == 'cli' and c.get('markers') != o.get('markers'):
                ctx.report(f'markers-differ:{what[0]}', f'marker_genes differ under {what}', {'scn': s})
            if mode == 'cli' and what[0] != 'order_repeated_id':
                ptraces.append(pooltrace.pool_trace(s, o))
                powners.append((s, what))
        rej = 0
        for p, v in relations.decide(ctx, pairs, 'Relations_Trace_c04'):
            if not v['accepted']:
                rej += 1
                ctx.report(f'clause:{v["inv"]}:{p["what"][0]}', f'{relations.CL.get(v["inv"])} under '
                           f'{p["what"]} ({p["mode"]})', {'scn': p['scn'], 'what': p['what'], 'mode': p['mode']})
        prej = 0
        for (s, what), v in zip(powners, pooltrace.validate_pool(ctx, ptraces, 'WorkerPool_Trace')):
            if not v['accepted']:
                prej += 1
                ctx.report(f'pooltrace:{v["inv"]}', f'hook trace of the run under {what} is not a behaviour of '
                           f'WorkerPool (stopped at event {v["reached"]}, clause {v["inv"]})',
                           {'scn': s, 'what': what})
        if pairs:
            ctx.sample({'what': pairs[-1]['what'], 'mode': pairs[-1]['mode'], 'image_first': pairs[-1]['image'][:1]})
        if ptraces:
            ctx.sample({'pool_trace': ptraces[0]})
        ctx.part('s2c', runs=len(jobs), compared=len(pairs), rejected=rej, pool_traces=len(ptraces),
                 pool_rejected=prej,
                 orders={f'N{N}P{P}': sum(1 for m in meta if m[2][0] == 'order') for N, P in combos[:1]})
        if not quick:
            ctx.cov['exhaustive'] = True
    if ctx.only in (None, 'stages'):
        _stages(ctx, quick)


def _stages(ctx, quick):
    from harness import stageorders
    stageorders.run(ctx, quick)


def replay(ctx, path):
    import pathlib
    case = json.load(open(pathlib.Path(path) / 'replay.json'))['case']
    s = case['scn']
    jobs = [{'job': {'scn': s, 'scheme': 'structural', 'plan': None, 'mode': case.get('mode', 'cli')}}]
    if case.get('what', [None])[0] == 'order':
        pp = ctx.scratch / 'plan.json'
        json.dump(pooltrace.order_plan(s, list(case['what'][1])), open(pp, 'w'))
        jobs.append({'job': {'scn': s, 'scheme': 'structural', 'plan': str(pp), 'mode': case.get('mode', 'cli')}})
    outs = sub.run_jobs(ctx, jobs)
    ctx.count(case)
    if len(outs) == 2 and outs[0].get('digest') != outs[1].get('digest'):
        ctx.report('replay:differs', 'forced order changes the result', case)
