"""X18 (extension suite, not one of the 20 listed statements) - one poll of the worker list / dictionary
(utils/multiprocessing_utils.py: winnow_process_list, winnow_process_dict, _stop_processes).

1. MC   : Winnow.tla, every vector of <= 4 exit codes over {running, 0, 1, -9} x {list, dict}: NeverSilent (the
          poll raises iff a finished worker has a non-zero code), NoOrphans (then every running worker is stopped
          and waited for), SurvivorsKept, QuietPollOnlyDropsFinished.  Deviation DictDropsBeforeRaise modelled.
2. S->C : every vector of the model is given to the real functions as scripted process objects (exit code,
          is_alive, terminate, join recorded); Winnow_Trace compares raised / named code / who remains in which
          order / who was stopped / who was waited for / key named.  The dispatcher around the poll, with real
          processes, is WorkerPool (C14, C19).
"""
import copy
import json
import os
import pathlib
import re

from harness.tlc import run_tlc, MachineryError
from harness.traces import validate

PID = 'X18'
CL = {3801: 'the poll raised / returned differently', 3802: 'the message names another exit code',
      3803: 'who remains in the container (or their order) differs', 3804: 'who was stopped differs',
      3805: 'who was waited for differs', 3806: 'the dictionary version does not name the key of the failing worker',
      0: 'not possible in the model'}
NONE = 99


class _Proc(object):
    def __init__(self, idx, code, log):
        self.idx, self.pid, self.log = idx, 1000 + idx, log
        self.exitcode = None if code == NONE else code

    def is_alive(self):
        return self.exitcode is None

    def terminate(self):
        self.log['terminated'].append(self.idx)
        self.exitcode = -15

    def join(self, timeout=None):
        self.log['joined'].append(self.idx)

    def kill(self):
        self.terminate()


def _case(scn):
    from cell_type_mapper.utils.multiprocessing_utils import winnow_process_list, winnow_process_dict
    log = {'terminated': [], 'joined': []}
    procs = [_Proc(i + 1, c, log) for i, c in enumerate(scn['codes'])]
    raised, code, key = False, 0, 0
    try:
        if scn['mode'] == 'list':
            box = list(procs)
            out = winnow_process_list(box)
            remaining = [p.idx for p in out]
            if out is not box:
                remaining = [-1]
        else:
            box = {f'k{p.idx}': p for p in procs}
            out = winnow_process_dict(box)
            remaining = [p.idx for p in out.values()]
            if out is not box:
                remaining = [-1]
    except RuntimeError as e:
        raised = True
        m = re.search(r'exited with code\s+(-?\d+)', str(e))
        code = int(m.group(1)) if m else 12345
        remaining = [p.idx for p in (box if scn['mode'] == 'list' else box.values())]
        mk = re.search(r'key=k(\d+)\)', str(e))
        key = int(mk.group(1)) if mk else 0
    ev = {'raised': raised, 'code': code, 'key': key, 'remaining': remaining,
          'terminated': sorted(set(log['terminated'])), 'joined': sorted(set(log['joined']))}
    return {'mode': scn['mode'], 'codes': list(scn['codes']), 'events': [ev]}


def run(ctx):
    ctx.cov['rule'] = ('one case = one vector of <= 4 exit codes over {running, 0, 1, -9} and one of the two containers, '
                       'polled once through the real function with scripted process objects; non-trivial = at least '
                       'two workers of which one is running; all 682 cases in both tiers.')
    ctx.cov['trusted_base'] = ['TLC 1.8', 'scripted process objects standing in for multiprocessing.Process '
                               '(exitcode, is_alive, terminate, join)']
    sd = os.path.join(os.path.dirname(__file__), '..', '..', 'spec')
    cfg = open(os.path.join(sd, 'Winnow_MC.cfg')).read() + 'CONSTRAINT Emit\n'
    res = run_tlc('Winnow_MC', cfg_text=cfg, workers=1, timeout=600)
    ctx.add_tlc('Winnow_MC', res)
    if not res.ok:
        raise MachineryError(res.error_trace or res.stdout[-1500:])
    scns = [json.loads(t[1]) for t in res.tuples('SCN')]
    scns = list({json.dumps(s, sort_keys=True): s for s in scns}.values())
    if len(scns) != 682:
        raise MachineryError(f'{len(scns)} scenarios instead of 682')
    recs = []
    for s in scns:
        recs.append(_case(s))
        ctx.count({'s': s}, nontrivial=len(s['codes']) >= 2 and NONE in s['codes'])
    vs = validate(ctx, 'Winnow_Trace', recs, 'Winnow_Trace', cfg='Winnow_Trace.cfg')
    rej = 0
    for s, rec, v in zip(scns, recs, vs):
        if not v['accepted']:
            rej += 1
            ctx.report(f'clause:{v["inv"]}', f'{CL.get(v["inv"], v["inv"])} - {s["mode"]} codes={s["codes"]} '
                       f'(99 = running): {rec["events"][0]}', {'scenario': s})
    ctx.part('s2c', polls=len(scns), rejected=rej)
    ctx.sample({'scenario': scns[0], 'observed': recs[0]['events']})
    st = []
    for r in [r for r in recs if r['events'][0]['terminated']][:40]:
        r2 = copy.deepcopy(r)
        r2['events'][0]['terminated'] = r2['events'][0]['terminated'][1:]
        st.append(r2)
    for r in [r for r in recs if not r['events'][0]['raised'] and len(r['events'][0]['remaining']) >= 2][:40]:
        r2 = copy.deepcopy(r)
        r2['events'][0]['remaining'] = r2['events'][0]['remaining'][::-1]
        st.append(r2)
    sv = validate(ctx, 'Winnow_Trace', st, 'selftest', cfg='Winnow_Trace.cfg', counts_as_impl=False)
    acc = sum(1 for v in sv if v['accepted'])
    ctx.cov['selftest'] = {'corrupted': len(st), 'rejected': len(st) - acc}
    if acc or not st:
        raise MachineryError('self-test: corrupted polls accepted')
    ctx.cov['exhaustive'] = True


def replay(ctx, path):
    case = json.load(open(pathlib.Path(path) / 'replay.json'))['case']['scenario']
    rec = _case(case)
    v = validate(ctx, 'Winnow_Trace', [rec], 'replay', cfg='Winnow_Trace.cfg')[0]
    if not v['accepted']:
        ctx.report(f'clause:{v["inv"]}', CL.get(v['inv']), {'scenario': case})
    ctx.count(case)
