------------------------------ MODULE RowAccess ------------------------------
(***************************************************************************)
(* Row access to the cell-by-gene matrix of an h5ad file                   *)
(* (anndata_iterator/anndata_iterator.py: AnnDataRowIterator, CSRRowIterator,*)
(* DenseArrayRowIterator; utils/sparse_utils.py: load_csr,                 *)
(* _load_disjoint_csr, merge_csr).                                         *)
(*                                                                         *)
(* Iteration: r0 starts at 0; each step yields rows r0 .. r1-1 with        *)
(* r1 = min(n, r0 + c) and continues from r1 until r0 >= n.                *)
(* Batch: an arbitrary duplicate-free list of rows is sorted, consecutive  *)
(* rows are merged into ranges, the ranges are loaded in order and the     *)
(* result is put back into the requested order.  Random access may be      *)
(* interleaved with an iteration and does not move its cursor.             *)
(* Both must return exactly the stored values, whatever the encoding: the  *)
(* model works on the abstract matrix Mx; the encodings, numeric types and *)
(* HDF5 layouts are dimensions of the replay.                              *)
(***************************************************************************)
EXTENDS Integers, Sequences, FiniteSets, FiniteSetsExt, SequencesExt, TLC, Json

CONSTANTS NR, NC, Vals, MaxBatch

VARIABLES Mx, c, r0, yielded, pc, nacc
vars == <<Mx, c, r0, yielded, pc, nacc>>

Init == /\ Mx \in [1..NR -> [1..NC -> Vals]]
        /\ c \in 1..(NR + 1) /\ r0 = 0 /\ yielded = <<>> /\ pc = "iter" /\ nacc = 0
Step == /\ pc = "iter"
        /\ IF r0 >= NR THEN pc' = "done" /\ UNCHANGED <<r0, yielded>>
           ELSE LET r1 == IF r0 + c < NR THEN r0 + c ELSE NR IN
                yielded' = Append(yielded, <<r0, r1>>) /\ r0' = r1 /\ UNCHANGED pc
        /\ UNCHANGED <<Mx, c, nacc>>
\* random access (get_chunk, get_batch) between two steps of an iteration: it reads, and leaves the cursor where it is
Access == /\ pc = "iter" /\ nacc < 2 /\ nacc' = nacc + 1
          /\ UNCHANGED <<Mx, c, r0, yielded, pc>>
Spec == Init /\ [][Step \/ Access]_vars

\* yielded ranges are contiguous, start at 0, are at most c long and, at the end, cover 0..NR
RangesTile == /\ \A i \in 1..Len(yielded) : yielded[i][1] < yielded[i][2] /\ yielded[i][2] - yielded[i][1] <= c
              /\ (Len(yielded) > 0 => yielded[1][1] = 0)
              /\ \A i \in 1..(Len(yielded) - 1) : yielded[i][2] = yielded[i + 1][1]
              /\ (pc = "done" => (Len(yielded) > 0 /\ yielded[Len(yielded)][2] = NR))
\* every chunk but the last is exactly c rows
FullChunks == \A i \in 1..(Len(yielded) - 1) : yielded[i][2] - yielded[i][1] = c
\* rows of every chunk (0-based r0..r1-1) as stored
ChunkRows(i) == [j \in 1..(yielded[i][2] - yielded[i][1]) |-> Mx[yielded[i][1] + j]]
EveryRowOnce == pc = "done" =>
    FoldSeq(LAMBDA i, acc : acc \o ChunkRows(i), <<>>, [i \in 1..Len(yielded) |-> i]) = [r \in 1..NR |-> Mx[r]]

----------------------------------------------------------------------------
\* get_batch(rows), rows 0-based and duplicate-free
RowLists == UNION {{s \in [1..n -> 0..(NR - 1)] : \A i, j \in 1..n : i # j => s[i] # s[j]} : n \in 1..MaxBatch}
SortedRows(rows) == SetToSortSeq({rows[i] : i \in 1..Len(rows)}, <)
\* merge consecutive sorted rows into half-open ranges
RECURSIVE MergeFrom(_, _, _)
MergeFrom(s, i, acc) ==
    IF i > Len(s) THEN acc
    ELSE IF Len(acc) > 0 /\ acc[Len(acc)][2] = s[i]
         THEN MergeFrom(s, i + 1, [acc EXCEPT ![Len(acc)] = <<@[1], s[i] + 1>>])
         ELSE MergeFrom(s, i + 1, Append(acc, <<s[i], s[i] + 1>>))
Ranges(rows) == MergeFrom(SortedRows(rows), 1, <<>>)
LoadRanges(rs) == FoldSeq(LAMBDA r, acc : acc \o [j \in 1..(r[2] - r[1]) |-> Mx[r[1] + j]], <<>>, rs)
\* position of row x in the sorted, loaded block
PosOf(rows, x) == CHOOSE k \in 1..Len(rows) : SortedRows(rows)[k] = x
BatchViaRanges(rows) == [i \in 1..Len(rows) |-> LoadRanges(Ranges(rows))[PosOf(rows, rows[i])]]
BatchDirect(rows) == [i \in 1..Len(rows) |-> Mx[rows[i] + 1]]
BatchCorrect == pc = "iter" /\ r0 = 0 /\ c = 1 => \A rows \in RowLists : BatchViaRanges(rows) = BatchDirect(rows)

\* scenario emission: the matrix with every batch (the chunk ranges follow from the chunk size)
EmitAct == /\ pc = "iter" /\ r0 = 0 /\ c = 1 /\ nacc = 0
           /\ PrintT(<<"SCN", ToJson([matrix |-> Mx,
                       chunks |-> [k \in 1..(NR + 1) |->
                                     [j \in 1..((NR + k - 1) \div k) |->
                                        <<(j - 1) * k, IF j * k < NR THEN j * k ELSE NR>>]],
                       batches |-> {[rows |-> rows, result |-> BatchDirect(rows)] : rows \in RowLists}])>>)
           /\ pc' = "emitted" /\ UNCHANGED <<Mx, c, r0, yielded, nacc>>
GenSpec == Init /\ [][EmitAct]_vars
=============================================================================
