------------------------------ MODULE Election ------------------------------
(***************************************************************************)
(* Pure operators of the bootstrapped nearest-centroid election            *)
(* (type_assignment/election.py: tally_votes, aggregate_votes, choose_node;*)
(* utils/distance_utils.py: correlation_nearest_neighbors).                *)
(*                                                                         *)
(* Expression values are integers (log2CPM space; a legal input), so the   *)
(* ordering of Pearson correlations is decided exactly by cross            *)
(* multiplication.  A vector is a function position -> Int; S is the set   *)
(* of positions drawn for one bootstrap iteration.                         *)
(***************************************************************************)
EXTENDS Integers, Sequences, FiniteSets, FiniteSetsExt

SumOver(F(_), S) == FoldSet(LAMBDA x, acc : acc + F(x), 0, S)

\* n * covariance and n * variance over the positions S (n = |S|); integers
Cov(q, r, S) == Cardinality(S) * SumOver(LAMBDA i : q[i] * r[i], S)
                  - SumOver(LAMBDA i : q[i], S) * SumOver(LAMBDA i : r[i], S)
Var(r, S)    == Cardinality(S) * SumOver(LAMBDA i : r[i] * r[i], S)
                  - SumOver(LAMBDA i : r[i], S) * SumOver(LAMBDA i : r[i], S)

(***************************************************************************)
(* corr(q,a) > corr(q,b) on S.  The code subtracts the mean and divides by *)
(* the norm, replacing a zero norm by 1: a constant row (query or          *)
(* reference) therefore has correlation 0 with everything.                 *)
(* corr = Cov/sqrt(Var q * Var r); Var q is common to both sides and       *)
(* positive, so it cancels.                                                *)
(***************************************************************************)
CorrGt(q, a, b, S) ==
    IF Var(q, S) = 0 THEN FALSE
    ELSE LET x == IF Var(a, S) = 0 THEN 0 ELSE Cov(q, a, S)
             y == IF Var(b, S) = 0 THEN 0 ELSE Cov(q, b, S)
             u == IF Var(a, S) = 0 THEN 1 ELSE Var(a, S)
             v == IF Var(b, S) = 0 THEN 1 ELSE Var(b, S)
         IN  IF x >= 0 /\ y < 0 THEN TRUE
             ELSE IF x < 0 /\ y >= 0 THEN FALSE
             ELSE IF x >= 0 THEN x * x * v > y * y * u
             ELSE x * x * v < y * y * u

\* leaves (domain of M, leaf -> vector) of maximal correlation with q on S: ties are a set
Best(q, M, S) == {a \in DOMAIN M : \A b \in DOMAIN M : ~CorrGt(q, M[b], M[a], S)}

\* is corr(q, a) = 1 exactly on S (used by the centroid lemma of C18)
CorrIsOne(q, a, S) ==
    /\ Var(q, S) > 0 /\ Var(a, S) > 0 /\ Cov(q, a, S) > 0
    /\ Cov(q, a, S) * Cov(q, a, S) = Var(q, S) * Var(a, S)

(***************************************************************************)
(* Size of a bootstrap subset: max(1, round(f * n)) with f = fnum/fden.    *)
(* At an exact half both neighbours are allowed (numpy rounds half to      *)
(* even on a float product that may sit on either side).                   *)
(***************************************************************************)
SubsetSizes(n, fnum, fden) ==
    LET t == 2 * fnum * n + fden          \* = 2*fden*(f*n + 1/2)
        up == t \div (2 * fden)           \* round half up
        raw == IF t % (2 * fden) = 0 THEN {up - 1, up} ELSE {up}
    IN  IF n = 0 THEN {0} ELSE {IF k < 1 THEN 1 ELSE k : k \in raw}

DrawOK(idx, n, fnum, fden) ==     \* idx : sequence of 0-based positions as logged
    /\ Len(idx) \in SubsetSizes(n, fnum, fden)
    /\ \A i \in 1..Len(idx) : idx[i] >= 0 /\ idx[i] < n
    /\ \A i, j \in 1..Len(idx) : i # j => idx[i] # idx[j]

(***************************************************************************)
(* Outcome of the election at one node for one cell.                       *)
(*   cand : sequence over iterations of the set of children that contain a *)
(*          best leaf (a singleton unless correlations tie exactly)        *)
(*   w, kw: reported winner and its votes                                  *)
(*   ru   : reported runners-up, sequence of <<child, votes>>              *)
(*   K    : requested number of runners-up, ch: the children of the node   *)
(* Returns 0 when the report is an outcome the definition allows, else the *)
(* number of the first clause that fails.                                  *)
(***************************************************************************)
Lower(cand, c) == Cardinality({i \in 1..Len(cand) : cand[i] = {c}})
Upper(cand, c) == Cardinality({i \in 1..Len(cand) : c \in cand[i]})

RuVotes(ru, c) == IF \E i \in 1..Len(ru) : ru[i][1] = c
                  THEN ru[CHOOSE i \in 1..Len(ru) : ru[i][1] = c][2] ELSE 0
SumRu(ru) == SumOver(LAMBDA i : ru[i][2], 1..Len(ru))

\* arithmetic contract of C03 (independent of who voted for whom)
ContractErr(B, K, ch, w, kw, ru) ==
    IF ~(w \in ch) THEN 301
    ELSE IF ~(kw >= 1 /\ kw <= B) THEN 302
    ELSE IF ~(Len(ru) <= K) THEN 303
    ELSE IF ~(\A i \in 1..Len(ru) : ru[i][1] \in ch /\ ru[i][1] # w) THEN 304
    ELSE IF ~(\A i, j \in 1..Len(ru) : i # j => ru[i][1] # ru[j][1]) THEN 305
    ELSE IF ~(\A i \in 1..Len(ru) : ru[i][2] >= 1 /\ ru[i][2] <= kw) THEN 306
    ELSE IF ~(\A i \in 1..(Len(ru) - 1) : ru[i][2] >= ru[i + 1][2]) THEN 307
    ELSE IF ~(kw + SumRu(ru) <= B) THEN 308
    ELSE IF ~((K >= Cardinality(ch) - 1) => kw + SumRu(ru) = B) THEN 309
    ELSE 0

\* the votes are the plurality of the per-iteration nearest centroids (C02)
VoteErr(B, K, ch, cand, w, kw, ru) ==
    LET listed == {w} \cup {ru[i][1] : i \in 1..Len(ru)}
        votes(c) == IF c = w THEN kw ELSE RuVotes(ru, c)
        truncated == Len(ru) = K /\ K < Cardinality(ch) - 1
        floor == IF Len(ru) = 0 THEN kw ELSE ru[Len(ru)][2]
    IN
    IF ~(Len(cand) = B) THEN 201
    ELSE IF ~(\A c \in listed : Lower(cand, c) <= votes(c) /\ votes(c) <= Upper(cand, c)) THEN 202
    \* a child that certainly received votes is listed unless the list was cut at K, and then
    \* it cannot have had more votes than the last one listed
    ELSE IF ~(\A c \in ch \ listed : Lower(cand, c) > 0 => (truncated /\ Lower(cand, c) <= floor)) THEN 203
    ELSE IF ~(truncated \/ kw + SumRu(ru) = B) THEN 204
    ELSE IF ~(kw + SumRu(ru) + SumOver(LAMBDA c : Lower(cand, c), ch \ listed) <= B) THEN 205
    ELSE 0
=============================================================================
