SPECIFICATION Spec
CONSTANTS NG = 3 V = 2 NL = 3
INVARIANT Lemma
INVARIANT Tight
INVARIANT ConstTies
CHECK_DEADLOCK FALSE
