SPECIFICATION SSpec
INVARIANT NoLeakInSinks
CONSTRAINT Small
CHECK_DEADLOCK FALSE
