SPECIFICATION Spec
CONSTANTS NCells = 4 NCl = 2 NF = 2 V = 2 MaxR = 3 MaxP = 3
INVARIANT MergedIsDirect
INVARIANT Partition
INVARIANT TruncationIsCoarse
CHECK_DEADLOCK FALSE
