SPECIFICATION Spec
CONSTANTS Keys = {"ka", "kb"} Foreign = {"umap"} MaxRuns = 3
INVARIANT BaseNeverChanges
INVARIANT OwnersRight
INVARIANT NothingLost
INVARIANT FailsOnlyOnTaken
CONSTRAINT Emit
CHECK_DEADLOCK FALSE
