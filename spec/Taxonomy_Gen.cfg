SPECIFICATION GenSpec
CONSTANTS MaxLevels = 4 MaxLeaves = 6
CHECK_DEADLOCK FALSE
