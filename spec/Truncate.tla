----------------------------- MODULE Truncate -----------------------------
(***************************************************************************)
(* Truncating a precomputed-statistics file to a coarser taxonomy          *)
(* (diff_exp/truncate_precompute.py, cli/truncate_precomputed_taxonomy.py) *)
(*                                                                         *)
(* The file holds a tree T (Taxonomy.tla) and, per leaf cluster, additive  *)
(* statistics (n_cells, sum, sumsq, gt0, ... : one number per leaf and     *)
(* component).  A request names the levels to keep, coarse to fine.        *)
(* The code walks the levels NOT named, top down, dropping each from the   *)
(* tree built so far - drop_level for an inner level, drop_leaf_level when *)
(* the level is the current leaf level - and, when the leaf level changed, *)
(* adds up the rows of the old leaves under every new leaf.                *)
(***************************************************************************)
EXTENDS Taxonomy

Unknown == 99      \* a level name that is in no hierarchy

Kept(H) == {H[i] : i \in 1..Len(H)}

\* the refusals, in the order the code tests them; "empty" is the request that keeps nothing:
\* its last step would have to drop the only level of a flat tree; "nothing_to_drop" is a request that names
\* every level and is not the hierarchy itself (a level repeated): the code has no tree to write and stops
\* with an unbound-variable error before it opens the output
ToDrop(T, H) == SelectSeq(T.hier, LAMBDA l : l \notin {H[i] : i \in 1..Len(H)})
Outcome(T, H) ==
    IF H = T.hier THEN "same"
    ELSE IF \E i \in 1..Len(H) : H[i] \notin Levels(T) THEN "unknown"
    ELSE IF \E i \in 1..(Len(H) - 1) : Pos(T, H[i]) > Pos(T, H[i + 1]) THEN "shuffled"
    ELSE IF Len(H) = 0 THEN "empty"
    ELSE IF ToDrop(T, H) = <<>> THEN "nothing_to_drop"
    ELSE "ok"

\* TaxonomyTree.drop_leaf_level: the parents of the leaves become the leaves and own their cells
DropLeaf(T) ==
    LET L  == Len(T.hier)
        ll == T.hier[L]
        pl == T.hier[L - 1]
        newLevels == Levels(T) \ {ll}
    IN  [hier  |-> SubSeq(T.hier, 1, L - 1), keys |-> T.keys \ {ll},
         nodes |-> [l \in newLevels |-> T.nodes[l]],
         kids  |-> [l \in newLevels |-> IF l = pl THEN [p \in T.nodes[pl] |-> {}] ELSE T.kids[l]],
         cells |-> [p \in T.nodes[pl] |-> UNION {T.cells[c] : c \in T.kids[pl][p]}]]

RECURSIVE TruncBy(_, _)
TruncBy(T, ds) ==
    IF ds = <<>> THEN T
    ELSE LET l == Head(ds) IN
         TruncBy(IF l = LeafLevel(T) THEN DropLeaf(T) ELSE DropLevel(T, l), Tail(ds))

\* the tree the code writes (request accepted)
NewTree(T, H) == TruncBy(T, ToDrop(T, H))

\* ... and what it has to be, said without reference to the order of the steps: the kept levels with their
\* nodes, every node linked to its descendants at the next kept level, the nodes of the last kept level owning
\* the cells of the leaves below them
DescAt(T, lev, p, lev2) == {c \in T.nodes[lev2] : AncestorAt(T, lev2, c, lev) = p}
Direct(T, K) ==        \* K : set of kept levels, non-empty
    LET hs == SelectSeq(T.hier, LAMBDA l : l \in K)
        nl == hs[Len(hs)]
        NextKept(l) == hs[(CHOOSE i \in 1..Len(hs) : hs[i] = l) + 1]
    IN  [hier  |-> hs, keys |-> K,
         nodes |-> [l \in K |-> T.nodes[l]],
         kids  |-> [l \in K |-> IF l = nl THEN [p \in T.nodes[l] |-> {}]
                                ELSE [p \in T.nodes[l] |-> DescAt(T, l, p, NextKept(l))]],
         cells |-> [n \in T.nodes[nl] |-> UNION {T.cells[c] : c \in LeavesUnder(T, nl, n)}]]

\* additive statistics: f maps every leaf of T to a sequence of numbers (all of one length)
NewLeafLevel(T, H) == LeafLevel(NewTree(T, H))
SumOver(f, S, k) == FoldSet(LAMBDA x, acc : acc + f[x][k], 0, S)
Width(f) == IF DOMAIN f = {} THEN 0 ELSE Len(f[CHOOSE x \in DOMAIN f : TRUE])
NewStats(T, H, f) ==
    LET nl == NewLeafLevel(T, H) IN
    [m \in T.nodes[nl] |-> [k \in 1..Width(f) |-> SumOver(f, LeavesUnder(T, nl, m), k)]]
=============================================================================
