------------------------------ MODULE Pipeline_MC ------------------------------
(***************************************************************************)
(* The centroid lemma, exhaustively for small vectors: whenever the query  *)
(* equals the profile of leaf 1, is not constant on the drawn genes and no *)
(* other leaf is perfectly correlated with it there, leaf 1 is the unique  *)
(* nearest centroid in the sense of Election!Best (the semantics C02 binds *)
(* to the code).  Also: a leaf that IS perfectly correlated ties, so the   *)
(* premise cannot be weakened.                                             *)
(***************************************************************************)
EXTENDS Pipeline, TLC
CONSTANTS NG, V, NL      \* genes, maximal value, leaves
Vecs == [1..NG -> 0..V]
Draws == {S \in SUBSET (1..NG) : Cardinality(S) >= 1}
VARIABLES M, picked
vars == <<M, picked>>
Init == M = [l \in 1..NL |-> [g \in 1..NG |-> 0]] /\ picked = FALSE
Pick == ~picked /\ picked' = TRUE /\ M' \in [1..NL -> Vecs]
Spec == Init /\ [][Pick]_vars
Lemma == picked => \A S \in Draws : LemmaAt(M[1], M, 1, S)
\* the premise is needed: a perfectly correlated other leaf is also a best leaf
Tight == picked => \A S \in Draws : \A b \in 2..NL :
            (Var(M[1], S) > 0 /\ CorrIsOne(M[1], M[b], S)) => b \in Best(M[1], M, S)
\* a constant query has correlation 0 with everything: every leaf ties
ConstTies == picked => \A S \in Draws : Var(M[1], S) = 0 => Best(M[1], M, S) = 1..NL
=============================================================================
