----------------------------- MODULE Winnow_Trace -----------------------------
(***************************************************************************)
(* One NDJSON line per poll of scripted processes: {"mode", "codes":[..],  *)
(*  "events": [{"raised": bool, "code": int, "key": idx (0: none),            *)
(*   "remaining": [idx..], "terminated": [idx..], "joined": [idx..]}]}.    *)
(* Clause numbers 38xx.                                                    *)
(***************************************************************************)
EXTENDS Winnow, TLC, Json, IOUtils
Traces == ndJsonDeserialize(IOEnv.TRACE_FILE)
N == Len(Traces)
VARIABLES tid, l
tvars == <<tid, l>>
Stop(code) == TLCSet(N + tid, code) /\ FALSE
SetOf(s) == {s[i] : i \in 1..Len(s)}
Asc(s) == \A i \in 1..(Len(s) - 1) : s[i] < s[i + 1]
TInit == tid \in 1..N /\ l = 1
Matches(m, c, e) ==
    IF ~(e.raised = Raised(m, c)) THEN 3801                                      \* raised / returned
    ELSE IF Raised(m, c) /\ ~(e.code = RaisedCode(m, c)) THEN 3802               \* which exit code the message names
    ELSE IF ~(SetOf(e.remaining) = Remaining(m, c) /\ Asc(e.remaining)) THEN 3803  \* who is still in the container, in order
    ELSE IF ~(SetOf(e.terminated) = Terminated(m, c)) THEN 3804                  \* who was stopped
    ELSE IF ~(SetOf(e.joined) = Joined(m, c)) THEN 3805                          \* who was waited for
    ELSE IF Raised(m, c) /\ m = "dict" /\ ~(e.key = DictCulprit(c)) THEN 3806     \* the dictionary version names the failing key
    ELSE 0
Step == /\ l <= Len(Traces[tid].events)
        /\ LET c == Matches(Traces[tid].mode, Traces[tid].codes, Traces[tid].events[l]) IN IF c = 0 THEN TRUE ELSE Stop(c)
        /\ l' = l + 1 /\ UNCHANGED tid
TSpec == TInit /\ [][Step]_tvars
ASSUME \A i \in 1..(2 * N) : TLCSet(i, 0)
Track == IF TLCGet(tid) < l THEN TLCSet(tid, l) ELSE TRUE
Report == \A i \in 1..N : PrintT(<<"VERDICT", i, TLCGet(i), Len(Traces[i].events) + 1, TLCGet(N + i)>>)
=============================================================================
