------------------------------ MODULE Winnow_MC ------------------------------
EXTENDS Winnow, TLC, Json
CONSTANTS Codes, MaxN
CodeSet == {99, 0, 1, -9}
VARIABLES mode, codes
MCInit == mode \in {"list", "dict"} /\ codes \in UNION {[1..n -> Codes] : n \in 0..MaxN}
MCNext == UNCHANGED <<mode, codes>>
MCSpec == MCInit /\ [][MCNext]_<<mode, codes>>
InvNeverSilent == NeverSilent(mode, codes)
InvNoOrphans == NoOrphans(mode, codes)
InvSurvivorsKept == SurvivorsKept(mode, codes)
InvQuiet == QuietPollOnlyDropsFinished(mode, codes)
Emit == PrintT(<<"SCN", ToJson([mode |-> mode, codes |-> codes])>>)
=============================================================================
