---------------------------- MODULE Selection_Trace ----------------------------
(***************************************************************************)
(* Hook events of the real selection loop (SelFilled, SelChose) and the    *)
(* returned marker list, per parent node, against Selection.tla.  The      *)
(* relevant pairs are derived by the spec from the taxonomy (Taxonomy.tla: *)
(* LeafPairs); the marker table comes from the reference-marker FILE as    *)
(* read by the harness, not from the code's in-memory array.               *)
(* One NDJSON line per (run, parent):                                      *)
(*  {"tree", "parent":[lev,node], "Nper", "qgenes":[..],                   *)
(*   "table": [[a, b, [up genes], [down genes]], ..],   all leaf pairs     *)
(*   "pairs": [[a,b], ..]          pairs the code worked on                *)
(*   "events": [{"op":"filled","slots":[[a,b,d],..]}, {"op":"chose","g":g},*)
(*              ..., {"op":"end","result":[g, ..]}]}                       *)
(* Clause numbers 12xx.                                                    *)
(***************************************************************************)
EXTENDS Selection, Taxonomy, Json, IOUtils

Traces == ndJsonDeserialize(IOEnv.TRACE_FILE)
N == Len(Traces)
VARIABLES tid, l, chosen, filled, nfilled, picks
vars == <<tid, l, chosen, filled, nfilled, picks>>
Rng(s) == {s[i] : i \in 1..Len(s)}

TreeOf(j) ==
    LET L == Len(j.hier)
        idx(lv) == CHOOSE i \in 1..L : j.hier[i] = lv
        lv == Rng(j.keys)
    IN [hier  |-> j.hier, keys |-> lv,
        nodes |-> [x \in lv |-> Rng(j.nodes[idx(x)])],
        kids  |-> [x \in lv |-> [n \in Rng(j.nodes[idx(x)]) |->
                     LET e == CHOOSE i \in 1..Len(j.kids[idx(x)]) : j.kids[idx(x)][i][1] = n
                     IN Rng(j.kids[idx(x)][e][2])]],
        cells |-> [n \in Rng(j.nodes[L]) |-> {}]]

T == Traces[tid]
Ev == T.events
Par == <<T.parent[1], T.parent[2]>>
Pairs == LeafPairs(TreeOf(T.tree), Par)          \* sets {a, b}
Row(p) == CHOOSE i \in 1..Len(T.table) : {T.table[i][1], T.table[i][2]} = p
HasRow(p) == \E i \in 1..Len(T.table) : {T.table[i][1], T.table[i][2]} = p
Genes == Rng(T.qgenes) \cap UNION {Rng(T.table[i][3]) \cup Rng(T.table[i][4]) : i \in 1..Len(T.table)}
table == [p \in Pairs |-> [g \in Genes |->
            IF ~HasRow(p) THEN 0
            ELSE IF g \in Rng(T.table[Row(p)][3]) THEN 1
            ELSE IF g \in Rng(T.table[Row(p)][4]) THEN 2 ELSE 0]]
Slots(s) == {<<{s[i][1], s[i][2]}, s[i][3]>> : i \in 1..Len(s)}

Init == tid \in 1..N /\ l = 1 /\ chosen = {} /\ filled = {} /\ nfilled = 0 /\ picks = 0
ASSUME \A i \in 1..(2 * N) : TLCSet(i, 0)
Stop(c) == TLCSet(N + tid, c) /\ FALSE
IsEvent(op) == l <= Len(Ev) /\ Ev[l].op = op /\ l' = l + 1 /\ UNCHANGED tid

EvFilled ==
    /\ IsEvent("filled")
    /\ LET want == NewFilled(table, Pairs, Genes, T.Nper, chosen, filled)
           code == IF ~({{T.pairs[i][1], T.pairs[i][2]} : i \in 1..Len(T.pairs)} = Pairs) THEN 1201   \* relevant pairs
                   ELSE IF ~(Slots(Ev[l].slots) = want) THEN 1202                                       \* filled rule
                   ELSE IF ~(nfilled # 1 \/ DesperateGenes(table, Pairs, Genes, T.Nper) \subseteq chosen) THEN 1203
                   ELSE IF ~(nfilled < 2 \/ picks = 1) THEN 1204                                        \* one gene per update
                   ELSE 0
       IN IF code = 0 THEN filled' = want /\ nfilled' = nfilled + 1 /\ picks' = 0 /\ UNCHANGED chosen
          ELSE Stop(code)

EvChose ==
    /\ IsEvent("chose")
    /\ LET g == Ev[l].g
           code == IF ~(g \in Genes) THEN 1205                              \* not a query gene / not a marker
                   ELSE IF ~(g \notin chosen) THEN 1206                     \* chosen twice
                   ELSE IF nfilled = 1 THEN
                        (IF g \in DesperateGenes(table, Pairs, Genes, T.Nper) THEN 0 ELSE 1207)
                   ELSE IF ~(Util(table, Pairs, chosen, filled, g) = MaxUtil(table, Pairs, Genes, chosen, filled)
                             /\ Util(table, Pairs, chosen, filled, g) > 0) THEN 1208   \* not a maximal-utility gene
                   ELSE IF AllFilled(Pairs, filled) THEN 1209              \* kept choosing after everything was filled
                   ELSE 0
       IN IF code = 0 THEN chosen' = chosen \cup {g} /\ picks' = picks + 1 /\ UNCHANGED <<filled, nfilled>>
          ELSE Stop(code)

EvEnd ==
    /\ IsEvent("end")
    /\ LET res == Ev[l].result
           code == IF Pairs = {} THEN (IF Len(res) = 0 THEN 0 ELSE 1210)    \* nothing to discriminate
                   ELSE IF ~(Rng(res) = chosen /\ Len(res) = Cardinality(chosen)) THEN 1211   \* returned = chosen, no duplicates
                   ELSE IF ~(MaxUtil(table, Pairs, Genes, chosen, filled) <= 0 \/ AllFilled(Pairs, filled)) THEN 1212
                   ELSE IF ~Coverage(table, Pairs, Genes, T.Nper, chosen) THEN 1213          \* C12 coverage
                   ELSE IF ~Useful(table, Pairs, chosen) THEN 1214
                   ELSE IF ~(chosen \subseteq Rng(T.qgenes)) THEN 1215
                   ELSE 0
       IN IF code = 0 THEN UNCHANGED <<chosen, filled, nfilled, picks>> ELSE Stop(code)

Next == EvFilled \/ EvChose \/ EvEnd
Spec == Init /\ [][Next]_vars
Track == IF TLCGet(tid) < l THEN TLCSet(tid, l) ELSE TRUE
Report == \A i \in 1..N : PrintT(<<"VERDICT", i, TLCGet(i), Len(Traces[i].events) + 1, TLCGet(N + i)>>)
=============================================================================
