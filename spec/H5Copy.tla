------------------------------ MODULE H5Copy ------------------------------
(***************************************************************************)
(* copy_h5_excluding_data (utils/h5_utils.py): the HDF5 file copier used   *)
(* by validate_h5ad (layer -> X), merge_precompute_files and               *)
(* transcribe_to_obs.  Two mechanisms:                                     *)
(*                                                                         *)
(* 1. the walk: a file is a tree of groups and data sets addressed by      *)
(*    paths; the copier visits the top-level members and, recursively,     *)
(*    the members of every group it creates.  A data set is skipped when   *)
(*    ITS OWN path is in excluded_datasets, a group (with everything       *)
(*    below it) when ITS OWN path is in excluded_groups - a group named in *)
(*    excluded_datasets or a data set named in excluded_groups is copied.  *)
(*    Attributes travel with every object that is created; the attributes  *)
(*    of the file itself (the root group) are never visited.               *)
(* 2. the tiling: a chunked data set is copied tile by tile; along every   *)
(*    one of its d axes the index range is cut into runs of                *)
(*    max(1, min(per_dim, n)) where per_dim = ceil(max_elements^(1/d))     *)
(*    (d > 1; floating point, so a perfect power may round up by one) or   *)
(*    max_elements (d = 1); the tiles are the products of the runs.        *)
(***************************************************************************)
EXTENDS Integers, Sequences, FiniteSets, SequencesExt, TLC

\* ------------------------------------------------------------------ 1. the walk
\* a file: nodes  - set of paths (non-empty sequences of names), prefix-closed
\*         kind   - [nodes -> {"g", "d"}], data sets have no members
\*         val    - [nodes -> payload]  (attributes + content, compared as a whole)
PathPrefixes(p) == {SubSeq(p, 1, k) : k \in 1..Len(p)}
Members(S, p) == {q \in S.nodes : Len(q) = Len(p) + 1 /\ SubSeq(q, 1, Len(p)) = p}
WellFormed(S) == /\ \A p \in S.nodes : Len(p) >= 1 /\ PathPrefixes(p) \subseteq S.nodes
                 /\ \A p \in S.nodes : S.kind[p] = "d" => Members(S, p) = {}

Skipped(S, q, XG, XD) == (S.kind[q] = "g" /\ q \in XG) \/ (S.kind[q] = "d" /\ q \in XD)
Kept(S, XG, XD) == {p \in S.nodes : \A q \in PathPrefixes(p) : ~Skipped(S, q, XG, XD)}
Copy(S, XG, XD) == [nodes |-> Kept(S, XG, XD),
                    kind  |-> [p \in Kept(S, XG, XD) |-> S.kind[p]],
                    val   |-> [p \in Kept(S, XG, XD) |-> S.val[p]]]

\* ------------------------------------------------------------------ 2. the tiling
Min2(a, b) == IF a < b THEN a ELSE b
Max2(a, b) == IF a > b THEN a ELSE b
RECURSIVE Pow(_, _)
Pow(b, e) == IF e = 0 THEN 1 ELSE b * Pow(b, e - 1)
\* least r with r^d >= m
CeilRoot(m, d) == CHOOSE r \in 1..Max2(m, 1) : Pow(r, d) >= m /\ (r = 1 \/ Pow(r - 1, d) < m)
\* the values per_dim may take (rounding of the floating-point root: exact, or one above at a perfect power)
PerDim(m, d) == IF d = 1 THEN {m}
                ELSE LET r == CeilRoot(m, d) IN IF Pow(r, d) = m THEN {r, r + 1} ELSE {r}
\* runs along an axis of length n with run length c : <<i0, i1>> half-open
Runs(n, c) == {<<i0, Min2(i0 + c, n)>> : i0 \in {k * c : k \in 0..(n \div c)} \cap 0..(n - 1)}
RunLen(n, per) == Max2(1, Min2(per, n))
\* shape : sequence of axis lengths; the tiling for one admissible per_dim
Tiling(shape, per) == [a \in 1..Len(shape) |-> Runs(shape[a], RunLen(shape[a], per))]

\* what the copy relies on: along every axis the runs partition 0..n-1 into non-empty intervals
PartitionOK(n, runs) ==
    /\ \A r \in runs : 0 <= r[1] /\ r[1] < r[2] /\ r[2] <= n
    /\ \A i \in 0..(n - 1) : Cardinality({r \in runs : r[1] <= i /\ i < r[2]}) = 1
=============================================================================
