---------------------------- MODULE MapLifecycle ----------------------------
(***************************************************************************)
(* What a mapping run owns while it lives, and what is left when it ends   *)
(* (cli/from_specified_markers.py: run_mapping, _run_mapping) - the run as *)
(* a state machine with a failure possible at every step.                  *)
(*                                                                         *)
(*   start -> checked -> perrun -> buffer -> cached -> mapped -> written   *)
(*         \-> refused        \________ any step may fail ________/        *)
(*                                        |                                *)
(*                                     finally -> done / raised            *)
(*                                                                         *)
(* owned : what the run has created and not yet removed:                   *)
(*   "perrun"  its per-run directory cell_type_mapper_<time>_* (in the     *)
(*             scratch directory it was given - or, when none was given,   *)
(*             in the system's temporary directory)                        *)
(*   "buffer"  the buffer of finished chunks result_buffer_*               *)
(*   "cache"   the query marker cache inside the per-run directory         *)
(* log, results, csv : what has been written to the requested outputs      *)
(*                                                                         *)
(* Two constants describe the code's design and are TRUE / "check_first"   *)
(* for the code as it is; the other values are the two defects found on    *)
(* the way (F19: no per-run directory without a scratch directory, so the  *)
(* cache was created directly in the system's temporary directory and      *)
(* nothing removed it; F23: the per-run directory was created before the   *)
(* outputs were checked, and the refusal skips the finally block).  TLC    *)
(* refutes NothingLeft for both (MapLifecycle_MC).                         *)
(***************************************************************************)
EXTENDS FiniteSets, TLC

CONSTANTS Given,          \* BOOLEAN: was a scratch directory configured
          PerRunAlways,   \* BOOLEAN: the per-run directory is created whether or not a scratch directory was given
          Order,          \* "check_first" | "mkdir_first"
          Faults          \* the steps that may fail in this model run: subset of Steps
Steps == {"check", "perrun", "buffer", "cache", "map", "write"}

VARIABLES pc, owned, log, results, csv, failed
vars == <<pc, owned, log, results, csv, failed>>

Init == pc = "start" /\ owned = {} /\ log = FALSE /\ results = FALSE /\ csv = FALSE /\ failed = FALSE

HasPerRun == Given \/ PerRunAlways

\* the outputs are checked for writability OUTSIDE the try/finally: a refusal ends the run at once
Check ==
    /\ pc = (IF Order = "check_first" THEN "start" ELSE "perrun_made")
    /\ \/ "check" \in Faults /\ pc' = "raised" /\ failed' = TRUE /\ UNCHANGED <<owned, log, results, csv>>
       \/ pc' = (IF Order = "check_first" THEN "checked" ELSE "ready") /\ UNCHANGED <<owned, log, results, csv, failed>>
MakePerRun ==
    /\ pc = (IF Order = "check_first" THEN "checked" ELSE "start")
    /\ owned' = (IF HasPerRun THEN owned \cup {"perrun"} ELSE owned)
    /\ pc' = (IF Order = "check_first" THEN "ready" ELSE "perrun_made")
    /\ UNCHANGED <<log, results, csv, failed>>
\* from here on everything happens inside try / finally
Fail(step) == step \in Faults /\ pc' = "finally" /\ failed' = TRUE
MakeBuffer == /\ pc = "ready"
              /\ \/ Fail("buffer") /\ UNCHANGED <<owned, log, results, csv>>
                 \/ owned' = owned \cup {"buffer"} /\ pc' = "buffered" /\ UNCHANGED <<log, results, csv, failed>>
\* the marker cache lives inside the per-run directory when there is one; otherwise it is a file of its own
CacheMarkers == /\ pc = "buffered"
                /\ \/ Fail("cache") /\ UNCHANGED <<owned, log, results, csv>>
                   \/ owned' = owned \cup {"cache"} /\ pc' = "cached" /\ UNCHANGED <<log, results, csv, failed>>
Map == /\ pc = "cached"
       /\ \/ Fail("map") /\ UNCHANGED <<owned, log, results, csv>>
          \/ pc' = "mapped" /\ UNCHANGED <<owned, log, results, csv, failed>>
Write == /\ pc = "mapped"
         /\ \/ Fail("write") /\ UNCHANGED <<owned, log, results, csv>>
            \/ results' = TRUE /\ csv' = TRUE /\ pc' = "finally" /\ UNCHANGED <<owned, log, failed>>
\* finally: the buffer and the per-run directory (with everything in it) are removed, the log is written
Finally ==
    /\ pc = "finally"
    /\ owned' = (IF HasPerRun THEN {} ELSE owned \ {"buffer"})       \* a cache outside a per-run directory is nobody's
    /\ log' = TRUE
    /\ pc' = (IF failed THEN "raised" ELSE "done")
    /\ UNCHANGED <<results, csv, failed>>
Next == Check \/ MakePerRun \/ MakeBuffer \/ CacheMarkers \/ Map \/ Write \/ Finally
Spec == Init /\ [][Next]_vars

Ended == pc \in {"done", "raised"}
NothingLeft == Ended => owned = {}
RaisedHasNoResults == pc = "raised" => ~results /\ ~csv
DoneHasEverything == pc = "done" => results /\ csv /\ log
\* a refused run (stopped before the try block) writes nothing at all
RefusedWritesNothing == (pc = "raised" /\ ~log) => (~results /\ ~csv)

\* what an observer sees at the end, as a function of the one step that fails ("none": no step fails)
Expected(fault) ==
    [outcome |-> IF fault = "none" THEN "done" ELSE "raised",
     left    |-> {},
     log     |-> fault # "check",
     results |-> fault = "none"]
=============================================================================
