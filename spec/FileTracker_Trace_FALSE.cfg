SPECIFICATION TSpec
CONSTANTS Paths = {"a", "b"} UseTmp = FALSE MaxOps = 99
CONSTRAINT Track
POSTCONDITION Report
CHECK_DEADLOCK FALSE
