SPECIFICATION TSpec
CONSTANTS Msgs = {"m", "p"} MaxOps = 99
CONSTRAINT Track
POSTCONDITION Report
CHECK_DEADLOCK FALSE
