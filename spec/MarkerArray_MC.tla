-------------------------- MODULE MarkerArray_MC --------------------------
(***************************************************************************)
(* Every file over NG genes and NP pairs (each gene/pair combination: no   *)
(* marker, up, down), every history of <= MaxOps operations: load with any *)
(* query gene set, keep any non-empty sequence of distinct gene rows, keep *)
(* any sequence of distinct pairs (any order).                             *)
(***************************************************************************)
EXTENDS MarkerArray, TLC, Json

CONSTANTS NG, NP, MaxOps

VARIABLES F, A, n, last, hist
vars == <<F, A, n, last, hist>>

Genes == 1..NG
Pairs == 1..NP
Foreign == NG + 1          \* a query gene the reference does not know

Files == {[genes |-> [i \in Genes |-> i], pairs |-> [j \in Pairs |-> j],
           up |-> {x \in Genes \X Pairs : m[x] = 1}, down |-> {x \in Genes \X Pairs : m[x] = 2}]
             : m \in [Genes \X Pairs -> 0..2]}

Init == /\ F \in Files /\ A = LoadNaive(F) /\ n = 0 /\ last = "load" /\ hist = <<>>

DistinctSeqs(S) == {s \in BoundedSeq(S, Cardinality(S)) : Distinct(s)}

OpLoad(Q) == /\ LoadOutcome(F, Q) = "ok" /\ A' = LoadQuery(F, Q) /\ last' = "load"
OpGenes(idx) == /\ idx # <<>> /\ A' = DownGenes(A, idx) /\ last' = "genes"
OpPairs(ps) == /\ A' = DownPairs(A, ps) /\ last' = "pairs"

Next == /\ n < MaxOps /\ n' = n + 1 /\ UNCHANGED <<F, hist>>
        /\ \/ \E Q \in SUBSET (Genes \cup {Foreign}) : OpLoad(Q)
           \/ \E idx \in DistinctSeqs(1..Len(A.genes)) : OpGenes(idx)
           \/ \E ps \in DistinctSeqs(SRng(A.pairs)) : OpPairs(ps)
Spec == Init /\ [][Next]_vars

InvWellFormed == WellFormedFile(F)
InvViewsAgree == ViewsAgree(A)
InvNeverBoth  == NeverBoth(A)
InvFaithful   == Faithful(A, F)
InvNames      == Distinct(A.genes) /\ Distinct(A.pairs) /\ SRng(A.genes) \subseteq Genes /\ SRng(A.pairs) \subseteq Pairs
\* down-sampling genes then pairs = pairs then genes (same array, view by view)
InvCommute == \A idx \in DistinctSeqs(1..Len(A.genes)) : \A ps \in DistinctSeqs(SRng(A.pairs)) :
                 idx # <<>> => DownPairs(DownGenes(A, idx), ps) = DownGenes(DownPairs(A, ps), idx)
\* a load with query genes = the naive load followed by keeping the matching rows
InvLoadIsThin == n = 0 => \A Q \in SUBSET (Genes \cup {Foreign}) :
                   LoadOutcome(F, Q) = "ok" => LoadQuery(F, Q) = DownGenes(LoadNaive(F), Mask(F, Q))
----------------------------------------------------------------------------
\* scenario emission: every history of MaxOps operations, with the operations recorded
GenNext == /\ n < MaxOps /\ n' = n + 1 /\ UNCHANGED F
           /\ \/ \E Q \in SUBSET (Genes \cup {Foreign}) :
                    OpLoad(Q) /\ hist' = Append(hist, [op |-> "load", arg |-> SetToSortSeq(Q, <)])
              \/ \E idx \in DistinctSeqs(1..Len(A.genes)) :
                    OpGenes(idx) /\ hist' = Append(hist, [op |-> "genes", arg |-> idx])
              \/ \E ps \in DistinctSeqs(SRng(A.pairs)) :
                    OpPairs(ps) /\ hist' = Append(hist, [op |-> "pairs", arg |-> ps])
FileJson == [genes |-> F.genes, pairs |-> F.pairs, up |-> SetToSeq(F.up), down |-> SetToSeq(F.down)]
Emit == (n = MaxOps) => PrintT(<<"SCN", ToJson([file |-> FileJson, ops |-> hist])>>)
GenSpec == Init /\ [][GenNext]_vars
=============================================================================
