SPECIFICATION MCSpec
CONSTANTS Paths = {"a", "b"} UseTmp = FALSE MaxOps = 3
INVARIANT InputsUntouchedWhileAlive
INVARIANT PreExistingNeverOverwritten
INVARIANT OutputsDelivered
INVARIANT ScratchGone
INVARIANT OnlyRequestedCreated
CHECK_DEADLOCK FALSE
