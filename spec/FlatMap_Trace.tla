---------------------------- MODULE FlatMap_Trace ----------------------------
(***************************************************************************)
(* Real calls of corrmap_cells / correlate_cells against FlatMap.          *)
(* One NDJSON line per call:                                               *)
(*  {"mode": "corrmap"|"matrix", "ref": [genes], "q": [genes],             *)
(*   "has": bool, "markers": [genes], "M": [[cluster, [values over ref]]], *)
(*   "cells": [[id, [values over q]]], "ok": bool, "kind": error kind,     *)
(*   "recs": [[id, cluster]], "rows": [{"id", "top": [clusters]}],         *)
(*   "cols_ok": bool}                                                      *)
(* Clause numbers 22xx.                                                    *)
(***************************************************************************)
EXTENDS FlatMap, TLC, Json, IOUtils
Traces == ndJsonDeserialize(IOEnv.TRACE_FILE)
N == Len(Traces)
VARIABLES tid, l
vars == <<tid, l>>
Rng(s) == {s[i] : i \in 1..Len(s)}
Pos(s, x) == CHOOSE i \in 1..Len(s) : s[i] = x
Err(t) ==
    LET refG == Rng(t.ref) qG == Rng(t.q) mk == Rng(t.markers)
        want == PrepError(refG, qG, mk, t.has)
        U == Used(refG, qG, mk, t.has)
        \* vectors as functions over gene NAMES
        M == [c \in {t.M[i][1] : i \in 1..Len(t.M)} |->
                 [g \in refG |-> t.M[CHOOSE i \in 1..Len(t.M) : t.M[i][1] = c][2][Pos(t.ref, g)]]]
        cells == [c \in {t.cells[i][1] : i \in 1..Len(t.cells)} |->
                 [g \in qG |-> t.cells[CHOOSE i \in 1..Len(t.cells) : t.cells[i][1] = c][2][Pos(t.q, g)]]]
    IN
    IF ~(t.ok = (want = "ok")) THEN 2201                                   \* fails exactly when the rule says so
    ELSE IF ~t.ok THEN (IF t.kind = want THEN 0 ELSE 2208)                 \* for the stated reason
    ELSE IF t.mode = "corrmap" THEN
        CorrmapErr([i \in 1..Len(t.recs) |-> <<t.recs[i][1], t.recs[i][2]>>], cells, M, U)
    ELSE IF ~t.cols_ok THEN 2205                                           \* columns follow the cluster table
    ELSE MatrixErr([i \in 1..Len(t.rows) |-> [id |-> t.rows[i].id, top |-> Rng(t.rows[i].top)]],
                   [i \in 1..Len(t.cells) |-> t.cells[i][1]], cells, M, U)
ASSUME \A i \in 1..(2 * N) : TLCSet(i, 0)
Init == tid \in 1..N /\ l = 1
Step == /\ l = 1
        /\ LET c == Err(Traces[tid]) IN
           IF c = 0 THEN l' = 2 /\ UNCHANGED tid ELSE TLCSet(N + tid, c) /\ FALSE
Spec == Init /\ [][Step]_vars
Track == IF TLCGet(tid) < l THEN TLCSet(tid, l) ELSE TRUE
Report == \A i \in 1..N : PrintT(<<"VERDICT", i, TLCGet(i), 2, TLCGet(N + i)>>)
=============================================================================
