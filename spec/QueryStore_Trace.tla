--------------------------- MODULE QueryStore_Trace ---------------------------
(***************************************************************************)
(* Real histories of mapping runs on one query file against QueryStore and *)
(* the obsm view of Outputs.  One NDJSON line per history:                 *)
(*  {"hier", "leaf", "named", "foreign": [keys],                           *)
(*   "events": [{"key", "clobber", "ok", "json": [[entry..]..] (per cell), *)
(*               "base_same": bool, "foreign_same": bool,                  *)
(*               "keys": [..], "views": [[key, ids_ok, [[row entry..]..]]], *)
(*               "tr": {transcription of the run into a new file}}]}       *)
(* Clause numbers 21xx (store) and 154x (view).                            *)
(***************************************************************************)
EXTENDS Outputs, TLC, Json, IOUtils
Traces == ndJsonDeserialize(IOEnv.TRACE_FILE)
N == Len(Traces)
VARIABLES tid, l, owners
vars == <<tid, l, owners>>
NoneKey == "none"
Rng(s) == {s[i] : i \in 1..Len(s)}
Entry(x) == [lev |-> x.lev, a |-> x.a, k |-> x.k, direct |-> x.direct, f |-> x.f,
             ru |-> [i \in 1..Len(x.ru) |-> <<x.ru[i][1], x.ru[i][2]>>]]
Entries(s) == [i \in 1..Len(s) |-> Entry(s[i])]
ORow(s) == [i \in 1..Len(s) |-> [lev |-> s[i].lev, label |-> s[i].label, name |-> s[i].name, alias |-> s[i].alias,
                                  k |-> s[i].k, direct |-> s[i].direct, f |-> s[i].f,
                                  ru |-> [r \in 1..Len(s[i].ru) |-> <<s[i].ru[r][1], s[i].ru[r][2]>>]]]
Stop(code) == TLCSet(N + tid, code) /\ FALSE

Init == tid \in 1..N /\ l = 1 /\ owners = [k \in Rng(Traces[tid].foreign) |-> 0]

Expected(o, e) == e.key = NoneKey \/ e.key \notin DOMAIN o \/ e.clobber
NextOwners(o, e, r) == IF e.key = NoneKey \/ ~Expected(o, e) THEN o
                       ELSE [k \in (DOMAIN o) \cup {e.key} |-> IF k = e.key THEN r ELSE o[k]]
ViewErr(t, e, o) ==
    LET NameF(lev, a) == IF t.named THEN 1000 + a ELSE a
        AliasF(lev, a) == IF t.named THEN 2000 + a ELSE a
        errs == UNION {
            LET v == e.views[i]
                owner == o[v[1]]
                js == t.events[owner].json
            IN  IF owner = 0 THEN {}
                ELSE IF ~v[2] THEN {2107}                                  \* rows are not the cells in obs order
                ELSE IF Len(v[3]) # Len(js) THEN {2108}
                ELSE {ObsmErr(Entries(js[c]), ORow(v[3][c]), t.hier, t.leaf, NameF, AliasF) : c \in 1..Len(js)}
            : i \in 1..Len(e.views)} \ {0}
    IN IF errs = {} THEN 0 ELSE CHOOSE x \in errs : \A y \in errs : x <= y
\* transcribe_to_obs after the run: the result copied into the obs table of a NEW file
\*   e.tr = [done, ok, ids_ok, rows, rest_same, again_refused, again_clobber_ok, dup_refused]
TrErr(t, e) ==
    LET NameF(lev, a) == IF t.named THEN 1000 + a ELSE a
        AliasF(lev, a) == IF t.named THEN 2000 + a ELSE a
    IN
    IF ~e.tr.done THEN 0
    ELSE IF ~e.tr.ok THEN 2110                                             \* a successful run could not be transcribed
    ELSE IF ~e.tr.ids_ok THEN 2107
    ELSE IF Len(e.tr.rows) # Len(e.json) THEN 2108
    ELSE LET errs == {ObsmErr(Entries(e.json[c]), ORow(e.tr.rows[c]), t.hier, t.leaf, NameF, AliasF)
                         : c \in 1..Len(e.json)} \ {0} IN
         IF errs # {} THEN CHOOSE x \in errs : \A y \in errs : x <= y       \* the obs view is not the JSON result (154x)
         ELSE IF ~e.tr.rest_same THEN 2112                                 \* X / var / uns / obsm / old obs columns differ
         ELSE IF ~(e.tr.again_refused /\ e.tr.again_clobber_ok /\ e.tr.dup_refused) THEN 2113   \* overwrite rules
         ELSE 0
StepErr(t, e, o, r) ==
    LET o2 == NextOwners(o, e, r) IN
    IF ~(e.ok = Expected(o, e)) THEN 2101                                  \* succeeded / failed against the rule
    ELSE IF ~e.base_same THEN 2103                                         \* X / obs / var / uns / layers changed
    ELSE IF ~e.foreign_same THEN 2104                                      \* an obsm entry nobody named changed
    ELSE IF ~(Rng(e.keys) = DOMAIN o2) THEN 2102                           \* keys present differ
    ELSE IF ~(\A i \in 1..Len(e.views) : e.views[i][1] \in DOMAIN o2) THEN 2102
    ELSE IF ViewErr(t, e, o2) # 0 THEN ViewErr(t, e, o2)
    ELSE TrErr(t, e)
Step == /\ l <= Len(Traces[tid].events)
        /\ LET t == Traces[tid] e == t.events[l] c == StepErr(t, e, owners, l) IN
           IF c = 0 THEN owners' = NextOwners(owners, e, l) /\ l' = l + 1 /\ UNCHANGED tid
           ELSE Stop(c)
Spec == Init /\ [][Step]_vars
ASSUME \A i \in 1..(2 * N) : TLCSet(i, 0)
Track == IF TLCGet(tid) < l THEN TLCSet(tid, l) ELSE TRUE
Report == \A i \in 1..N : PrintT(<<"VERDICT", i, TLCGet(i), Len(Traces[i].events) + 1, TLCGet(N + i)>>)
=============================================================================
