SPECIFICATION Spec
CONSTANTS NP = 3 NR = 2 MaxIn = 4
INVARIANT InvScratchGone
INVARIANT InvOutputsIffRun
INVARIANT InvNoStaleConfig
INVARIANT InvPrivate
CHECK_DEADLOCK FALSE
