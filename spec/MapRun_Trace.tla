---------------------------- MODULE MapRun_Trace ----------------------------
(***************************************************************************)
(* Validation of real mapping runs against MapRun.tla.                     *)
(* One NDJSON line per run:                                                *)
(*  {"run": {tree, drop, flat, G, means:[[leaf,[..]]..], qg, Q, cells,     *)
(*           table:[[[lev,node],[genes]]..], B, fnum, fden, flk:[[lev,fnum,fden]..], K, chunk, P,   *)
(*           minm, votes},                                                 *)
(*   "events": [ {"op":"chunk", r0, r1, names},                            *)
(*               {"op":"node", parent, rows, genes, leaves, types, draws,  *)
(*                out:[{a,k,ru:[[c,k]..]}..]},  ...,                       *)
(*               {"op":"final", recs:[{id, lv:[{lev,a,direct,k,agg,hasRu}]}]} ]}*)
(* recorded by harness/maptrace.py from the guarded hooks (Visit, Genes,   *)
(* Draw, WStart) and the run's JSON output; the inputs in "run" are the    *)
(* files' content, not intermediates of the code.                          *)
(***************************************************************************)
EXTENDS MapRun, Json, IOUtils

Traces == ndJsonDeserialize(IOEnv.TRACE_FILE)
N == Len(Traces)

VARIABLES tid, l
vars == <<tid, l, run, R, recon, nextRow, cur, asg, vk, phase, errs>>

Rng(s) == {s[i] : i \in 1..Len(s)}

TreeOf(j) ==
    LET L == Len(j.hier)
        idx(lv) == CHOOSE i \in 1..L : j.hier[i] = lv
        lv == Rng(j.keys)
    IN [hier  |-> j.hier, keys |-> lv,
        nodes |-> [x \in lv |-> Rng(j.nodes[idx(x)])],
        kids  |-> [x \in lv |-> [n \in Rng(j.nodes[idx(x)]) |->
                     LET e == CHOOSE i \in 1..Len(j.kids[idx(x)]) : j.kids[idx(x)][i][1] = n
                     IN Rng(j.kids[idx(x)][e][2])]],
        cells |-> [n \in Rng(j.nodes[L]) |-> {}]]

RunOf(j) ==
    [T |-> TreeOf(j.tree), drop |-> j.drop, flat |-> j.flat, G |-> j.G,
     means |-> [lf \in {j.means[i][1] : i \in 1..Len(j.means)} |->
                  j.means[CHOOSE i \in 1..Len(j.means) : j.means[i][1] = lf][2]],
     qg |-> j.qg, Q |-> j.Q, cells |-> j.cells,
     table |-> [p \in {<<j.table[i][1][1], j.table[i][1][2]>> : i \in 1..Len(j.table)} |->
                  Rng(j.table[CHOOSE i \in 1..Len(j.table) :
                                  <<j.table[i][1][1], j.table[i][1][2]>> = p][2])],
     B |-> j.B, fnum |-> j.fnum, fden |-> j.fden,
     flk |-> [lv \in {j.flk[i][1] : i \in 1..Len(j.flk)} |->
                LET r == j.flk[CHOOSE i \in 1..Len(j.flk) : j.flk[i][1] = lv] IN <<r[2], r[3]>>],
     K |-> j.K, chunk |-> j.chunk, P |-> j.P,
     minm |-> j.minm, votes |-> j.votes, draws |-> j.draws]

Ev == Traces[tid].events

Init == /\ tid \in 1..N /\ l = 1 /\ MRInit(RunOf(Traces[tid].run))

\* registers 1..N: furthest matched line; N+1..2N: clause number that stopped the trace
ASSUME \A i \in 1..(2 * N) : TLCSet(i, 0)
Stop(code) == TLCSet(N + tid, code) /\ FALSE

IsEvent(op) == l <= Len(Ev) /\ Ev[l].op = op /\ l' = l + 1 /\ UNCHANGED tid

Par(e) == <<e.parent[1], e.parent[2]>>
OutOf(e) == [j \in 1..Len(e.out) |->
               [a |-> e.out[j].a, k |-> e.out[j].k,
                ru |-> [i \in 1..Len(e.out[j].ru) |-> <<e.out[j].ru[i][1], e.out[j].ru[i][2]>>]]]

EvChunk == /\ IsEvent("chunk")
           /\ LET e == Ev[l] c == ChunkErr(e.r0, e.r1, e.names) IN
              IF c = 0 THEN StartChunk(e.r0, e.r1, e.names) ELSE Stop(c)

EvNode == /\ IsEvent("node")
          /\ LET e == Ev[l]
                 c == NodeErr(Par(e), e.rows, e.genes, e.leaves, e.types, e.draws, OutOf(e))
             IN IF c = 0 THEN VisitNode(Par(e), e.rows, e.genes, e.leaves, e.types, e.draws, OutOf(e))
                ELSE Stop(c)

EvFinal == /\ IsEvent("final")
           /\ LET e == Ev[l] c == FinalErr(e.recs) IN
              IF c = 0 THEN Finish(e.recs) ELSE Stop(c)

EvFailed == /\ IsEvent("failed")
            /\ IF FailErr = 0 THEN Fail ELSE Stop(FailErr)

Next == EvChunk \/ EvNode \/ EvFinal \/ EvFailed
Spec == Init /\ [][Next]_vars

\* state invariants of MapRun evaluated on every observed state
Bad == IF ~TypeOK THEN 190 ELSE IF ~PathInv THEN 191 ELSE IF ~VotesInv THEN 390 ELSE 0
Track == IF Bad = 0 THEN (IF TLCGet(tid) < l THEN TLCSet(tid, l) ELSE TRUE)
         ELSE TLCSet(N + tid, Bad) /\ FALSE
Report == \A i \in 1..N : PrintT(<<"VERDICT", i, TLCGet(i), Len(Traces[i].events) + 1, TLCGet(N + i)>>)
=============================================================================
