SPECIFICATION Spec
CONSTANTS MaxLevels = 4 MaxLeaves = 6
INVARIANT InvAccepted
INVARIANT InvSameLeaves
INVARIANT InvAncestors
INVARIANT InvPartition
INVARIANT InvInverse
INVARIANT InvLeafPairs
INVARIANT InvPairsOnce
INVARIANT InvDropOrderIrrelevant
INVARIANT InvFlattenIsDropAll
INVARIANT InvVariantsClassified
CHECK_DEADLOCK FALSE
