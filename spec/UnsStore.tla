------------------------------ MODULE UnsStore ------------------------------
(***************************************************************************)
(* The unstructured-metadata table (uns) of an h5ad file as a key-value    *)
(* store (utils/anndata_utils.py: read_uns_from_h5ad, write_uns_to_h5ad,   *)
(* update_uns) and a statistics file parked in it and taken out again      *)
(* (utils/output_utils.py: precomputed_stats_to_uns,                       *)
(* uns_to_precomputed_stats; utils/utils.py: clean_for_uns_serialization,  *)
(* clean_for_uns_deserialization).                                         *)
(*                                                                         *)
(* uns    : the table, a function from the keys present to values          *)
(* rest   : everything else in the file (X, obs, var, layers, obsm) - one  *)
(*          opaque value that no action may change                         *)
(* last   : outcome of the last call                                       *)
(* stray  : files the last call left in the scratch directory other than   *)
(*          its result                                                     *)
(*                                                                         *)
(* A value is a small number or a parked statistics file (its label kind). *)
(* Statistics files differ in the kind of labels they use:                 *)
(*   "plain"  letters only      "slash"  some label contains /             *)
(*   "dollar" some label contains $                                        *)
(* Parking replaces / by $ in every dictionary KEY (anndata would read a / *)
(* as a group boundary), taking out replaces $ by / in every dictionary    *)
(* key.  Labels inside lists are left alone.  So a label with $ comes back *)
(* with / where it is a key and with $ where it is a list member: the      *)
(* deviation DollarBecomesSlash - modelled as the code behaves.            *)
(* Taking out creates its (empty) result file before it looks for the key: *)
(* a key that is not there leaves that empty file behind - the deviation   *)
(* MissingLeavesEmptyFile, also modelled as the code behaves.              *)
(***************************************************************************)
EXTENDS Integers, FiniteSets, TLC

CONSTANTS Keys, Nums, Kinds          \* Kinds \subseteq {"plain", "slash", "dollar"}
\* all values are strings (TLC compares like with like): Nums are "n1", "n2", ...; a parked file is its kind of labels
Vals == Nums \cup Kinds
IsStats(v) == v \in Kinds

VARIABLES uns, rest, last, stray
vars == <<uns, rest, last, stray>>

Init == uns = <<>> /\ rest = "rest" /\ last = "none" /\ stray = 0

Merge(old, new) == [k \in DOMAIN old \cup DOMAIN new |-> IF k \in DOMAIN new THEN new[k] ELSE old[k]]
Refused(new, clobber) == ~clobber /\ DOMAIN new \cap DOMAIN uns # {}

\* update_uns
Update(new, clobber) ==
    /\ IF Refused(new, clobber)
       THEN uns' = uns /\ last' = "refused"
       ELSE uns' = Merge(uns, new) /\ last' = "ok"
    /\ stray' = 0
    /\ UNCHANGED rest

\* precomputed_stats_to_uns: never overwrites
Store(key, kind) == Update([k \in {key} |-> kind], FALSE)

\* uns_to_precomputed_stats: reads, writes a NEW file next to it, changes nothing in this one
\* what comes back: "exact", or "dollar_moved" (keys that held $ now hold /, list members still hold $)
Back(kind) == IF kind = "dollar" THEN "dollar_moved" ELSE "exact"
Load(key) ==
    /\ last' = (IF key \notin DOMAIN uns THEN "missing"
                ELSE IF IsStats(uns[key]) THEN Back(uns[key]) ELSE "not_stats")
    /\ stray' = (IF key \in DOMAIN uns THEN 0 ELSE 1)
    /\ UNCHANGED <<uns, rest>>

News == UNION {[S -> Vals] : S \in (SUBSET Keys) \ {{}}}
Next == \/ \E new \in News, c \in BOOLEAN : Update(new, c)
        \/ \E k \in Keys, kind \in Kinds : Store(k, kind)
        \/ \E k \in Keys : Load(k)
Spec == Init /\ [][Next]_vars

TypeOK == DOMAIN uns \subseteq Keys /\ \A k \in DOMAIN uns : uns[k] \in Vals
\* nothing but the table ever changes
RestUntouched == [][rest' = rest]_vars
\* a refused call changes nothing; an accepted one changes only the keys it names; keys are never lost
RefusedUntouched == [][last' = "refused" => uns' = uns]_vars
KeysNeverLost == [][DOMAIN uns \subseteq DOMAIN uns']_vars
\* without permission to overwrite, a value that is there stays
NoSilentOverwrite == [][\A k \in DOMAIN uns : (uns'[k] # uns[k]) => last' = "ok"]_vars
\* a parked file without $ in its labels comes back exactly
RoundTripExact == \A kind \in Kinds : kind # "dollar" => Back(kind) = "exact"
MissingLeavesEmptyFile == [][stray' = 1 <=> last' = "missing"]_vars
DollarBecomesSlash == \A kind \in Kinds : kind = "dollar" => Back(kind) = "dollar_moved"
=============================================================================
