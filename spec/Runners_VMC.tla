---------------------------- MODULE Runners_VMC ----------------------------
(***************************************************************************)
(* Histories of validations through the command-line runner: the valid     *)
(* file of one validation is the input of the next.                        *)
(***************************************************************************)
EXTENDS Runners, Json

CONSTANTS MaxRuns, NMapped

VARIABLES f, hist, first
vars == <<f, hist, first>>
Dests == {"valid_path", "output_dir"}
Init == /\ f \in {[fixed |-> FALSE, unk |-> FALSE, rec |-> None3], [fixed |-> FALSE, unk |-> TRUE, rec |-> None3],
                  [fixed |-> TRUE, unk |-> FALSE, rec |-> None3]}
        /\ hist = <<>> /\ first = f
Run(dest, rw) ==
             /\ Len(hist) < MaxRuns
             /\ LET r == AfterValidate(f, dest, NMapped, rw) IN
                /\ f' = r.file /\ hist' = Append(hist, [dest |-> dest, kind |-> r.kind, rec |-> r.file.rec])
             /\ UNCHANGED first
Next == \E d \in Dests : \E rw \in (IF f.unk THEN BOOLEAN ELSE {FALSE}) : Run(d, rw)
Spec == Init /\ [][Next]_vars
\* after the first validation the content is valid for good, and a number once recorded never changes
InvFixedPoint == Len(hist) >= 1 => f.fixed
InvRecordStable == \A i, j \in 1..Len(hist) : (i < j /\ hist[i].rec # None3) => hist[j].rec = hist[i].rec
InvWrittenOnce == ~first.unk => \A i \in 2..Len(hist) : hist[i].kind # "written"
InvRecordTrue == \A i \in 1..Len(hist) : hist[i].rec \in {None3, NMapped}
Emit == (Len(hist) = MaxRuns) => PrintT(<<"SCN", ToJson([fixed |-> first.fixed, unk |-> first.unk, steps |-> hist])>>)
=============================================================================
