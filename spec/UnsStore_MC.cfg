SPECIFICATION Spec
CONSTANTS Keys <- MCKeys Nums <- MCNums Kinds <- MCKinds
INVARIANT TypeOK
PROPERTY RestUntouched
PROPERTY RefusedUntouched
PROPERTY KeysNeverLost
PROPERTY NoSilentOverwrite
PROPERTY MissingLeavesEmptyFile
CHECK_DEADLOCK FALSE
