---------------------------- MODULE RefMarkers_Trace ----------------------------
(***************************************************************************)
(* Reference-marker files written by the real stage (both routes) against  *)
(* RefMarkers.tla.  One NDJSON line per observation:                       *)
(*  kind "pair"  : {"c1":{"n","ge1":[..],"s":[..]}, "c2":{..}, "plo":[..], *)
(*                  "phi":[..], "T":{q1,qdiff,fold,q1min,qdiffmin,foldmin: *)
(*                  [num,den], pth}, "inlist":[..], "exact", "up":[..],    *)
(*                  "down":[..]}                                           *)
(*  kind "tables": {"bypair":[[pair,gene,dir]..], "bygene":[[pair,gene,dir]..]}*)
(*  kind "swap"  : {"up1","down1","up2","down2"} the same pair before and  *)
(*                  after renaming the clusters so that the pair swaps     *)
(* Clause numbers 11xx.                                                    *)
(***************************************************************************)
EXTENDS RefMarkers, Json, IOUtils
Traces == ndJsonDeserialize(IOEnv.TRACE_FILE)
N == Len(Traces)
VARIABLES tid, l
vars == <<tid, l>>
Rng(s) == {s[i] : i \in 1..Len(s)}
Cl(c) == [n |-> c.n, ge1 |-> c.ge1, s |-> c.s]
Th(t) == [q1 |-> <<t.q1[1], t.q1[2]>>, qdiff |-> <<t.qdiff[1], t.qdiff[2]>>, fold |-> <<t.fold[1], t.fold[2]>>,
          q1min |-> <<t.q1min[1], t.q1min[2]>>, qdiffmin |-> <<t.qdiffmin[1], t.qdiffmin[2]>>,
          foldmin |-> <<t.foldmin[1], t.foldmin[2]>>, pth |-> t.pth]
Err(t) ==
    IF t.kind = "pair" THEN
        LET G == 1..Len(t.plo)
            plo == [g \in G |-> t.plo[g]]
            phi == [g \in G |-> t.phi[g]]
        IN PairErr(Cl(t.c1), Cl(t.c2), G, plo, phi, Th(t.T), Rng(t.inlist), t.exact, Rng(t.up), Rng(t.down))
    ELSE IF t.kind = "tables" THEN
        (IF {<<t.bypair[i][1], t.bypair[i][2], t.bypair[i][3]>> : i \in 1..Len(t.bypair)}
              = {<<t.bygene[i][1], t.bygene[i][2], t.bygene[i][3]>> : i \in 1..Len(t.bygene)}
            /\ Len(t.bypair) = Len(t.bygene) THEN 0 ELSE 1110)           \* exact transposes
    ELSE IF t.kind = "swap" THEN
        (IF Rng(t.up1) = Rng(t.down2) /\ Rng(t.down1) = Rng(t.up2) THEN 0 ELSE 1111)   \* only the direction swaps
    ELSE 1199
ASSUME \A i \in 1..(2 * N) : TLCSet(i, 0)
Init == tid \in 1..N /\ l = 1
Step == /\ l = 1
        /\ LET c == Err(Traces[tid]) IN
           IF c = 0 THEN l' = 2 /\ UNCHANGED tid ELSE TLCSet(N + tid, c) /\ FALSE
Spec == Init /\ [][Step]_vars
Track == IF TLCGet(tid) < l THEN TLCSet(tid, l) ELSE TRUE
Report == \A i \in 1..N : PrintT(<<"VERDICT", i, TLCGet(i), 2, TLCGet(N + i)>>)
=============================================================================
