SPECIFICATION TSpec
CONSTANTS Given = TRUE PerRunAlways = TRUE Order = "check_first" Faults = {}
CONSTRAINT Track
POSTCONDITION Report
CHECK_DEADLOCK FALSE
