------------------------------- MODULE GeneId -------------------------------
(***************************************************************************)
(* Gene identifiers (gene_id/gene_id_mapper.py: GeneIdMapper,              *)
(* RandomNameGenerator; gene_id/utils.py: is_ensembl, detect_species;      *)
(* validation/utils.py: map_gene_ids_in_var; utils/cli_utils.py:           *)
(* _get_query_gene_names).                                                 *)
(*                                                                         *)
(* A gene list is a sequence of gene CLASSES; every position of a list     *)
(* holds its own gene (no name occurs twice):                              *)
(*   "ensM"  a mouse Ensembl identifier of the mouse table                 *)
(*   "ensMv" the same kind, written with a version suffix (.7)             *)
(*   "ensH"  a human Ensembl identifier of the human table                 *)
(*   "ensU"  well-formed Ensembl identifier that neither table knows       *)
(*   "ensUv" the same with a version suffix                                *)
(*   "symM"  a symbol only the mouse table knows                           *)
(*   "symH"  a symbol only the human table knows                           *)
(*   "symB"  a symbol both tables know                                     *)
(*   "unk"   a name nobody knows (and not shaped like an Ensembl id)        *)
(* A mapper is made for one species and numbers the placeholder names it   *)
(* hands out; the counter is state that survives calls - also calls that   *)
(* end with an error.                                                      *)
(***************************************************************************)
EXTENDS Integers, Sequences, FiniteSets, TLC

Classes == {"ensM", "ensMv", "ensH", "ensU", "ensUv", "symM", "symH", "symB", "unk"}
Species == {"mouse", "human"}

IsEns(c) == c \in {"ensM", "ensMv", "ensH", "ensU", "ensUv"}
Versioned(c) == c \in {"ensMv", "ensUv"}
Known(s, c) == \/ s = "mouse" /\ c \in {"symM", "symB"}
               \/ s = "human" /\ c \in {"symH", "symB"}
Unmappable(s, c) == ~IsEns(c) /\ ~Known(s, c)

Pos(list, P(_)) == {i \in 1..Len(list) : P(list[i])}
Cnt(list, S) == Cardinality({i \in 1..Len(list) : list[i] \in S})

(***************************************************************************)
(* Which species a list speaks of.  Ensembl identifiers decide before      *)
(* symbols; symbols by majority; a draw and a mix of Ensembl identifiers   *)
(* are refused; nothing known gives "none".                                *)
(***************************************************************************)
Detect(list) ==
    LET me == Cnt(list, {"ensM", "ensMv"})
        he == Cnt(list, {"ensH"})
        ms == Cnt(list, {"symM", "symB"})
        hs == Cnt(list, {"symH", "symB"})
    IN IF me > 0 /\ he > 0 THEN "error_both"
       ELSE IF me > 0 THEN "mouse"
       ELSE IF he > 0 THEN "human"
       ELSE IF ms > hs THEN "mouse"
       ELSE IF hs > ms THEN "human"
       ELSE IF ms > 0 THEN "error_tie"
       ELSE "none"

(***************************************************************************)
(* One call of map_gene_identifiers on a mapper of species s whose counter *)
(* stands at ct.                                                           *)
(***************************************************************************)
NUn(s, list) == Cardinality({i \in 1..Len(list) : Unmappable(s, list[i])})
Outcome(s, list, strict) ==
    IF Len(list) = 0 THEN "ok"
    ELSE IF NUn(s, list) = Len(list) THEN "refused_all"
    ELSE IF strict /\ NUn(s, list) > 0 THEN "refused_strict"
    ELSE "ok"
\* what stands at position i of the answer: the identifier itself without its version, the table's identifier, or
\* placeholder number ct + (unmappable genes before i)
Before(s, list, i) == Cardinality({j \in 1..(i - 1) : Unmappable(s, list[j])})
OutAt(s, list, ct, i) ==
    IF IsEns(list[i]) THEN [k |-> "kept", n |-> 0]
    ELSE IF Known(s, list[i]) THEN [k |-> "mapped", n |-> 0]
    ELSE [k |-> "ph", n |-> ct + Before(s, list, i)]
Out(s, list, ct) == [i \in 1..Len(list) |-> OutAt(s, list, ct, i)]
\* the counter moves for every unmappable gene met, whatever the outcome (the names are drawn inside the loop)
NextCt(s, list, ct) == ct + NUn(s, list)

(***************************************************************************)
(* Does the answer differ from the question (is the var table rewritten)?  *)
(***************************************************************************)
Changed(s, list) == \E i \in 1..Len(list) : ~IsEns(list[i]) \/ Versioned(list[i])
\* name of the new index column: the first of root, root_0, root_1, ... that the table does not have yet
\* (taken: which of root (0), root_0 (1), root_1 (2) exist)
RECURSIVE FirstFree(_, _)
FirstFree(taken, k) == IF k \notin taken THEN k ELSE FirstFree(taken, k + 1)
KeyIndex(taken) == FirstFree(taken, 0)

(***************************************************************************)
(* Resolving a whole table without being told the species (validation, or  *)
(* a mapping run with map_to_ensembl): detect, then map.                   *)
(***************************************************************************)
Resolve(list) ==
    LET d == Detect(list) IN
    IF d \in {"error_both", "error_tie", "none"} THEN [outcome |-> d, species |-> "none"]
    ELSE [outcome |-> Outcome(d, list, FALSE), species |-> d]

(***************************************************************************)
(* A mapper's life: calls one after the other.                             *)
(***************************************************************************)
CONSTANTS MaxLen, MaxCalls
Lists == UNION {[1..n -> Classes] : n \in 0..MaxLen}
VARIABLES sp, ct, issued, ncall
vars == <<sp, ct, issued, ncall>>
Init == sp \in Species /\ ct = 0 /\ issued = {} /\ ncall = 0
Call(list, strict) ==
    /\ ncall < MaxCalls
    /\ LET new == {Out(sp, list, ct)[i].n : i \in {j \in 1..Len(list) : Unmappable(sp, list[j])}} IN
       /\ issued' = issued \cup new
       /\ ct' = NextCt(sp, list, ct)
    /\ ncall' = ncall + 1
    /\ UNCHANGED sp
Next == \E list \in Lists, strict \in BOOLEAN : Call(list, strict)
Spec == Init /\ [][Next]_vars

\* a placeholder number is handed out once in a mapper's life
InvFresh == issued = 0..(ct - 1)
NeverReissued == [][\A list \in Lists :
                      \A i \in 1..Len(list) : Unmappable(sp, list[i]) => Out(sp, list, ct)[i].n \notin issued]_vars
\* static facts
Sound ==
    /\ \A s \in Species, list \in Lists :
         /\ Outcome(s, list, FALSE) = "ok" <=> (Len(list) = 0 \/ NUn(s, list) < Len(list))
         /\ \A i \in 1..Len(list) : IsEns(list[i]) => Out(s, list, 0)[i].k = "kept"        \* never touched but for its version
         /\ Cardinality({Out(s, list, 0)[i].n : i \in {j \in 1..Len(list) : Unmappable(s, list[j])}}) = NUn(s, list)
    /\ \A list \in Lists :
         \* a species is only named when the list holds something that species' table knows
         /\ Detect(list) = "mouse" => Cnt(list, {"ensM", "ensMv", "symM", "symB"}) > 0
         /\ Detect(list) = "human" => Cnt(list, {"ensH", "symH", "symB"}) > 0
         \* resolving never ends in "refused_all": the detected species knows at least one gene, or the id is kept
         /\ Resolve(list).outcome # "refused_all"
=============================================================================
