----------------------------- MODULE Outputs_MC -----------------------------
(***************************************************************************)
(* Round trip of the HDF5 encoding and the four-decimal rule, for every    *)
(* level entry over NN nodes, K runner-up slots and B iterations, and      *)
(* every node order (int_to_node table).                                   *)
(***************************************************************************)
EXTENDS Outputs, TLC
CONSTANTS NN, K, B
VARIABLES e, order, direct
vars == <<e, order, direct>>
Nodes == 1..NN
Perms == {o \in [1..NN -> Nodes] : \A i, j \in 1..NN : i # j => o[i] # o[j]}
RuSeqs == UNION {{s \in [1..n -> Nodes \X (1..B)] :
                     /\ \A i, j \in 1..n : i # j => s[i][1] # s[j][1]} : n \in 0..K}
Init == /\ order \in Perms /\ direct \in BOOLEAN
        /\ \E a \in Nodes, k \in 1..B, ru \in RuSeqs :
              /\ \A i \in 1..Len(ru) : ru[i][1] # a
              /\ e = [a |-> a, k |-> k, ru |-> IF direct THEN ru ELSE <<>>, direct |-> direct]
Next == UNCHANGED vars
Spec == Init /\ [][Next]_vars
RoundTrip == DecodeLevel(EncodeLevel(e, order, K), order, direct) = e
\* |v/10^4 - k/B| <= 1/2 * 10^-4   <=>   |v*B - k*10^4| * 2 <= B
Round4Close == \A v \in Round4(e.k, B) : LET d == v * B - e.k * 10000 IN
                  (IF d < 0 THEN -d ELSE d) * 2 <= B
=============================================================================
