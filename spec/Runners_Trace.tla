---------------------------- MODULE Runners_Trace ----------------------------
(***************************************************************************)
(* Real runs of the command-line runner classes against Runners.tla.       *)
(* One NDJSON line per observation:                                        *)
(*  names: {"kind":"names", "inputs":[{"path":p,"rest":r}], "clobber":b,   *)
(*          "dirOK":b, "existing":[{"salt":s,"rest":r,"what":"file"|"dir"}],*)
(*          "ok":b, "map":[{"path":p,"salt":s,"rest":r}], "back":b}        *)
(*  otf  : {"kind":"otf", "failat":"none"|step, "ok":b, "left":[..],       *)
(*          "outputs":[..], "config":"otf"|"mapping"|"none",               *)
(*          "same":b, "clean":b}                                           *)
(* Clause numbers 29xx.                                                    *)
(***************************************************************************)
EXTENDS Runners, Json, IOUtils
Traces == ndJsonDeserialize(IOEnv.TRACE_FILE)
N == Len(Traces)
VARIABLES tid, l
vars == <<tid, l>>
ErrNames(t) ==
    LET ex == [n \in {<<e.salt, e.rest>> : e \in SRng(t.existing)} |->
                  (CHOOSE e \in SRng(t.existing) : <<e.salt, e.rest>> = n).what]
        o  == NameOutcome(t.inputs, ex, t.clobber, t.dirOK)
    IN  IF t.ok # (o = "ok") THEN 2901                      \* accepted / refused against the rule
        ELSE IF ~t.ok THEN 0
        ELSE LET M == OutMap(t.inputs) IN
             IF {m.path : m \in SRng(t.map)} # DOMAIN M THEN 2902          \* keys are not the listed path texts
             ELSE IF \E m \in SRng(t.map) : <<m.salt, m.rest>> # M[m.path] THEN 2903   \* a name differs
             ELSE IF ~t.back THEN 2904        \* a written file does not name the statistics file it came from
             ELSE 0
ErrOtf(t) ==
    IF t.ok # (t.failat = "none") THEN 2911                 \* run ended well / badly against the injected fault
    ELSE IF t.left # <<>> THEN 2912                         \* something survives in the scratch directory
    ELSE IF t.ok /\ SRng(t.outputs) # {"json", "csv"} THEN 2913
    ELSE IF t.ok /\ t.config # "otf" THEN 2914              \* recorded configuration is not the on-the-fly one
    ELSE IF t.ok /\ ~t.same THEN 2915                       \* result differs from the three stages run one by one
    ELSE IF ~t.clean THEN 2916                              \* an absolute path of the run in a cloud-safe output
    ELSE 0
\* validate: {"kind":"validate", "fixed":b, "unk":b, "nmapped":n, "steps":[{"dest", "ok", "vkind", "same", "rec"}]}
RECURSIVE ErrVal(_, _, _)
ErrVal(t, i, f) ==
    IF i > Len(t.steps) THEN 0
    ELSE LET st == t.steps[i]
             rw == f.fixed /\ f.unk /\ st.vkind = "written"     \* placeholders renamed in another second
             r  == AfterValidate(f, st.dest, t.nmapped, rw)
         IN  IF ~st.ok THEN 2921                            \* the runner failed on a file it must accept
             ELSE IF st.vkind # r.kind THEN 2922            \* valid file is not the one the rule names (written / copy / input)
             ELSE IF ~st.same THEN 2923                     \* cells, genes or matrix of the valid file are not the expected ones
             ELSE IF st.rec # r.file.rec THEN 2924          \* recorded number of mapped genes differs
             ELSE ErrVal(t, i + 1, r.file)
\* datasets: {"kind":"datasets", "labels":[[chars]], "ok":b, "files":[{"label":[chars], "file":[chars]}],
\*            "merged":b (merged file named <stem>.combined<suffix>), "additive":b,
\*            "census":[{"total":n, "n":[per cluster]}] in path order, "mergedn":[..], "matches":[[file indices]..]}
ErrData(t) ==
    LET L == SRng(t.labels)
        o == DatasetOutcome(L) IN
    IF t.ok # (o = "ok") THEN 2931                           \* accepted / refused against the rule
    ELSE IF ~t.ok THEN 0
    ELSE IF {x.label : x \in SRng(t.files)} # L THEN 2932    \* a dataset without a file / a file without a dataset
    ELSE IF \E x \in SRng(t.files) : x.file # DatasetFiles(L)[x.label] THEN 2933      \* a file name differs
    ELSE IF ~t.merged THEN 2934                              \* merged file missing / misnamed
    ELSE IF ~t.additive THEN 2935                            \* per-dataset files do not add up to the run that does not split
    ELSE IF t.census = <<>> THEN 0                           \* (call not run in full)
    ELSE LET fs == [i \in 1..Len(t.census) |->
                      [total |-> t.census[i].total, n |-> [c \in 1..Len(t.census[i].n) |-> t.census[i].n[c]]]] IN
         IF \E c \in 1..Len(t.mergedn) :
               \/ t.mergedn[c] # fs[Picked(fs, c)].n[c]
               \/ Picked(fs, c) \notin SRng(t.matches[c]) THEN 2936    \* a merged row is not the row of the file the rule picks
         ELSE 0
\* backptr: {"kind":"backptr", "child":b, "search":b, "alt":b, "used":"child"|"alt"|"missing", "stage_ok":b, "comp_ok":b,
\*           "comp_same":b, "comp_clean":b}
ErrBack(t) ==
    LET r == Resolve(t.child, t.search, t.alt) IN
    IF t.used # r THEN 2941                                  \* the pointer resolves to another file than the rule names
    ELSE IF t.stage_ok # (r # "missing") THEN 2942           \* query-marker stage ran / stopped against the rule
    ELSE IF t.comp_ok # (r # "missing") THEN 2943            \* composite runner (markers from a p-value mask) against the rule
    ELSE IF t.comp_ok /\ ~t.comp_same THEN 2944              \* composite result differs from the two runners run one by one
    ELSE IF ~t.comp_clean THEN 2945                          \* the composite runner left something in the scratch directory
    ELSE 0
Err(t) == IF t.kind = "names" THEN ErrNames(t)
          ELSE IF t.kind = "backptr" THEN ErrBack(t)
          ELSE IF t.kind = "datasets" THEN ErrData(t)
          ELSE IF t.kind = "otf" THEN ErrOtf(t)
          ELSE ErrVal(t, 1, [fixed |-> t.fixed, unk |-> t.unk, rec |-> None3])
ASSUME \A i \in 1..(2 * N) : TLCSet(i, 0)
Init == tid \in 1..N /\ l = 1
Step == /\ l = 1
        /\ LET c == Err(Traces[tid]) IN
           IF c = 0 THEN l' = 2 /\ UNCHANGED tid ELSE TLCSet(N + tid, c) /\ FALSE
Spec == Init /\ [][Step]_vars
Track == IF TLCGet(tid) < l THEN TLCSet(tid, l) ELSE TRUE
Report == \A i \in 1..N : PrintT(<<"VERDICT", i, TLCGet(i), 2, TLCGet(N + i)>>)
=============================================================================
