SPECIFICATION EmitSpec
CONSTANTS Genes = {"g1", "g2", "g3"}
INVARIANT OkIffUsed
INVARIANT UsedSound
INVARIANT ListOnlyRemoves
CHECK_DEADLOCK FALSE
