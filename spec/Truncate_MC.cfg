SPECIFICATION TSpec
CONSTANTS MaxLevels = 3 MaxLeaves = 4 MaxReq = 2
INVARIANT InvDirect
INVARIANT InvHomomorphic
INVARIANT InvTotal
INVARIANT InvAcceptedT
INVARIANT InvOkIff
INVARIANT InvTwoStep
PROPERTY ActCoarsens
CHECK_DEADLOCK FALSE
