--------------------------- MODULE MarkerTable_MC ---------------------------
(***************************************************************************)
(* Exhaustive enumeration of marker tables over a fixed 3-level taxonomy   *)
(* with single- and multi-child parents and a small gene universe; design  *)
(* invariants of Reconcile (C08) and scenario emission for the replay into *)
(* create_marker_cache_from_specified_markers / serialize_markers.         *)
(*                                                                         *)
(*   level 1: 1 2      level 2: 1 2 | 3      level 3: 1 2 | 3 | 4 5        *)
(*   (1/2 and 2/2 are single-child parents)                                *)
(***************************************************************************)
EXTENDS MarkerTable, TLC, Json

CONSTANTS NGenes, MaxMin, Deep

\* Deep = TRUE: a 4-level tree in which parent 3/1 has two proper ancestors (2/1, 1/1), so that
\* "nearest first" is observable:  L1: 1 2   L2: 1 2|3   L3: 1 2|3|4   L4: 1 2|3|4|5
Tree4 == [hier |-> <<1, 2, 3, 4>>, keys |-> {1, 2, 3, 4},
          nodes |-> [l \in {1, 2, 3, 4} |-> IF l = 1 THEN {1, 2} ELSE IF l = 2 THEN {1, 2, 3}
                                              ELSE IF l = 3 THEN {1, 2, 3, 4} ELSE 1..5],
          kids |-> [l \in {1, 2, 3, 4} |->
                     IF l = 1 THEN (1 :> {1, 2} @@ 2 :> {3})
                     ELSE IF l = 2 THEN (1 :> {1, 2} @@ 2 :> {3} @@ 3 :> {4})
                     ELSE IF l = 3 THEN (1 :> {1, 2} @@ 2 :> {3} @@ 3 :> {4} @@ 4 :> {5})
                     ELSE [n \in 1..5 |-> {}]],
          cells |-> [n \in 1..5 |-> {}]]

Tree3 == [hier |-> <<1, 2, 3>>, keys |-> {1, 2, 3},
         nodes |-> [l \in {1, 2, 3} |-> IF l = 1 THEN {1, 2} ELSE IF l = 2 THEN {1, 2, 3} ELSE 1..5],
         kids |-> [l \in {1, 2, 3} |->
                     IF l = 1 THEN (1 :> {1, 2} @@ 2 :> {3})
                     ELSE IF l = 2 THEN (1 :> {1, 2} @@ 2 :> {3} @@ 3 :> {4, 5})
                     ELSE [n \in 1..5 |-> {}]],
         cells |-> [n \in 1..5 |-> {}]]

Tree == IF Deep THEN Tree4 ELSE Tree3

Universe == 1..NGenes
Choice == ChoiceParents(Tree)         \* Root, 1/1, 2/1, 2/3

VARIABLES table, QG, RG, minm, flat, drop
vars == <<table, QG, RG, minm, flat, drop>>

\* a table lists any subset of the choice parents, each with any subset of the universe
\* the table is chosen by an action (not in Init) so that TLC's workers share the enumeration
Unset == [p \in {<<9, 9>>} |-> {}]
Init == /\ table = Unset
        /\ QG \in (SUBSET Universe) \ {{}}
        /\ RG \in {Universe, Universe \ {NGenes}}
        /\ minm \in 1..MaxMin
        /\ flat \in BOOLEAN
        /\ drop \in {0, 1, 2}
PickTable == /\ table = Unset
             /\ \E keys \in SUBSET Choice : table' \in [keys -> SUBSET Universe]
             /\ UNCHANGED <<QG, RG, minm, flat, drop>>
Next == PickTable
Spec == Init /\ [][Next]_vars

R == LET T1 == IF drop # 0 THEN DropLevel(Tree, drop) ELSE Tree IN IF flat THEN Flatten(T1) ELSE T1
Tb == IF flat THEN FlattenTable(table) ELSE table
Rec == Reconcile(R, Tb, QG, minm)
Errs == RunErrors(R, Tb, QG, RG, minm)

\* design invariants of the reconciliation (statement of C08)
OnlyQueryGenesBody == \A p \in DOMAIN Rec : Rec[p] \subseteq QG
OwnKeptBody == \A p \in DOMAIN Rec : (Own(Tb, p) \cap QG) \subseteq Rec[p]
EnoughOwnMeansOnlyOwnBody ==
    \A p \in DOMAIN Rec : Cardinality(Own(Tb, p) \cap QG) >= minm => Rec[p] = Own(Tb, p) \cap QG
\* whatever was added comes from an ancestor's or the root's list
AddedFromAncestorsBody ==
    \A p \in DOMAIN Rec : p # Root =>
        Rec[p] \subseteq (Own(Tb, p) \cup Own(Tb, Root)
                           \cup UNION {Own(Tb, AncestorsNearestFirst(R, p)[i])
                                          : i \in 1..Len(AncestorsNearestFirst(R, p))})
\* a usable root makes every node usable (fallback always terminates at the root)
RootUsableAllUsableBody ==
    (Own(Tb, Root) \cap QG # {}) => \A p \in DOMAIN Rec : Rec[p] # {}
\* the minimum is reached whenever the whole ancestry can supply it
MinReachedBody ==
    \A p \in DOMAIN Rec : p # Root =>
        LET pool == (Own(Tb, p) \cup Own(Tb, Root)
                      \cup UNION {Own(Tb, AncestorsNearestFirst(R, p)[i])
                                     : i \in 1..Len(AncestorsNearestFirst(R, p))}) \cap QG
        IN Cardinality(pool) >= minm => Cardinality(Rec[p]) >= minm

OnlyQueryGenes == table = Unset \/ OnlyQueryGenesBody
OwnKept == table = Unset \/ OwnKeptBody
EnoughOwnMeansOnlyOwn == table = Unset \/ EnoughOwnMeansOnlyOwnBody
AddedFromAncestors == table = Unset \/ AddedFromAncestorsBody
RootUsableAllUsable == table = Unset \/ RootUsableAllUsableBody
MinReached == table = Unset \/ MinReachedBody

KeyJson(p) == <<p[1], p[2]>>
EmitAct ==
    /\ drop \in {0, 1, 2} /\ table # Unset
    /\ PrintT(<<"SCN", ToJson([table |-> {[key |-> KeyJson(p), genes |-> table[p]] : p \in DOMAIN table},
                               QG |-> QG, RG |-> RG, minm |-> minm, flat |-> flat, drop |-> drop,
                               errs |-> Errs,
                               rec |-> {[key |-> KeyJson(p), genes |-> Rec[p]] : p \in DOMAIN Rec}])>>)
    /\ drop' = 9 /\ UNCHANGED <<table, QG, RG, minm, flat>>
GenSpec == Init /\ [][PickTable \/ EmitAct]_vars
=============================================================================
