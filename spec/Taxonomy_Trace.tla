-------------------------- MODULE Taxonomy_Trace --------------------------
(***************************************************************************)
(* Validation of behaviours of the real TaxonomyTree against Taxonomy.tla. *)
(* Input: an NDJSON file, one trace per line:                              *)
(*   {"init": TreeJson, "events": [ {"op":..., ...}, ... ]}                *)
(* recorded by harness/checks/c10.py while driving the real class through  *)
(* random operation sequences on random (larger) trees.  Every event is    *)
(* matched by the spec operator of the same name; the C10 invariants are   *)
(* evaluated on every observed state.  Batched: tid is chosen in Init, the *)
(* furthest matched line per trace is kept in a TLC register.              *)
(***************************************************************************)
EXTENDS Taxonomy, TLC, Json, IOUtils

Traces == ndJsonDeserialize(IOEnv.TRACE_FILE)
N == Len(Traces)

VARIABLES tid, l, T0, T
vars == <<tid, l, T0, T>>

Rng(s) == {s[i] : i \in 1..Len(s)}

\* TreeJson -> tree record
TreeOf(j) ==
    LET L == Len(j.hier)
        idx(lv) == CHOOSE i \in 1..L : j.hier[i] = lv
        lv == Rng(j.keys)
    IN [hier  |-> j.hier, keys |-> lv,
        nodes |-> [x \in lv |-> Rng(j.nodes[idx(x)])],
        kids  |-> [x \in lv |-> [n \in Rng(j.nodes[idx(x)]) |->
                     LET e == CHOOSE i \in 1..Len(j.kids[idx(x)]) : j.kids[idx(x)][i][1] = n
                     IN Rng(j.kids[idx(x)][e][2])]],
        cells |-> [n \in {j.cells[i][1] : i \in 1..Len(j.cells)} |->
                     LET e == CHOOSE i \in 1..Len(j.cells) : j.cells[i][1] = n
                     IN Rng(j.cells[e][2])]]

Ev == Traces[tid].events

Init == /\ tid \in 1..N /\ l = 1
        /\ T0 = TreeOf(Traces[tid].init) /\ T = T0

IsEvent(op) == l <= Len(Ev) /\ Ev[l].op = op /\ l' = l + 1 /\ UNCHANGED <<tid, T0>>

EvDrop == /\ IsEvent("drop")
          /\ CanDrop(T, Ev[l].level)
          /\ T' = DropLevel(T, Ev[l].level)
          /\ T' = TreeOf(Ev[l].tree)

\* a drop the code refused must be one the spec forbids
EvDropRefused == /\ IsEvent("drop_refused") /\ ~CanDrop(T, Ev[l].level) /\ UNCHANGED T

EvFlatten == /\ IsEvent("flatten")
             /\ T' = Flatten(T) /\ T' = TreeOf(Ev[l].tree)

EvRoundTrip == /\ IsEvent("roundtrip") /\ T' = T /\ T = TreeOf(Ev[l].tree)

EvStrip == /\ IsEvent("strip") /\ StripCells(T) = TreeOf(Ev[l].tree) /\ UNCHANGED T

EvLeaves == /\ IsEvent("leaves")
            /\ LeavesUnder(T, Ev[l].level, Ev[l].node) = Rng(Ev[l].result) /\ UNCHANGED T

EvParents == /\ IsEvent("parents")
             /\ LET a == Ancestors(T, Ev[l].level, Ev[l].node) IN
                /\ DOMAIN a = {Ev[l].result[i][1] : i \in 1..Len(Ev[l].result)}
                /\ \A i \in 1..Len(Ev[l].result) : a[Ev[l].result[i][1]] = Ev[l].result[i][2]
             /\ UNCHANGED T

EvChildren == /\ IsEvent("children")
              /\ Children(T, <<Ev[l].parent[1], Ev[l].parent[2]>>) = Rng(Ev[l].result)
              /\ UNCHANGED T

\* leaf pairs under a parent: same set, and listed once each (list length = set size)
EvPairs == /\ IsEvent("pairs")
           /\ LET want == LeafPairs(T, <<Ev[l].parent[1], Ev[l].parent[2]>>)
                  got  == {{Ev[l].result[i][1], Ev[l].result[i][2]} : i \in 1..Len(Ev[l].result)}
              IN /\ got = want /\ Len(Ev[l].result) = Cardinality(want)
           /\ UNCHANGED T

EvAllParents == /\ IsEvent("all_parents")
                /\ {<<Ev[l].result[i][1], Ev[l].result[i][2]>> : i \in 1..Len(Ev[l].result)} = AllParentsOf(T)
                /\ Len(Ev[l].result) = Cardinality(AllParentsOf(T))
                /\ UNCHANGED T

Next == EvDrop \/ EvDropRefused \/ EvFlatten \/ EvRoundTrip \/ EvStrip \/ EvLeaves
           \/ EvParents \/ EvChildren \/ EvPairs \/ EvAllParents

Spec == Init /\ [][Next]_vars

InvAccepted   == Accepts(T)
InvSameLeaves == SameLeaves(T0, T)
InvAncestors  == AncestorsPreserved(T0, T)
InvPartition  == Partition(T)
InvInverse    == ParentChildInverse(T)

\* which C10 invariant fails in the observed state (0 = none); evaluated on every state
Bad == IF ~InvAccepted THEN 1 ELSE IF ~InvSameLeaves THEN 2 ELSE IF ~InvAncestors THEN 3
       ELSE IF ~InvPartition THEN 4 ELSE IF ~InvInverse THEN 5 ELSE 0

\* registers 1..N: furthest matched line; N+1..2N: invariant code that stopped the trace
ASSUME \A i \in 1..(2 * N) : TLCSet(i, 0)
Track == IF Bad = 0 THEN (IF TLCGet(tid) < l THEN TLCSet(tid, l) ELSE TRUE)
         ELSE TLCSet(N + tid, Bad) /\ FALSE
Report == \A i \in 1..N : PrintT(<<"VERDICT", i, TLCGet(i), Len(Traces[i].events) + 1, TLCGet(N + i)>>)
=============================================================================
