SPECIFICATION Spec
CONSTANTS NGenes = 3 MaxMin = 3 Deep = FALSE
INVARIANT OnlyQueryGenes
INVARIANT OwnKept
INVARIANT EnoughOwnMeansOnlyOwn
INVARIANT AddedFromAncestors
INVARIANT RootUsableAllUsable
INVARIANT MinReached
CHECK_DEADLOCK FALSE
