------------------------------- MODULE Winnow -------------------------------
(***************************************************************************)
(* One poll of the worker list / worker dictionary                         *)
(* (utils/multiprocessing_utils.py: winnow_process_list,                   *)
(* winnow_process_dict, _stop_processes) as a function of the exit codes   *)
(* seen at that moment.  Extension suite X18; the dispatcher around it is  *)
(* WorkerPool.tla (C14, C19) - here every vector of exit codes is decided  *)
(* with scripted process objects, signals (negative codes) included.       *)
(*                                                                         *)
(* codes[i]: None (still running) or an integer.  The list is scanned from *)
(* its end, the dictionary in key order; the first finished worker with a  *)
(* non-zero code makes the poll stop every running worker, wait for all    *)
(* and raise.  Modelled as the code behaves (named): DictDropsBeforeRaise - *)
(* the dictionary version has already removed the successfully finished    *)
(* workers it passed before the failing one; the list version removes      *)
(* nothing when it raises.                                                 *)
(***************************************************************************)
EXTENDS Integers, Sequences, FiniteSets

None == 99
Bad(c) == c # None /\ c # 0
Idx(codes) == 1..Len(codes)

\* ---- list version: scan from the end
ListCulprit(codes) == IF \E i \in Idx(codes) : Bad(codes[i])
                      THEN CHOOSE i \in Idx(codes) : Bad(codes[i]) /\ \A j \in Idx(codes) : Bad(codes[j]) => j <= i
                      ELSE 0
\* ---- dictionary version: scan in key order
DictCulprit(codes) == IF \E i \in Idx(codes) : Bad(codes[i])
                      THEN CHOOSE i \in Idx(codes) : Bad(codes[i]) /\ \A j \in Idx(codes) : Bad(codes[j]) => i <= j
                      ELSE 0
Culprit(mode, codes) == IF mode = "list" THEN ListCulprit(codes) ELSE DictCulprit(codes)
Raised(mode, codes) == Culprit(mode, codes) # 0
RaisedCode(mode, codes) == codes[Culprit(mode, codes)]
\* workers still in the container after the poll (indices, ascending)
Remaining(mode, codes) ==
    IF ~Raised(mode, codes) THEN {i \in Idx(codes) : codes[i] = None}
    ELSE IF mode = "list" THEN Idx(codes)
    ELSE {i \in Idx(codes) : ~(i < DictCulprit(codes) /\ codes[i] = 0)}
Terminated(mode, codes) == IF Raised(mode, codes) THEN {i \in Idx(codes) : codes[i] = None} ELSE {}
Joined(mode, codes) == IF Raised(mode, codes) THEN Remaining(mode, codes) ELSE {}

\* ------------------------------------------------------------------ properties (over every vector)
NeverSilent(mode, codes) == Raised(mode, codes) <=> \E i \in Idx(codes) : Bad(codes[i])
NoOrphans(mode, codes) == Raised(mode, codes) =>
                              /\ \A i \in Idx(codes) : codes[i] = None => i \in Terminated(mode, codes)
                              /\ Terminated(mode, codes) \subseteq Joined(mode, codes)
SurvivorsKept(mode, codes) == \A i \in Idx(codes) : codes[i] = None => i \in Remaining(mode, codes)
QuietPollOnlyDropsFinished(mode, codes) == ~Raised(mode, codes) =>
                              (Idx(codes) \ Remaining(mode, codes)) = {i \in Idx(codes) : codes[i] = 0}
=============================================================================
