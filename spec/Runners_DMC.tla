---------------------------- MODULE Runners_DMC ----------------------------
\* every set of <= 3 dataset labels over a small universe of look-alike labels: the decision, and - when accepted - the
\* file names are pairwise distinct and none is the merged file's
EXTENDS Runners, FiniteSetsExt, Json
Str(s) == s            \* labels are given as sequences of one-character strings
Universe == { <<"a", " ", "b">>, <<"a", "_", "b">>, <<"a", "/", "b">>, <<"a", ".", "b">>, <<"a", "b">>,
              Combined, <<"c", "o", "m", "b", "i", "n", "e", "d", " ">>, <<"x">> }
LabelSets == {L \in SUBSET Universe : Cardinality(L) >= 1 /\ Cardinality(L) <= 3}
ASSUME \A L \in LabelSets : DatasetOutcome(L) = "ok" =>
           /\ \A a, b \in L : a # b => DatasetFiles(L)[a] # DatasetFiles(L)[b]
           /\ \A a \in L : DatasetFiles(L)[a] # Combined
\* the merge rule on every census of <= 3 files x 2 clusters with 0..2 cells: the picked file holds the maximum
Census == UNION {[1..k -> [total : 0..4, n : [1..2 -> 0..2]]] : k \in 1..3}
ASSUME \A fs \in {f \in Census : \A i \in 1..Len(f) : f[i].total = f[i].n[1] + f[i].n[2]} :
           \A c \in 1..2 : PickIsMax(fs, c)
RECURSIVE Join(_)
Join(l) == IF l = <<>> THEN "" ELSE Head(l) \o Join(Tail(l))
EmitD(dummy) == \A L \in LabelSets :
    PrintT(<<"SCN", ToJson([labels |-> {Join(l) : l \in L}, outcome |-> DatasetOutcome(L),
                             files |-> {[label |-> Join(l), file |-> Join(San(l))] : l \in L}])>>)
ASSUME EmitD(0)
VARIABLE x
Spec == x = 0 /\ [][FALSE]_x
=============================================================================
