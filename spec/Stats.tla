-------------------------------- MODULE Stats --------------------------------
(***************************************************************************)
(* Reference statistics (diff_exp/precompute_from_anndata.py:              *)
(* _precompute_summary_stats_from_h5ad_and_lookup, _process_chunk_spec,    *)
(* _process_chunk; utils/stats_utils.py: summary_stats_for_chunk;          *)
(* diff_exp/truncate_precompute.py; diff_exp/precompute_utils.py).         *)
(*                                                                         *)
(* A dataset is a sequence of cells; cell i has an expression vector       *)
(* vec[i] (integers in log2(CPM+1) space: a legal, exactly summable        *)
(* input), a label lab[i] (a cluster 1..NCl, or 0 = not named by the       *)
(* taxonomy) and lives in file fil[i]; rows of a file are its cells in     *)
(* index order.  The stage cuts every file that holds a named cell into    *)
(* chunks of R rows, deals the chunks to at most P workers with the loop   *)
(* of the code, lets every worker fold its chunks into six accumulators    *)
(* per (cluster, gene) and adds the workers' buffers.                      *)
(***************************************************************************)
EXTENDS Integers, Sequences, FiniteSets, FiniteSetsExt, SequencesExt, TLC

SumOver(F(_), S) == FoldSet(LAMBDA x, acc : acc + F(x), 0, S)
SumSeq(F(_), s) == FoldSeq(LAMBDA x, acc : acc + F(x), 0, s)

\* cells of file f in row order
FileCells(fil, f) == SetToSortSeq({i \in DOMAIN fil : fil[i] = f}, <)
\* files that hold at least one named cell, in list order
UsedFiles(lab, fil, NF) == SelectSeq([f \in 1..NF |-> f], LAMBDA f : \E i \in DOMAIN fil : fil[i] = f /\ lab[i] # 0)
\* chunks (file, r0, r1) of one file
ChunksOf(fil, f, R) ==
    LET n == Len(FileCells(fil, f)) IN
    [j \in 1..((n + R - 1) \div R) |-> <<f, (j - 1) * R, IF j * R < n THEN j * R ELSE n>>]
AllChunks(lab, fil, NF, R) ==
    FoldSeq(LAMBDA f, acc : acc \o ChunksOf(fil, f, R), <<>>, UsedFiles(lab, fil, NF))

(***************************************************************************)
(* The work split of the code: n_per = ceil(total / P) where total counts  *)
(* every cell of the used files; a chunk goes to the current worker, and   *)
(* the worker index advances once the worker holds MORE than n_per cells;  *)
(* empty work lists are dropped.                                           *)
(***************************************************************************)
RECURSIVE SplitFrom(_, _, _, _, _, _)
SplitFrom(chunks, j, loads, w, held, nper) ==
    IF j > Len(chunks) THEN loads
    ELSE LET c == chunks[j]
             loads2 == [loads EXCEPT ![w] = Append(@, c)]
             held2 == held + (c[3] - c[2])
         IN IF held2 > nper THEN SplitFrom(chunks, j + 1, loads2, w + 1, 0, nper)
            ELSE SplitFrom(chunks, j + 1, loads2, w, held2, nper)
WorkSplit(lab, fil, NF, R, P) ==
    LET chunks == AllChunks(lab, fil, NF, R)
        total == SumSeq(LAMBDA c : c[3] - c[2], chunks)
        nper == (total + P - 1) \div P
        raw == SplitFrom(chunks, 1, [w \in 1..(P + 1) |-> <<>>], 1, 0, nper)
    IN SelectSeq(raw, LAMBDA l : Len(l) > 0)

\* cells of a chunk
CellsOfChunk(fil, c) == {FileCells(fil, c[1])[r] : r \in (c[2] + 1)..c[3]}
CellsOfLoad(fil, load) == UNION {CellsOfChunk(fil, load[j]) : j \in 1..Len(load)}

\* the six statistics of a set of cells for cluster k and gene g
Members(lab, S, k) == {i \in S : lab[i] = k}
StatN(lab, S, k) == Cardinality(Members(lab, S, k))
StatSum(vec, lab, S, k, g) == SumOver(LAMBDA i : vec[i][g], Members(lab, S, k))
StatSumSq(vec, lab, S, k, g) == SumOver(LAMBDA i : vec[i][g] * vec[i][g], Members(lab, S, k))
StatGt0(vec, lab, S, k, g) == Cardinality({i \in Members(lab, S, k) : vec[i][g] > 0})   \* CPM > 0
StatGt1(vec, lab, S, k, g) == Cardinality({i \in Members(lab, S, k) : vec[i][g] > 1})   \* CPM > 1
StatGe1(vec, lab, S, k, g) == Cardinality({i \in Members(lab, S, k) : vec[i][g] >= 1})  \* CPM >= 1

\* what the stage writes: the sum over the workers of what each folded
Merged(vec, lab, fil, NF, R, P, k, g) ==
    LET loads == WorkSplit(lab, fil, NF, R, P)
        W == 1..Len(loads)
    IN [n   |-> SumOver(LAMBDA w : StatN(lab, CellsOfLoad(fil, loads[w]), k), W),
        sum |-> SumOver(LAMBDA w : StatSum(vec, lab, CellsOfLoad(fil, loads[w]), k, g), W),
        sumsq |-> SumOver(LAMBDA w : StatSumSq(vec, lab, CellsOfLoad(fil, loads[w]), k, g), W),
        gt0 |-> SumOver(LAMBDA w : StatGt0(vec, lab, CellsOfLoad(fil, loads[w]), k, g), W),
        gt1 |-> SumOver(LAMBDA w : StatGt1(vec, lab, CellsOfLoad(fil, loads[w]), k, g), W),
        ge1 |-> SumOver(LAMBDA w : StatGe1(vec, lab, CellsOfLoad(fil, loads[w]), k, g), W)]
\* the definition of the property
Direct(vec, lab, k, g) ==
    LET S == DOMAIN lab IN
    [n |-> StatN(lab, S, k), sum |-> StatSum(vec, lab, S, k, g), sumsq |-> StatSumSq(vec, lab, S, k, g),
     gt0 |-> StatGt0(vec, lab, S, k, g), gt1 |-> StatGt1(vec, lab, S, k, g), ge1 |-> StatGe1(vec, lab, S, k, g)]

\* every chunk is in exactly one work list, in order; at most P lists
SplitIsPartition(lab, fil, NF, R, P) ==
    LET loads == WorkSplit(lab, fil, NF, R, P) IN
    /\ Len(loads) <= P
    /\ FoldSeq(LAMBDA l, acc : acc \o l, <<>>, loads) = AllChunks(lab, fil, NF, R)

\* collapsing to a coarser hierarchy: par maps a cluster to its coarse class
Truncated(vec, lab, par, K, g) ==     \* K a coarse class
    LET kids == {k \in DOMAIN par : par[k] = K} IN
    [n |-> SumOver(LAMBDA k : Direct(vec, lab, k, g).n, kids),
     sum |-> SumOver(LAMBDA k : Direct(vec, lab, k, g).sum, kids),
     sumsq |-> SumOver(LAMBDA k : Direct(vec, lab, k, g).sumsq, kids),
     gt0 |-> SumOver(LAMBDA k : Direct(vec, lab, k, g).gt0, kids),
     gt1 |-> SumOver(LAMBDA k : Direct(vec, lab, k, g).gt1, kids),
     ge1 |-> SumOver(LAMBDA k : Direct(vec, lab, k, g).ge1, kids)]
CoarseLab(lab, par) == [i \in DOMAIN lab |-> IF lab[i] = 0 THEN 0 ELSE par[lab[i]]]
=============================================================================
