-------------------------- MODULE DataRelease_Trace --------------------------
(***************************************************************************)
(* Real calls of TaxonomyTree.from_data_release on generated CSV tables    *)
(* against DataRelease.tla.  One NDJSON line per call:                     *)
(*  {"hier":[..], "ann":[{lev,label,plev,parent}], "mem":[{lev,levname,    *)
(*   alias,label,name}], "cel":[{cell,alias}], "hasCells":bool,            *)
(*   "ok":bool, "kind":str,                                                *)
(*   "nodes":[[lev,[n..]]], "kids":[[lev,n,[c..]]], "cells":[[n,[c..]]],   *)
(*   "names":[[lev,label,name]], "aliases":[[label,alias]],                *)
(*   "levnames":[[lev,name]]}                                              *)
(* Clause numbers 23xx.                                                    *)
(***************************************************************************)
EXTENDS DataRelease, TLC, Json, IOUtils
Traces == ndJsonDeserialize(IOEnv.TRACE_FILE)
N == Len(Traces)
VARIABLES tid, l
vars == <<tid, l>>
SRng(s) == {s[i] : i \in 1..Len(s)}
Err(t) ==
    LET ann == {[lev |-> r.lev, label |-> r.label, plev |-> r.plev, parent |-> r.parent] : r \in SRng(t.ann)}
        mem == {[lev |-> r.lev, levname |-> r.levname, alias |-> r.alias, label |-> r.label, name |-> r.name]
                   : r \in SRng(t.mem)}
        cel == [i \in 1..Len(t.cel) |-> [cell |-> t.cel[i].cell, alias |-> t.cel[i].alias]]
        rs == Outcome(ann, mem, cel, t.hasCells, t.hier)
    IN
    IF ~(t.ok = (rs = {})) THEN 2301                              \* accepted / refused against the rule
    ELSE IF ~t.ok THEN (IF t.kind \in rs THEN 0 ELSE 2302)        \* refused for a reason that is not present
    ELSE
    LET B == Built(ann, mem, cel, t.hasCells, t.hier)
        onodes == [lv \in {t.nodes[i][1] : i \in 1..Len(t.nodes)} |->
                      SRng(t.nodes[CHOOSE i \in 1..Len(t.nodes) : t.nodes[i][1] = lv][2])]
    IN
    IF ~(DOMAIN onodes = HRng(t.hier) /\ \A lv \in HRng(t.hier) : onodes[lv] = B.nodes[lv]) THEN 2303
    ELSE IF ~(\A i \in 1..Len(t.kids) : SRng(t.kids[i][3]) = B.kids[t.kids[i][1]][t.kids[i][2]]) THEN 2304
    ELSE IF ~(Len(t.kids) = Cardinality(UNION {{<<lv, n>> : n \in B.nodes[lv]} : lv \in HRng(t.hier) \ {LeafOf(t.hier)}})) THEN 2304
    ELSE IF ~(\A i \in 1..Len(t.cells) : t.cells[i][1] \in B.nodes[LeafOf(t.hier)]
                                          /\ SRng(t.cells[i][2]) = B.cells[t.cells[i][1]]) THEN 2305
    ELSE IF ~(Len(t.cells) = Cardinality(B.nodes[LeafOf(t.hier)])) THEN 2305
    \* name tables: every membership row of a level of the hierarchy is reflected
    ELSE IF ~(\A r \in mem : r.lev \in HRng(t.hier) =>
                 \E i \in 1..Len(t.names) : t.names[i] = <<r.lev, r.label, r.name>>) THEN 2306
    ELSE IF ~(\A r \in mem : r.lev = LeafOf(t.hier) =>
                 \E i \in 1..Len(t.aliases) : t.aliases[i] = <<r.label, r.alias>>) THEN 2307
    ELSE IF ~(\A r \in mem : \E i \in 1..Len(t.levnames) : t.levnames[i] = <<r.lev, r.levname>>) THEN 2308
    ELSE 0
ASSUME \A i \in 1..(2 * N) : TLCSet(i, 0)
Init == tid \in 1..N /\ l = 1
Step == /\ l = 1
        /\ LET c == Err(Traces[tid]) IN
           IF c = 0 THEN l' = 2 /\ UNCHANGED tid ELSE TLCSet(N + tid, c) /\ FALSE
Spec == Init /\ [][Step]_vars
Track == IF TLCGet(tid) < l THEN TLCSet(tid, l) ELSE TRUE
Report == \A i \in 1..N : PrintT(<<"VERDICT", i, TLCGet(i), 2, TLCGet(N + i)>>)
=============================================================================
