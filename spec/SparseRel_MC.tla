---------------------------- MODULE SparseRel_MC ----------------------------
EXTENDS SparseRel, TLC, Json
VARIABLES hist, A0
ToSeqSet(v) == [i \in 1..Len(v) |-> [x \in 0..3 |-> x \in v[i]]]
Op(o) == hist' = Append(hist, o) /\ UNCHANGED A0
MCInit == Init /\ hist = <<>> /\ A0 = A
MCNext == \E ip \in BOOLEAN :
            \/ \E k \in KeepLists(np) : KeepPairs(k, ip) /\ Op([op |-> "pairs", k |-> k, ip |-> ip])
            \/ \E k \in KeepLists(ng) : KeepGenes(k, ip) /\ Op([op |-> "genes", k |-> k, ip |-> ip])
MCSpec == MCInit /\ [][MCNext]_<<vars, hist, A0>>
MCOnlyByResult == [][(A' # A \/ B' # B) => (A' = outA' /\ B' = outB')]_<<vars, hist, A0>>
Emit == IF nops = MaxOps THEN PrintT(<<"SCN", ToJson([a0 |-> ToSeqSet(A0), ops |-> hist])>>) ELSE TRUE
=============================================================================
