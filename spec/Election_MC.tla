----------------------------- MODULE Election_MC -----------------------------
(***************************************************************************)
(* Design checks and scenario source for the election operators.           *)
(*  mode "votes"   : every vote vector over NC children summing to B is    *)
(*                   turned into a report the way choose_node does (sort   *)
(*                   by votes, any order among ties, cut at K+1, drop      *)
(*                   zero-vote runners-up); ContractErr and VoteErr must   *)
(*                   accept every such report (C02/C03 sanity: the oracle  *)
(*                   accepts the algorithm it was written for).            *)
(*  mode "pearson" : every query vector and every pair/triple of reference *)
(*                   vectors over NG genes with values 0..V; emits Best    *)
(*                   for replay into the real code (factor 1).             *)
(***************************************************************************)
EXTENDS Election, Sequences, SequencesExt, TLC, Json

CONSTANTS NC, B, NG, NL, V

VARIABLES mode, votes, K, order, q, M
vars == <<mode, votes, K, order, q, M>>

Children == 1..NC
SumV(v) == SumOver(LAMBDA c : v[c], Children)

\* permutations of the children sorted by non-increasing votes (ties in any order)
Orders(v) == {o \in [1..NC -> Children] :
                /\ \A i, j \in 1..NC : i # j => o[i] # o[j]
                /\ \A i \in 1..(NC - 1) : v[o[i]] >= v[o[i + 1]]}

InitVotes == /\ mode = "votes"
             /\ votes \in {v \in [Children -> 0..B] : SumV(v) = B}
             /\ K \in 0..(NC + 1)
             /\ order \in Orders(votes)
             /\ q = <<>> /\ M = <<>>

InitPearson == /\ mode = "pearson"
               /\ M \in [1..NL -> [1..NG -> 0..V]]
               /\ q = <<>> /\ votes = <<>> /\ K = 0 /\ order = <<>>

Init == InitVotes \/ InitPearson
Next == UNCHANGED vars
Spec == Init /\ [][Next]_vars

\* the report choose_node builds from (votes, order, K)
NAssign == IF K + 1 < NC THEN K + 1 ELSE NC
Winner == order[1]
RuSeq == LET all == [i \in 1..(NAssign - 1) |-> <<order[i + 1], votes[order[i + 1]]>>]
         IN SelectSeq(all, LAMBDA x : x[2] > 0)
\* candidate sets with no ties: iteration i voted for the child whose cumulative range holds i
CandOf == [i \in 1..B |-> {CHOOSE c \in Children :
                              LET before == SumOver(LAMBDA d : votes[d], {d \in Children : d < c})
                              IN i > before /\ i <= before + votes[c]}]

ContractHolds == mode = "votes" => ContractErr(B, K, Children, Winner, votes[Winner], RuSeq) = 0
VotesAccepted == mode = "votes" => VoteErr(B, K, Children, CandOf, Winner, votes[Winner], RuSeq) = 0
\* and a wrong report is refused: crediting the winner with one vote too many
WrongRefused == (mode = "votes" /\ votes[Winner] < B) =>
                   VoteErr(B, K, Children, CandOf, Winner, votes[Winner] + 1, RuSeq) # 0

\* scenario emission: one line per reference matrix with Best for every query vector
AllQ == [1..NG -> 0..V]
QSeq == SetToSeq(AllQ)
EmitPearson ==
    /\ mode = "pearson"
    /\ PrintT(<<"SCN", ToJson([M |-> M,
                   best |-> [i \in 1..Len(QSeq) |->
                               [q |-> QSeq[i], best |-> Best(QSeq[i], M, 1..NG)]]])>>)
    /\ mode' = "emitted" /\ UNCHANGED <<votes, K, order, q, M>>
GenSpec == InitPearson /\ [][EmitPearson]_vars
=============================================================================
