--------------------------- MODULE IndexRuns_Trace ---------------------------
(***************************************************************************)
(* One NDJSON line per call: {"lst": [..], "events": [{"result":           *)
(*  [[lo, hi], ..]}]}.  Clause numbers 39xx.                               *)
(***************************************************************************)
EXTENDS IndexRuns, TLC, Json, IOUtils
Traces == ndJsonDeserialize(IOEnv.TRACE_FILE)
N == Len(Traces)
VARIABLES tid, l
tvars == <<tid, l>>
Stop(code) == TLCSet(N + tid, code) /\ FALSE
TInit == tid \in 1..N /\ l = 1
AsPairs(res) == {<<res[i][1], res[i][2]>> : i \in 1..Len(res)}
Matches(lst, e) ==
    LET S == SetOf(lst) IN
    IF ~(Covered(AsPairs(e.result)) = S) THEN 3901                               \* rows covered by the slices
    ELSE IF ~(AsPairs(e.result) = Runs(S)) THEN 3902                             \* slices are the maximal runs
    ELSE IF ~(Len(e.result) = Cardinality(Runs(S))
              /\ \A i \in 1..(Len(e.result) - 1) : e.result[i][2] < e.result[i + 1][1]) THEN 3903   \* ascending, none twice
    ELSE 0
Step == /\ l <= Len(Traces[tid].events)
        /\ LET c == Matches(Traces[tid].lst, Traces[tid].events[l]) IN IF c = 0 THEN TRUE ELSE Stop(c)
        /\ l' = l + 1 /\ UNCHANGED tid
TSpec == TInit /\ [][Step]_tvars
ASSUME \A i \in 1..(2 * N) : TLCSet(i, 0)
Track == IF TLCGet(tid) < l THEN TLCSet(tid, l) ELSE TRUE
Report == \A i \in 1..N : PrintT(<<"VERDICT", i, TLCGet(i), Len(Traces[i].events) + 1, TLCGet(N + i)>>)
=============================================================================
