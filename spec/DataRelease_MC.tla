--------------------------- MODULE DataRelease_MC ---------------------------
(***************************************************************************)
(* Round trip over every tree shape of Taxonomy_MC: the canonical tables   *)
(* of a tree are accepted and build the same tree - provided every leaf    *)
(* owns a cell; a leaf without cells makes the tables unusable when a cell *)
(* table is given, and is kept when none is given.                         *)
(***************************************************************************)
EXTENDS Taxonomy_MC, DataRelease
NameOf(l, n) == 1000 * l + n
AliasOf(c) == 500 + c
LevName(l) == 90 + l
CellSeq(S) == LET cs == SortedSeq(UNION {S.cells[n] : n \in AllLeaves(S)}) IN
              [i \in 1..Len(cs) |-> [cell |-> cs[i],
                                     alias |-> AliasOf(CHOOSE n \in AllLeaves(S) : cs[i] \in S.cells[n])]]
Multi(S) == Len(S.hier) >= 2
RoundTrip == Multi(T0) =>
    /\ Outcome(AnnOf(T0), MemOf(T0, NameOf, AliasOf, LevName), CellSeq(T0), TRUE, T0.hier) = {}
    /\ Built(AnnOf(T0), MemOf(T0, NameOf, AliasOf, LevName), CellSeq(T0), TRUE, T0.hier) = T0
NoCellTable == Multi(T0) =>
    /\ Outcome(AnnOf(T0), MemOf(T0, NameOf, AliasOf, LevName), <<>>, FALSE, T0.hier) = {}
    /\ Built(AnnOf(T0), MemOf(T0, NameOf, AliasOf, LevName), <<>>, FALSE, T0.hier) = StripCells(T0)
\* drop the cells of leaf 1: with a cell table the tree is refused
EmptyLeafRefused == (Multi(T0) /\ Cardinality(AllLeaves(T0)) >= 2) =>
    LET cs == SelectSeq(CellSeq(T0), LAMBDA r : r.alias # AliasOf(1)) IN
    Outcome(AnnOf(T0), MemOf(T0, NameOf, AliasOf, LevName), cs, TRUE, T0.hier) = {"invalid_tree"}
BuildSpec == Init /\ [][Grow]_vars
=============================================================================
