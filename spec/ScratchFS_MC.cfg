SPECIFICATION Spec
CONSTANTS Runs = {1, 2} UseStamp = FALSE MaxEntries = 2
INVARIANT NoViolation
INVARIANT StaleUntouched
INVARIANT EndedOwnNothing
CHECK_DEADLOCK FALSE
