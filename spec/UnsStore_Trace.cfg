SPECIFICATION TSpec
CONSTANTS Keys <- TrKeys Nums <- TrNums Kinds <- TrKinds
INVARIANT TypeOK
CONSTRAINT Track
POSTCONDITION Report
CHECK_DEADLOCK FALSE
