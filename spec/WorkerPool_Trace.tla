--------------------------- MODULE WorkerPool_Trace ---------------------------
(***************************************************************************)
(* Validation of real mapping runs (hook events of the parent process +    *)
(* what the run left behind) against WorkerPool.tla.                       *)
(* One NDJSON line per run:                                                *)
(*  {"N", "P", "fault": {"k","pt","mode"}, "events": [                     *)
(*     {"op":"Dispatch","k":chunk number 1..N,"alive":n},                  *)
(*     {"op":"Poll","k":..,"code":..},                                     *)
(*     {"op":"End","outcome":"returned"|"raised","results","csv",          *)
(*      "success","log","json"} ]}                                         *)
(* Worker steps are not logged: they are silent steps of the trace spec    *)
(* (the state space stays finite: a poll that pops nothing returns to the  *)
(* same state).  A trace is accepted iff some interleaving of silent steps *)
(* explains every logged event; the fault plan is bound from the header.   *)
(* Clause numbers 14xx (C14) / 4xx (C04).                                  *)
(***************************************************************************)
EXTENDS WorkerPool, Json, IOUtils

Traces == ndJsonDeserialize(IOEnv.TRACE_FILE)
NT == Len(Traces)

VARIABLES tid, l
tvars == <<tid, l, pc, nxt, plist, scan, seen, ws, seeds, store, bufdir, tmpdir, out, fault>>

Ev == Traces[tid].events
Hd == Traces[tid]

\* the constants N, P of WorkerPool are per trace here: guard with the header values
TInit == /\ tid \in 1..NT /\ l = 1 /\ Init
         /\ fault = [k |-> Traces[tid].fault.k, pt |-> Traces[tid].fault.pt, mode |-> Traces[tid].fault.mode]

IsEvent(op) == l <= Len(Ev) /\ Ev[l].op = op /\ l' = l + 1 /\ UNCHANGED tid
Silent == UNCHANGED <<tid, l>>

EvDispatch == /\ IsEvent("Dispatch") /\ Spawn
              /\ nxt = Ev[l].k                      \* chunks are dispatched in order
              /\ Len(plist') = Ev[l].alive          \* as many alive as the code counted

EvPoll == /\ IsEvent("Poll") /\ PollRead
          /\ plist[scan] = Ev[l].k
          /\ ExitCode(plist[scan]) = Ev[l].code

EvEnd == /\ IsEvent("End")
         /\ pc = Ev[l].outcome
         /\ out.results = Ev[l].results /\ out.csv = Ev[l].csv /\ out.success = Ev[l].success
         /\ out.log = Ev[l].log /\ out.json = Ev[l].json
         /\ UNCHANGED vars

\* silent: worker steps, poll start, reads of still-running workers, control transfers
SilentPollRead == PollRead /\ ExitCode(plist[scan]) = 99
SilentStep == /\ Silent
              /\ \/ \E k \in W : Worker(k)
                 \/ PollStart \/ SilentPollRead \/ ToDrain \/ ToGather \/ Gather \/ Except \/ Finally

TNext == EvDispatch \/ EvPoll \/ EvEnd \/ SilentStep
TSpec == TInit /\ [][TNext]_tvars

ASSUME \A i \in 1..(2 * NT) : TLCSet(i, 0)
\* safety properties of WorkerPool evaluated on every state of every explaining behaviour
Bad == IF ~FailNeverReturns THEN 1401 ELSE IF ~RaisedHasNoResults THEN 1402
       ELSE IF ~SeedsInDispatchOrder THEN 401 ELSE IF ~NeverMoreThanP THEN 402
       ELSE IF ~ReturnedComplete THEN 403 ELSE 0
Track == IF Bad = 0 THEN (IF TLCGet(tid) < l THEN TLCSet(tid, l) ELSE TRUE)
         ELSE TLCSet(NT + tid, Bad) /\ FALSE
Report == \A i \in 1..NT : PrintT(<<"VERDICT", i, TLCGet(i), Len(Traces[i].events) + 1, TLCGet(NT + i)>>)
=============================================================================
