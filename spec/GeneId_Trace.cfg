SPECIFICATION TSpec
CONSTANTS MaxLen = 0 MaxCalls = 1000
INVARIANT InvFresh
CONSTRAINT Track
POSTCONDITION Report
CHECK_DEADLOCK FALSE
