SPECIFICATION MCSpec
CONSTANTS NP = 2 NG = 3 MaxOps = 2 MaxKeep = 2
INVARIANT Shape
INVARIANT InRange
INVARIANT Dual
PROPERTY MCOnlyByResult
CHECK_DEADLOCK FALSE
