------------------------------ MODULE Stats_Trace ------------------------------
(***************************************************************************)
(* Statistics files written by the real stage (and its WorkSplit hook      *)
(* event) against Stats.tla.  One NDJSON line per run:                     *)
(*  {"NF", "R", "P", "NCl", "NG", "cells": [{"vec":[..], "lab": k, "fil": f}],*)
(*   "split": [[[file, r0, r1], ..], ..],                                  *)
(*   "stats": [{"k","g","n","sum","sumsq","gt0","gt1","ge1"}, ...],        *)
(*   "coarse": [{"K","g","n","sum","sumsq","gt0","gt1","ge1"}, ...],       *)
(*   "par": [class of cluster 1..NCl],                                     *)
(*   "par2": [super class of class 1..2], "coarse2": [{"U","g",...}],      *)
(*   (stats / coarse / coarse2 may hold several rows for one (id, gene):   *)
(*    the same quantity obtained by another route - re-written input,      *)
(*    permuted row table, chained collapse - each must equal Direct)       *)
(*   "merged": [{"k","g","n","sum","n1","sum1","n2","sum2"}, ...]}         *)
(* Clause numbers 9xx.                                                     *)
(***************************************************************************)
EXTENDS Stats, Json, IOUtils
Traces == ndJsonDeserialize(IOEnv.TRACE_FILE)
N == Len(Traces)
VARIABLES tid, l
vars == <<tid, l>>

Err(t) ==
    LET n == Len(t.cells)
        vec == [i \in 1..n |-> t.cells[i].vec]
        lab == [i \in 1..n |-> t.cells[i].lab]
        fil == [i \in 1..n |-> t.cells[i].fil]
        want == WorkSplit(lab, fil, t.NF, t.R, t.P)
        got == [w \in 1..Len(t.split) |-> [j \in 1..Len(t.split[w]) |->
                   <<t.split[w][j][1], t.split[w][j][2], t.split[w][j][3]>>]]
        par == [k \in 1..t.NCl |-> t.par[k]]
    IN
    IF ~(Len(t.split) = 0 \/ got = want) THEN 901                          \* work split differs from the rule
    ELSE IF ~(\A i \in 1..Len(t.stats) :
                LET s == t.stats[i] d == Direct(vec, lab, s.k, s.g) IN s.n = d.n) THEN 902   \* member counts
    ELSE IF ~(\A i \in 1..Len(t.stats) :
                LET s == t.stats[i] d == Direct(vec, lab, s.k, s.g) IN s.sum = d.sum /\ s.sumsq = d.sumsq) THEN 903
    ELSE IF ~(\A i \in 1..Len(t.stats) :
                LET s == t.stats[i] d == Direct(vec, lab, s.k, s.g) IN
                s.gt0 = d.gt0 /\ s.gt1 = d.gt1 /\ s.ge1 = d.ge1) THEN 904                  \* threshold counts
    ELSE IF ~(\A i \in 1..Len(t.coarse) :
                LET s == t.coarse[i] d == Direct(vec, CoarseLab(lab, par), s.K, s.g) IN
                s.n = d.n /\ s.sum = d.sum /\ s.sumsq = d.sumsq /\ s.gt0 = d.gt0 /\ s.gt1 = d.gt1
                /\ s.ge1 = d.ge1) THEN 905                                                  \* collapsed hierarchy
    \* two steps up (directly, or chained through the intermediate file)
    ELSE IF ~(\A i \in 1..Len(t.coarse2) :
                LET s == t.coarse2[i]
                    par2 == [K \in 1..Len(t.par2) |-> t.par2[K]]
                    d == Direct(vec, CoarseLab(CoarseLab(lab, par), par2), s.U, s.g) IN
                s.n = d.n /\ s.sum = d.sum /\ s.sumsq = d.sumsq /\ s.gt0 = d.gt0 /\ s.gt1 = d.gt1
                /\ s.ge1 = d.ge1) THEN 907
    ELSE IF ~(\A i \in 1..Len(t.merged) :
                LET m == t.merged[i] IN
                \/ (m.n = m.n1 /\ m.sum = m.sum1 /\ m.n1 >= m.n2)
                \/ (m.n = m.n2 /\ m.sum = m.sum2 /\ m.n2 >= m.n1)) THEN 906      \* merge keeps the larger dataset's row
    ELSE 0

ASSUME \A i \in 1..(2 * N) : TLCSet(i, 0)
Init == tid \in 1..N /\ l = 1
Step == /\ l = 1
        /\ LET c == Err(Traces[tid]) IN
           IF c = 0 THEN l' = 2 /\ UNCHANGED tid ELSE TLCSet(N + tid, c) /\ FALSE
Spec == Init /\ [][Step]_vars
Track == IF TLCGet(tid) < l THEN TLCSet(tid, l) ELSE TRUE
Report == \A i \in 1..N : PrintT(<<"VERDICT", i, TLCGet(i), 2, TLCGet(N + i)>>)
=============================================================================
