----------------------------- MODULE FlatMap_MC -----------------------------
(***************************************************************************)
(* Properties of the gene matching rule, exhaustively over small universes, *)
(* and emission of every (reference genes, query genes, marker list) case   *)
(* with the expected outcome.                                               *)
(***************************************************************************)
EXTENDS FlatMap, TLC, Json
CONSTANT Genes
VARIABLES refG, qG, mk, has, picked
vars == <<refG, qG, mk, has, picked>>
Init == refG = {} /\ qG = {} /\ mk = {} /\ has = FALSE /\ picked = FALSE
Pick == /\ ~picked /\ picked' = TRUE
        /\ refG' \in (SUBSET Genes) \ {{}} /\ qG' \in (SUBSET Genes) \ {{}}
        /\ has' \in BOOLEAN /\ mk' \in (IF has' THEN (SUBSET Genes) \ {{}} ELSE {{}})
Emit == /\ picked /\ PrintT(<<"SCN", ToJson([ref |-> refG, q |-> qG, markers |-> mk, has |-> has,
                                             used |-> Used(refG, qG, mk, has),
                                             outcome |-> PrepError(refG, qG, mk, has)])>>)
        /\ UNCHANGED vars
Spec == Init /\ [][Pick]_vars
EmitSpec == Init /\ [][Pick \/ Emit]_vars
\* the call succeeds exactly when there is a gene to correlate on
OkIffUsed == picked => ((PrepError(refG, qG, mk, has) = "ok") <=> (Used(refG, qG, mk, has) # {}))
\* genes used are known to both files and, with a list, listed
UsedSound == picked => /\ Used(refG, qG, mk, has) \subseteq refG \cap qG
                       /\ (has => Used(refG, qG, mk, has) \subseteq mk)
\* a marker list can only remove genes
ListOnlyRemoves == picked => Used(refG, qG, mk, has) \subseteq Used(refG, qG, {}, FALSE)
=============================================================================
