----------------------------- MODULE UnsStore_MC -----------------------------
EXTENDS UnsStore, Json
MCKeys == {"a", "b", "s"}
MCNums == {"n1", "n2"}
MCKinds == {"plain", "slash", "dollar"}
ASSUME RoundTripExact /\ DollarBecomesSlash
=============================================================================
