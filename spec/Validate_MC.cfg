SPECIFICATION Spec
INVARIANT RoundMovesHalf
INVARIANT TypeHoldsRange
INVARIANT RoundMonotone
INVARIANT NoCopyMeansNothingToDo
CHECK_DEADLOCK FALSE
