SPECIFICATION MCSpec
CONSTANTS MaxV = 5 MaxLen = 4
INVARIANT InvExact
INVARIANT InvMaximal
INVARIANT InvNonEmpty
CHECK_DEADLOCK FALSE
