SPECIFICATION Spec
CONSTANTS NG = 4 Grid = {0, 10000, 30000, 60000, 100000, 200000, 5000000} Th = 100000
INVARIANT SameDecision
INVARIANT Monotone
INVARIANT AdjustedNotBelowRaw
CHECK_DEADLOCK FALSE
