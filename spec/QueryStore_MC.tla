---------------------------- MODULE QueryStore_MC ----------------------------
EXTENDS QueryStore, TLC, Json
\* every complete history is emitted once, with the owners the model expects after every run
RECURSIVE Owners(_, _)
Owners(h, n) == IF n = 0 THEN [k \in Foreign |-> 0]
                ELSE After(Owners(h, n - 1), h[n].key, h[n].clobber, n)
Emit == IF Len(hist) = MaxRuns
        THEN PrintT(<<"SCN", ToJson([steps |-> [i \in 1..Len(hist) |->
                 [key |-> hist[i].key, clobber |-> hist[i].clobber, ok |-> hist[i].ok,
                  keys |-> [k \in DOMAIN Owners(hist, i) |-> Owners(hist, i)[k]]]]])>>)
        ELSE TRUE
=============================================================================
