--------------------------- MODULE UnsStore_Trace ---------------------------
(* one NDJSON line per file history: {"events": [...]}; clause numbers 33xx.                                  *)
(* {"op":"update","new":[[k,v],..],"clobber":b,"outcome":s,"after":[[k,v],..],"rest_same":b,"stray":n}        *)
(* {"op":"store","key":k,"kind":s, "outcome":s,"after":..,"rest_same":b}                                        *)
(* {"op":"load","key":k,"outcome":s,"after":..,"rest_same":b}                                                   *)
EXTENDS UnsStore, Sequences, Json, IOUtils
Traces == ndJsonDeserialize(IOEnv.TRACE_FILE)
N == Len(Traces)
TrKeys == {"a", "b", "c", "d", "s", "t"}
TrNums == {"n1", "n2", "n3", "n4"}
TrKinds == {"plain", "slash", "dollar"}
VARIABLES tid, l
tvars == <<tid, l, uns, rest, last, stray>>
SRng(s) == {s[i] : i \in 1..Len(s)}
ToFun(pairs) == [k \in {p[1] : p \in SRng(pairs)} |-> (CHOOSE p \in SRng(pairs) : p[1] = k)[2]]
\* the specification's own action for the logged call
Act(e) == IF e.op = "update" THEN Update(ToFun(e.new), e.clobber)
          ELSE IF e.op = "store" THEN Store(e.key, e.kind)
          ELSE Load(e.key)
\* the observation against the state the action produced
Code(e) == IF last' # e.outcome THEN 3301                       \* outcome of the call (ok / refused / what came back)
           ELSE IF uns' # ToFun(e.after) THEN 3302              \* the table afterwards
           ELSE IF ~e.rest_same THEN 3303                       \* something outside the table changed
           ELSE IF stray' # e.stray THEN 3304                   \* files left in the scratch directory
           ELSE 0
ASSUME \A i \in 1..(2 * N) : TLCSet(i, 0)
TInit == tid \in 1..N /\ l = 1 /\ Init
Step == /\ l <= Len(Traces[tid].events)
        /\ LET e == Traces[tid].events[l] IN
           /\ Act(e)
           /\ IF Code(e) = 0 THEN l' = l + 1 /\ UNCHANGED tid ELSE TLCSet(N + tid, Code(e)) /\ FALSE
TSpec == TInit /\ [][Step]_tvars
Track == IF TLCGet(tid) < l THEN TLCSet(tid, l) ELSE TRUE
Report == \A i \in 1..N : PrintT(<<"VERDICT", i, TLCGet(i), Len(Traces[i].events) + 1, TLCGet(N + i)>>)
=============================================================================
