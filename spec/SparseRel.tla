------------------------------ MODULE SparseRel ------------------------------
(***************************************************************************)
(* The two sparse views of "gene g is a marker of pair p" that the marker  *)
(* selection keeps side by side (diff_exp/sparse_markers_by_pair.py,       *)
(* sparse_markers_by_gene.py over sparse_markers.py + utils/sparse_utils:  *)
(* downsample_indptr, mask_indptr_by_indices).  Extension suite X17.       *)
(*                                                                         *)
(* A: by pair (row p = the genes of pair p); B: by gene (row g = the pairs *)
(* of gene g).  Indices are 0-based as in the code; row i is A[i + 1].     *)
(* Thinning either axis renumbers it: keep list k makes old index k[j+1]   *)
(* the new index j.  On the row axis of a view this copies rows            *)
(* (downsample_indptr); on the value axis it maps values through a         *)
(* dictionary built from k and drops the others (mask_indptr_by_indices).  *)
(*                                                                         *)
(* Modelled as the code behaves (named): RepeatsBreakDuality - a keep list *)
(* naming an index twice duplicates the row on the row axis but keeps only *)
(* the LAST position on the value axis, so the two views then differ;      *)
(* Dual is therefore stated for repeat-free histories.                     *)
(***************************************************************************)
EXTENDS Integers, Sequences, FiniteSets

CONSTANTS NP, NG, MaxOps, MaxKeep

VARIABLES A, B,        \* the two views: sequences of sets of indices
          np, ng,      \* the caller's notion of how many pairs / genes are left
          outA, outB,  \* what the last call produced (the views themselves when in place)
          inj,         \* every keep list so far was repeat-free
          nops
vars == <<A, B, np, ng, outA, outB, inj, nops>>

Range(k) == {k[i] : i \in 1..Len(k)}
NewIdx(k, n) == CHOOSE j \in 0..(Len(k) - 1) : k[j + 1] = n /\ \A j2 \in 0..(Len(k) - 1) : k[j2 + 1] = n => j2 <= j
KeepRowsOf(v, k) == [i \in 1..Len(k) |-> v[k[i] + 1]]
KeepValsOf(v, k) == [i \in 1..Len(v) |-> {NewIdx(k, n) : n \in v[i] \cap Range(k)}]
Transpose(v, n) == [g \in 1..n |-> {p - 1 : p \in {q \in 1..Len(v) : (g - 1) \in v[q]}}]

Init == /\ A \in [1..NP -> SUBSET (0..(NG - 1))]
        /\ B = Transpose(A, NG)
        /\ np = NP /\ ng = NG /\ outA = A /\ outB = B /\ inj = TRUE /\ nops = 0

Injective(k) == Cardinality(Range(k)) = Len(k)
\* keep lists explored: every short list (repeats included) and every full reordering of the axis
KeepLists(n) == (UNION {[1..m -> 0..(n - 1)] : m \in 1..MaxKeep}) \cup {k \in [1..n -> 0..(n - 1)] : Injective(k)}

KeepPairs(k, inplace) ==
    /\ nops < MaxOps /\ np > 0 /\ k \in KeepLists(np)
    /\ outA' = KeepRowsOf(A, k) /\ outB' = KeepValsOf(B, k)
    /\ IF inplace THEN A' = outA' /\ B' = outB' /\ np' = Len(k) /\ inj' = (inj /\ Injective(k))
       ELSE UNCHANGED <<A, B, np, inj>>
    /\ nops' = nops + 1 /\ UNCHANGED ng
KeepGenes(k, inplace) ==
    /\ nops < MaxOps /\ ng > 0 /\ k \in KeepLists(ng)
    /\ outA' = KeepValsOf(A, k) /\ outB' = KeepRowsOf(B, k)
    /\ IF inplace THEN A' = outA' /\ B' = outB' /\ ng' = Len(k) /\ inj' = (inj /\ Injective(k))
       ELSE UNCHANGED <<A, B, ng, inj>>
    /\ nops' = nops + 1 /\ UNCHANGED np

Next == \E ip \in BOOLEAN : (\E k \in KeepLists(np) : KeepPairs(k, ip)) \/ (\E k \in KeepLists(ng) : KeepGenes(k, ip))
Spec == Init /\ [][Next]_vars

\* ------------------------------------------------------------------ properties
Shape == Len(A) = np /\ Len(B) = ng
InRange == /\ \A i \in 1..Len(A) : A[i] \subseteq 0..(ng - 1)
           /\ \A i \in 1..Len(B) : B[i] \subseteq 0..(np - 1)
\* the two views tell the same story as long as no keep list named an index twice
Dual == inj => \A p \in 0..(np - 1), g \in 0..(ng - 1) : (g \in A[p + 1]) <=> (p \in B[g + 1])
\* refuted by TLC (RepeatsBreakDuality) - the suite fails as machinery error if it is not
DualAlways == \A p \in 0..(np - 1), g \in 0..(ng - 1) : (g \in A[p + 1]) <=> (p \in B[g + 1])
\* a view only ever changes to what the call produced (a call not in place changes nothing)
OnlyByResult == [][(A' # A \/ B' # B) => (A' = outA' /\ B' = outB')]_vars
=============================================================================
