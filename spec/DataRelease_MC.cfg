SPECIFICATION BuildSpec
CONSTANTS MaxLevels = 4 MaxLeaves = 5
INVARIANT RoundTrip
INVARIANT NoCellTable
INVARIANT EmptyLeafRefused
CHECK_DEADLOCK FALSE
