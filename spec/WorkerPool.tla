----------------------------- MODULE WorkerPool -----------------------------
(***************************************************************************)
(* The dispatcher shared by every parallel stage of cell_type_mapper, with *)
(* the life cycle of a mapping run around it                               *)
(* (type_assignment/election.py: run_type_assignment_on_h5ad_cpu,          *)
(*  _run_type_assignment_on_h5ad_worker; utils/multiprocessing_utils.py:   *)
(*  winnow_process_list; cli/from_specified_markers.py: run_mapping).      *)
(*                                                                         *)
(* Parent:                                                                 *)
(*   dispatch: for k = 1..N: draw child seed k from the parent stream,     *)
(*             start worker k, append to the process list;                 *)
(*             while |list| >= P: poll                                     *)
(*   drain:    while |list| > 0: poll                                      *)
(*   poll  =   one call of winnow_process_list: scan the list from the     *)
(*             last entry to the first, one exit code read per step; a     *)
(*             non-zero code raises at once; finished entries are popped   *)
(*             at the end of a clean scan                                  *)
(*   gather -> clean result buffer -> success message -> finally:          *)
(*             clean scratch, write log, JSON, HDF5                        *)
(* Worker k: before -> work -> store (append under lock / own file) ->     *)
(*           exit 0; a fault (FaultK, FaultPoint, FaultMode) kills it at   *)
(*           one of three points.  After the parent raised, the remaining  *)
(*           workers are orphans and keep running.                         *)
(*                                                                         *)
(* Fixed = TRUE models the repair of finding F3 (result buffer removed in  *)
(* the error path as well, after the remaining workers were stopped).      *)
(***************************************************************************)
EXTENDS Integers, Sequences, FiniteSets, TLC

CONSTANTS N,            \* number of chunks / workers
          P,            \* n_processors
          FaultKs,      \* workers that may fail (0 = no fault); one is chosen per behaviour
          FaultPoints,  \* subset of {"before", "mid", "after"}
          FaultModes,   \* subset of {"kill", "exit3", "raise", "term"}
          Fixed         \* model the repaired clean-up

W == 1..N

VARIABLES pc,        \* parent program counter
          nxt,       \* next chunk to dispatch
          plist,     \* process list (sequence of worker ids, append order)
          scan,      \* index being read by the current poll (0 = no poll running)
          seen,      \* workers found finished by the current poll
          ws,        \* worker state
          seeds,     \* sequence of chunk ids in the order their child seed was drawn
          store,     \* sequence of chunk ids in the order results were stored
          bufdir,    \* result buffer directory exists
          tmpdir,    \* run scratch directory exists
          out,       \* what the run has written: record of booleans
          fault      \* the fault plan of this behaviour: [k, pt, mode]
vars == <<pc, nxt, plist, scan, seen, ws, seeds, store, bufdir, tmpdir, out, fault>>
FaultK == fault.k
FaultPoint == fault.pt
FaultMode == fault.mode

Codes == [kill |-> -9, exit3 |-> 3, raise |-> 1, term |-> -15]
Done(k) == ws[k] \in {"exit0", "dead"}
Crash(k, pt) == k = FaultK /\ pt = FaultPoint
ExitCode(k) == IF ws[k] = "exit0" THEN 0 ELSE IF ws[k] = "dead" THEN Codes[FaultMode] ELSE 99  \* 99 = None

Init == /\ pc = "dispatch" /\ nxt = 1 /\ plist = <<>> /\ scan = 0 /\ seen = {}
        /\ ws = [k \in W |-> "none"] /\ seeds = <<>> /\ store = <<>>
        /\ bufdir = TRUE /\ tmpdir = TRUE
        /\ out = [results |-> FALSE, csv |-> FALSE, success |-> FALSE, log |-> FALSE, json |-> FALSE]
        /\ fault \in [k : FaultKs, pt : FaultPoints, mode : FaultModes]

\* ------------------------------------------------------------------ workers
WBefore(k) == /\ ws[k] = "spawned"
              /\ ws' = [ws EXCEPT ![k] = IF Crash(k, "before") THEN "dead" ELSE "started"]
              /\ UNCHANGED <<pc, nxt, plist, scan, seen, seeds, store, bufdir, tmpdir, out, fault>>
\* the work needs the marker cache in the run's scratch directory: an orphan that gets here
\* after the parent cleaned up dies
WWork(k) == /\ ws[k] = "started"
            /\ ws' = [ws EXCEPT ![k] = IF ~tmpdir \/ Crash(k, "mid") THEN "dead" ELSE "computed"]
            /\ UNCHANGED <<pc, nxt, plist, scan, seen, seeds, store, bufdir, tmpdir, out, fault>>
WStore(k) == /\ ws[k] = "computed"
             /\ IF bufdir THEN /\ store' = Append(store, k)
                               /\ ws' = [ws EXCEPT ![k] = IF Crash(k, "after") THEN "dead" ELSE "stored"]
                          ELSE /\ store' = store /\ ws' = [ws EXCEPT ![k] = "dead"]
             /\ UNCHANGED <<pc, nxt, plist, scan, seen, seeds, bufdir, tmpdir, out, fault>>
WExit(k) == /\ ws[k] = "stored" /\ ws' = [ws EXCEPT ![k] = "exit0"]
            /\ UNCHANGED <<pc, nxt, plist, scan, seen, seeds, store, bufdir, tmpdir, out, fault>>
Worker(k) == WBefore(k) \/ WWork(k) \/ WStore(k) \/ WExit(k)

\* ------------------------------------------------------------------ parent
Spawn == /\ pc = "dispatch" /\ scan = 0 /\ nxt <= N /\ Len(plist) < P
         /\ seeds' = Append(seeds, nxt)            \* rng.integers() evaluated in the parent
         /\ ws' = [ws EXCEPT ![nxt] = "spawned"]
         /\ plist' = Append(plist, nxt) /\ nxt' = nxt + 1
         /\ UNCHANGED <<pc, scan, seen, store, bufdir, tmpdir, out, fault>>

PollStart == /\ pc \in {"dispatch", "drain"} /\ scan = 0 /\ Len(plist) > 0
             /\ (pc = "dispatch" => Len(plist) >= P)
             /\ scan' = Len(plist) /\ seen' = {}
             /\ UNCHANGED <<pc, nxt, plist, ws, seeds, store, bufdir, tmpdir, out, fault>>

PollRead == /\ scan > 0
            /\ LET k == plist[scan] c == ExitCode(k) IN
               IF c = 99 THEN scan' = scan - 1 /\ seen' = seen /\ pc' = pc
               ELSE IF c = 0 THEN scan' = scan - 1 /\ seen' = seen \cup {k} /\ pc' = pc
               ELSE scan' = 0 /\ seen' = {} /\ pc' = "except"          \* raise RuntimeError
            /\ IF scan' = 0 /\ pc' # "except"
               THEN plist' = SelectSeq(plist, LAMBDA x : x \notin seen')
               ELSE plist' = plist
            /\ UNCHANGED <<nxt, ws, seeds, store, bufdir, tmpdir, out, fault>>

ToDrain == /\ pc = "dispatch" /\ scan = 0 /\ nxt > N /\ Len(plist) < P /\ pc' = "drain"
           /\ UNCHANGED <<nxt, plist, scan, seen, ws, seeds, store, bufdir, tmpdir, out, fault>>
\* with P = 1 ... the while loop keeps polling until the list is shorter than P, then dispatches
\* the next chunk; after the last chunk the drain loop empties the list
ToGather == /\ pc = "drain" /\ scan = 0 /\ Len(plist) = 0 /\ pc' = "gather"
            /\ UNCHANGED <<nxt, plist, scan, seen, ws, seeds, store, bufdir, tmpdir, out, fault>>

\* gather + re-order + CSV + remove the result buffer + success message
Gather == /\ pc = "gather"
          /\ out' = [out EXCEPT !.results = TRUE, !.csv = TRUE, !.success = TRUE]
          /\ bufdir' = FALSE /\ pc' = "finally"
          /\ UNCHANGED <<nxt, plist, scan, seen, ws, seeds, store, tmpdir, fault>>

\* except: traceback into the log, re-raise; the repaired version first waits for / stops the
\* surviving workers and removes the result buffer
Except == /\ pc = "except"
          /\ IF Fixed THEN /\ \A k \in W : ws[k] \in {"none", "exit0", "dead"}   \* joined / terminated
                           /\ bufdir' = FALSE
                      ELSE bufdir' = bufdir
          /\ pc' = "finally_err"
          /\ UNCHANGED <<nxt, plist, scan, seen, ws, seeds, store, tmpdir, out, fault>>
\* the repaired parent terminates workers that are still running
Terminate(k) == /\ Fixed /\ pc = "except" /\ ws[k] \in {"spawned", "started", "computed", "stored"}
                /\ ws' = [ws EXCEPT ![k] = "dead"]
                /\ UNCHANGED <<pc, nxt, plist, scan, seen, seeds, store, bufdir, tmpdir, out, fault>>

Finally == /\ pc \in {"finally", "finally_err"}
           /\ tmpdir' = FALSE
           /\ out' = [out EXCEPT !.log = TRUE, !.json = TRUE]
           /\ pc' = IF pc = "finally" THEN "returned" ELSE "raised"
           /\ UNCHANGED <<nxt, plist, scan, seen, ws, seeds, store, bufdir, fault>>

Parent == Spawn \/ PollStart \/ PollRead \/ ToDrain \/ ToGather \/ Gather \/ Except \/ Finally
Next == Parent \/ (\E k \in W : Worker(k) \/ Terminate(k))
Spec == Init /\ [][Next]_vars
FairSpec == Spec /\ WF_vars(Parent) /\ \A k \in W : WF_vars(Worker(k) \/ Terminate(k))

\* ------------------------------------------------------------------ properties
Ended == pc \in {"returned", "raised"}
Quiet == \A k \in W : ws[k] \in {"none", "exit0", "dead"}
Faulty == FaultK \in W

TypeOK == /\ Len(plist) <= P /\ scan \in 0..Len(plist)
          /\ \A i, j \in 1..Len(plist) : i # j => plist[i] # plist[j]

\* C04: child seeds are drawn in dispatch order whatever the schedule; every chunk is stored
\* exactly once before the run returns, so the re-ordered result is schedule independent
SeedsInDispatchOrder == \A i \in 1..Len(seeds) : seeds[i] = i
ReturnedComplete == pc = "returned" =>
                       /\ {store[i] : i \in 1..Len(store)} = W /\ Len(store) = N
                       /\ Len(seeds) = N /\ out.results
NeverMoreThanP == Cardinality({k \in W : ws[k] \in {"spawned", "started", "computed", "stored"}
                                         /\ \E i \in 1..Len(plist) : plist[i] = k}) <= P

\* C14: a failed worker fails the run; no partial result passes as success
FailNeverReturns == (\E k \in W : ws[k] = "dead") => pc # "returned"
RaisedHasNoResults == pc = "raised" => ~out.results /\ ~out.csv /\ ~out.success /\ out.log /\ out.json
FaultLeadsToRaise == (\E k \in W : ws[k] = "dead") ~> (pc = "raised")
NoFaultLeadsToReturn == ~Faulty => <>(pc = "returned")

\* scenario emission: every order in which results can be stored (CONSTRAINT, -workers 1)
EmitStoreOrder == IF pc = "returned" THEN PrintT(<<"ORDER", store>>) ELSE TRUE

\* C19: nothing is left in scratch once the run has ended and its processes are gone
ScratchEmptyAtEnd == (Ended /\ Quiet) => (~bufdir /\ ~tmpdir)
=============================================================================
