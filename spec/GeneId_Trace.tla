---------------------------- MODULE GeneId_Trace ----------------------------
(* one NDJSON line per mapper history: {"sp": species, "events": [...]}; clause numbers 32xx.               *)
(* events: {"op":"map","list":[classes],"strict":b,"outcome":s,"out":[{"k":..,"n":..}],"nun":n}              *)
(*         {"op":"detect","list":[..],"res":s}                                                              *)
(*         {"op":"var","list":[..],"given":b,"taken":[..],"outcome":s,"species":s,"changed":b,"key":n,       *)
(*          "out":[..],"nun":n,"kept_old":b}                                                                *)
EXTENDS GeneId, TLC, Json, IOUtils
Traces == ndJsonDeserialize(IOEnv.TRACE_FILE)
N == Len(Traces)
VARIABLES tid, l
tvars == <<tid, l, sp, ct, issued, ncall>>
SRng(s) == {s[i] : i \in 1..Len(s)}
OutErr(e, s, ct0) ==
    IF Len(e.out) # Len(e.list) THEN 3203                                   \* answer as long as the question
    ELSE IF \E i \in 1..Len(e.list) : e.out[i].k # OutAt(s, e.list, ct0, i).k THEN 3204   \* kept / mapped / placeholder per position
    ELSE IF \E i \in 1..Len(e.list) : e.out[i].k = "ph" /\ e.out[i].n # OutAt(s, e.list, ct0, i).n THEN 3205   \* placeholder numbering
    ELSE IF e.nun # NUn(s, e.list) THEN 3206                                \* number of unmapped genes reported
    ELSE 0
MapErr(e, s, ct0) ==
    IF e.outcome # Outcome(s, e.list, e.strict) THEN 3201                   \* accepted / refused
    ELSE IF e.outcome = "ok" THEN OutErr(e, s, ct0)
    ELSE 0
DetectErr(e) == IF e.res # Detect(e.list) THEN 3210 ELSE 0                  \* species decision
VarErr(e, s, ct0) ==
    LET r == IF e.given THEN [outcome |-> Outcome(s, e.list, FALSE), species |-> s] ELSE Resolve(e.list)
        base == IF e.given THEN ct0 ELSE 0 IN
    IF e.outcome # r.outcome THEN 3220                                      \* table accepted / refused, and why
    ELSE IF r.outcome # "ok" THEN 0
    ELSE IF e.changed # Changed(r.species, e.list) THEN 3221                \* rewritten exactly when something changes
    ELSE IF ~e.changed THEN 0
    ELSE IF e.key # KeyIndex(SRng(e.taken)) THEN 3222                       \* name of the new index column
    ELSE IF ~e.kept_old THEN 3223                                           \* the old identifiers stay as a column
    ELSE OutErr(e, r.species, base)
Err(e, s, ct0) == IF e.op = "map" THEN MapErr(e, s, ct0)
                  ELSE IF e.op = "detect" THEN DetectErr(e)
                  ELSE IF e.op = "var" THEN VarErr(e, s, ct0)
                  ELSE 3299
Moves(e) == e.op = "map" \/ (e.op = "var" /\ e.given)
ASSUME \A i \in 1..(2 * N) : TLCSet(i, 0)
TInit == tid \in 1..N /\ l = 1 /\ sp = Traces[tid].sp /\ ct = 0 /\ issued = {} /\ ncall = 0
\* a call that reaches the mapper is the specification's own action Call (the counter moves whatever the outcome)
Step == /\ l <= Len(Traces[tid].events)
        /\ LET e == Traces[tid].events[l]
               code == Err(e, sp, ct) IN
           IF code = 0
           THEN /\ l' = l + 1 /\ UNCHANGED tid
                /\ IF Moves(e) THEN Call(e.list, IF e.op = "map" THEN e.strict ELSE FALSE)
                   ELSE UNCHANGED <<sp, ct, issued, ncall>>
           ELSE TLCSet(N + tid, code) /\ FALSE
TSpec == TInit /\ [][Step]_tvars
Track == IF TLCGet(tid) < l THEN TLCSet(tid, l) ELSE TRUE
Report == \A i \in 1..N : PrintT(<<"VERDICT", i, TLCGet(i), Len(Traces[i].events) + 1, TLCGet(N + i)>>)
=============================================================================
