-------------------------- MODULE MapLifecycle_Trace --------------------------
(* one NDJSON line per real mapping run: {"given": b, "fault": s, "outcome": s, "left": [names], "log": b,   *)
(* "results": b}; clause numbers 34xx                                                                        *)
EXTENDS MapLifecycle, Sequences, Integers, Json, IOUtils
Traces == ndJsonDeserialize(IOEnv.TRACE_FILE)
N == Len(Traces)
VARIABLES tid, l
tvars == <<tid, l, pc, owned, log, results, csv, failed>>
Err(t) ==
    LET e == Expected(t.fault) IN
    IF t.outcome # e.outcome THEN 3401              \* the run ended / did not end with an error
    ELSE IF Len(t.left) # 0 THEN 3402               \* something is left in the scratch / system temporary / output directory
    ELSE IF t.log # e.log THEN 3403                 \* log written exactly when the run got as far as its try block
    ELSE IF t.results # e.results THEN 3404         \* result records exactly after a complete run
    ELSE 0
ASSUME \A i \in 1..(2 * N) : TLCSet(i, 0)
TInit == tid \in 1..N /\ l = 1 /\ Init
Step == /\ l = 1
        /\ LET c == Err(Traces[tid]) IN
           IF c = 0 THEN l' = 2 /\ UNCHANGED <<tid, vars>> ELSE TLCSet(N + tid, c) /\ FALSE
TSpec == TInit /\ [][Step]_tvars
Track == IF TLCGet(tid) < l THEN TLCSet(tid, l) ELSE TRUE
Report == \A i \in 1..N : PrintT(<<"VERDICT", i, TLCGet(i), 2, TLCGet(N + i)>>)
=============================================================================
