---------------------------- MODULE CommandLog_MC ----------------------------
EXTENDS CommandLog, TLC, Json
VARIABLES hist
Op(o) == hist' = Append(hist, o)
MCInit == Init /\ hist = <<>>
MCNext == \/ \E m \in Msgs :
               \/ AddMsg(m) /\ Op([op |-> "add_msg", m |-> m, cs |-> FALSE])
               \/ Info(m) /\ Op([op |-> "info", m |-> m, cs |-> FALSE])
               \/ Env(m) /\ Op([op |-> "env", m |-> m, cs |-> FALSE])
               \/ Benchmark(m) /\ Op([op |-> "benchmark", m |-> m, cs |-> FALSE])
               \/ Warn(m) /\ Op([op |-> "warn", m |-> m, cs |-> FALSE])
               \/ Error(m) /\ Op([op |-> "error", m |-> m, cs |-> FALSE])
          \/ \E cs \in BOOLEAN : Write(cs) /\ Op([op |-> "write", m |-> "", cs |-> cs])
MCSpec == MCInit /\ [][MCNext]_<<vars, hist>>
MCAppendOnly == [][IsPrefix(mem, mem') /\ IsPrefix(file, file')]_<<vars, hist>>
MCErrorRaises == [][(hist' # hist /\ hist'[Len(hist')].op = "error") => last' = "raised" /\ mem' = mem]_<<vars, hist>>
\* every complete history is one scenario
Emit == IF nops = MaxOps THEN PrintT(<<"SCN", ToJson([ops |-> hist])>>) ELSE TRUE
=============================================================================
