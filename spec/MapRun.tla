------------------------------- MODULE MapRun -------------------------------
(***************************************************************************)
(* One mapping run (cli/from_specified_markers.py: _run_mapping;           *)
(* type_assignment/election_runner.py; election.py:                        *)
(* run_type_assignment_on_h5ad_cpu, _run_type_assignment_on_h5ad_worker,   *)
(* run_type_assignment, _run_type_assignment, choose_node;                 *)
(* taxonomy_tree.py: backfill_assignments; output_utils.py: re_order_blob).*)
(*                                                                         *)
(* The run is described by the record `run` (fixed per behaviour):         *)
(*   T      stored taxonomy          drop   level dropped for the run or 0 *)
(*   flat   flatten?                 G      reference genes are 1..G       *)
(*   means  [leaf -> [1..G -> Int]]  qg     Seq of query gene ids          *)
(*   Q      Seq of query rows (Seq of Int, columns as qg)                  *)
(*   cells  Seq of cell ids (obs order)                                    *)
(*   table  marker table as given    B, fnum, fden, K, chunk, P, minm      *)
(*   votes  TRUE: the votes reported at a node are checked against the     *)
(*          bootstrap draws; FALSE: any child may win (abstract MC)        *)
(*                                                                         *)
(* Actions (one per critical section of the code):                         *)
(*   StartChunk(r0, r1, names)      a worker receives rows r0..r1-1        *)
(*   VisitNode(par, rows, ...)      one parent node handled in the worker  *)
(*   Finish(recs)                   gather + re-order + back-fill + output *)
(* Each action is `Err(args) = 0 /\ update`; the Err operators return the  *)
(* number of the first violated clause so that a rejected trace names it.  *)
(* Clause numbers: 1xx C01, 2xx C02, 3xx C03, 8xx C08.                     *)
(***************************************************************************)
EXTENDS MarkerTable, Election, TLC

VARIABLES run,      \* the run record (constant along a behaviour)
          R,        \* taxonomy used for the run (after drop / flatten)
          recon,    \* Reconcile(R, table', QG, minm)
          nextRow,  \* first row not yet handed to a worker (0-based)
          cur,      \* current chunk: [r0, r1] or <<>> when none is open
          asg,      \* [row -> [level -> node]] assignments made so far (rows 0-based)
          vk,       \* [row -> [level -> votes of the winner]]
          phase,    \* "run" | "done" | "failed"
          errs      \* RunErrors of the run: non-empty = the run must end with an error
mrvars == <<run, R, recon, nextRow, cur, asg, vk, phase, errs>>

NCells == Len(run.cells)
QG == {run.qg[i] : i \in 1..Len(run.qg)}
RG == 1..run.G

RunTree(T, drop, flat) ==
    LET T1 == IF drop # 0 /\ drop \in Levels(T) /\ CanDrop(T, drop) THEN DropLevel(T, drop) ELSE T
    IN IF flat THEN Flatten(T1) ELSE T1

RunTable(table, flat) == IF flat THEN FlattenTable(table) ELSE table

\* chunk length used by the code: min(max(1, ceil(n / P)), chunk_size)
ChunkLen == LET c == (NCells + run.P - 1) \div run.P
                m == IF c < 1 THEN 1 ELSE c
            IN IF m < run.chunk THEN m ELSE run.chunk

MRInit(r) ==
    /\ run = r
    /\ R = RunTree(r.T, r.drop, r.flat)
    /\ recon = Reconcile(RunTree(r.T, r.drop, r.flat), RunTable(r.table, r.flat),
                         {r.qg[i] : i \in 1..Len(r.qg)}, r.minm)
    /\ nextRow = 0 /\ cur = <<>>
    /\ asg = [i \in {} |-> 0] /\ vk = [i \in {} |-> 0]
    /\ phase = "run"
    /\ errs = RunErrors(RunTree(r.T, r.drop, r.flat), RunTable(r.table, r.flat),
                        {r.qg[i] : i \in 1..Len(r.qg)}, 1..r.G, r.minm)

----------------------------------------------------------------------------
\* rows of the open chunk that sit at parent `par` (all rows for the root)
RowsAt(par) ==
    IF par = Root THEN cur[1]..(cur[2] - 1)
    ELSE {i \in cur[1]..(cur[2] - 1) : par[1] \in DOMAIN asg[i] /\ asg[i][par[1]] = par[2]}

ChunkComplete ==
    cur = <<>> \/ \A i \in cur[1]..(cur[2] - 1) : DOMAIN asg[i] = Levels(R)

ChunkErr(r0, r1, names) ==
    IF ~(phase = "run") THEN 101
    ELSE IF ~(errs = {}) THEN 830                    \* mapped although the table is unusable (C08)
    ELSE IF ~ChunkComplete THEN 102                  \* previous chunk left cells unassigned
    ELSE IF ~(r0 = nextRow) THEN 103                 \* chunks tile the rows in order
    ELSE IF ~(r1 = (IF r0 + ChunkLen < NCells THEN r0 + ChunkLen ELSE NCells) /\ r1 > r0) THEN 104
    ELSE IF ~(Len(names) = r1 - r0) THEN 105
    ELSE IF ~(\A j \in 1..Len(names) : names[j] = run.cells[r0 + j]) THEN 106   \* ids paired with rows
    ELSE 0

StartChunk(r0, r1, names) ==
    /\ ChunkErr(r0, r1, names) = 0
    /\ cur' = <<r0, r1>> /\ nextRow' = r1
    /\ asg' = [i \in (DOMAIN asg) \cup (r0..(r1 - 1)) |->
                 IF i \in DOMAIN asg THEN asg[i] ELSE [x \in {} |-> 0]]
    /\ vk' = [i \in (DOMAIN vk) \cup (r0..(r1 - 1)) |->
                 IF i \in DOMAIN vk THEN vk[i] ELSE [x \in {} |-> 0]]
    /\ UNCHANGED <<run, R, recon, phase, errs>>

----------------------------------------------------------------------------
\* query row i restricted to the gene sequence gs (positions 1..Len(gs))
QPos(g) == CHOOSE j \in 1..Len(run.qg) : run.qg[j] = g
QVec(i, gs) == [p \in 1..Len(gs) |-> run.Q[i + 1][QPos(gs[p])]]
MVec(leaf, gs) == [p \in 1..Len(gs) |-> run.means[leaf][gs[p]]]

\* bootstrap factor at a parent: the per-level table (level 0 = the root) when one is given, else the
\* global factor (cli/from_specified_markers.py builds the table from bootstrap_factor_lookup)
FactorAt(par) == IF par[1] \in DOMAIN run.flk THEN run.flk[par[1]] ELSE <<run.fnum, run.fden>>
\* out[j] = [a |-> winner, k |-> votes, ru |-> <<<<child, votes>>, ...>>] for rows[j]
NodeErr(par, rows, genes, leaves, types, draws, out) ==
    LET cl == ChildLevelOf(R, par)
        ch == Children(R, par)
        gset == {genes[i] : i \in 1..Len(genes)}
        lset == {leaves[i] : i \in 1..Len(leaves)}
        M == [lf \in lset |-> MVec(lf, genes)]
        typeOf(lf) == types[CHOOSE i \in 1..Len(leaves) : leaves[i] = lf]
        S(d) == {draws[d][i] + 1 : i \in 1..Len(draws[d])}
    IN
    IF ~(phase = "run" /\ cur # <<>>) THEN 110
    ELSE IF ~(par \in AllParentsOf(R)) THEN 111
    ELSE IF ~({rows[j] + cur[1] : j \in 1..Len(rows)} = RowsAt(par) /\ Len(rows) = Cardinality(RowsAt(par))) THEN 112
                                          \* exactly the cells previously assigned to this parent
    ELSE IF ~(\A j \in 1..Len(rows) : cl \notin DOMAIN asg[rows[j] + cur[1]]) THEN 113   \* visited once
    ELSE IF ~(Len(out) = Len(rows)) THEN 114
    ELSE IF Cardinality(ch) = 1 THEN
        \* trivial choice: probability 1, no runners-up (C03), the single child (C01)
        IF ~(\A j \in 1..Len(out) : out[j].a \in ch) THEN 115
        ELSE IF ~(\A j \in 1..Len(out) : out[j].k = run.B /\ Len(out[j].ru) = 0) THEN 310
        ELSE 0
    ELSE
        IF ~(par \in DOMAIN recon /\ gset = recon[par] /\ Len(genes) = Cardinality(gset)) THEN 801
                                          \* genes used = reconciled genes, no duplicates (C08)
        ELSE IF ~(gset # {}) THEN 802
        ELSE IF ~(lset = LeavesOfParent(R, par) /\ Len(leaves) = Cardinality(lset)) THEN 210
                                          \* only and all leaves below the node (C02)
        ELSE IF ~(\A i \in 1..Len(leaves) : types[i] = AncestorAt(R, LeafLevel(R), leaves[i], cl)) THEN 211
        ELSE IF run.draws /\ ~(Len(draws) = run.B) THEN 212
        ELSE IF run.draws /\ ~(\A d \in 1..Len(draws) : DrawOK(draws[d], Len(genes), FactorAt(par)[1], FactorAt(par)[2])) THEN 213
        ELSE LET cerrs == {IF ContractErr(run.B, run.K, ch, out[j].a, out[j].k, out[j].ru) # 0
                          THEN ContractErr(run.B, run.K, ch, out[j].a, out[j].k, out[j].ru)
                          ELSE IF ~run.votes THEN 0
                          ELSE LET q == QVec(rows[j] + cur[1], genes)
                                   cand == [d \in 1..Len(draws) |-> {typeOf(b) : b \in Best(q, M, S(d))}]
                               IN VoteErr(run.B, run.K, ch, cand, out[j].a, out[j].k, out[j].ru)
                             : j \in 1..Len(out)} \ {0}
             IN IF cerrs = {} THEN 0 ELSE Min(cerrs)

VisitNode(par, rows, genes, leaves, types, draws, out) ==
    /\ NodeErr(par, rows, genes, leaves, types, draws, out) = 0
    /\ LET cl == ChildLevelOf(R, par)
           pos(i) == CHOOSE j \in 1..Len(rows) : rows[j] + cur[1] = i
           here == {rows[j] + cur[1] : j \in 1..Len(rows)}
       IN /\ asg' = [i \in DOMAIN asg |->
                       IF i \in here THEN [x \in (DOMAIN asg[i]) \cup {cl} |->
                                              IF x = cl THEN out[pos(i)].a ELSE asg[i][x]]
                       ELSE asg[i]]
          /\ vk' = [i \in DOMAIN vk |->
                       IF i \in here THEN [x \in (DOMAIN vk[i]) \cup {cl} |->
                                              IF x = cl THEN out[pos(i)].k ELSE vk[i][x]]
                       ELSE vk[i]]
    /\ UNCHANGED <<run, R, recon, nextRow, cur, phase, errs>>

----------------------------------------------------------------------------
(***************************************************************************)
(* Finish: the records of the JSON output.                                 *)
(* recs[i] = [id, lv : Seq of [lev, a, direct, k, agg, hasRu]]             *)
(*   k   = round(probability * B); agg = round(aggregate * B^depth) where  *)
(*   depth counts the directly assigned levels down to this one.           *)
(***************************************************************************)

ProdK(i, lev, T) ==     \* product of winner votes over the run levels from the top down to lev
    LET p == Pos(R, lev) IN
    FoldSet(LAMBDA x, acc : acc * vk[i][R.hier[x]], 1, 1..p)

\* nearest finer level of the stored tree that was voted on
FinerRunLevel(lev) ==
    LET T == run.T
        cands == {j \in (Pos(T, lev) + 1)..Len(T.hier) : T.hier[j] \in Levels(R)}
    IN T.hier[Min(cands)]

LvOf(rec, lev) == rec.lv[CHOOSE j \in 1..Len(rec.lv) : rec.lv[j].lev = lev]

FinalErr(recs) ==
    LET T == run.T IN
    IF ~(phase = "run" /\ nextRow = NCells /\ ChunkComplete) THEN 120     \* every chunk done
    ELSE IF ~(Len(recs) = NCells) THEN 121                                \* one record per cell
    ELSE IF ~(\A i \in 1..NCells : recs[i].id = run.cells[i]) THEN 122    \* query order, own id
    ELSE IF ~(\A i \in 1..NCells : {recs[i].lv[j].lev : j \in 1..Len(recs[i].lv)} = Levels(T)
                                    /\ Len(recs[i].lv) = Len(T.hier)) THEN 123   \* every stored level
    ELSE IF ~(\A i \in 1..NCells : \A lev \in Levels(T) : LvOf(recs[i], lev).a \in T.nodes[lev]) THEN 124
    ELSE IF ~(\A i \in 1..NCells : \A p \in 2..Len(T.hier) :
                 Parent(T, T.hier[p], LvOf(recs[i], T.hier[p]).a) = LvOf(recs[i], T.hier[p - 1]).a) THEN 125
                                                                           \* one root-to-leaf path
    ELSE IF ~(\A i \in 1..NCells : \A lev \in Levels(R) :
                 /\ LvOf(recs[i], lev).a = asg[i - 1][lev]
                 /\ LvOf(recs[i], lev).direct) THEN 126                    \* voted levels as elected
    ELSE IF ~(\A i \in 1..NCells : \A lev \in Levels(T) \ Levels(R) :
                 ~LvOf(recs[i], lev).direct /\ ~LvOf(recs[i], lev).hasRu) THEN 127   \* inferred levels flagged
    ELSE IF ~(\A i \in 1..NCells : \A lev \in Levels(R) : LvOf(recs[i], lev).k = vk[i - 1][lev]) THEN 320
    ELSE IF ~(\A i \in 1..NCells : \A lev \in Levels(R) :
                 LvOf(recs[i], lev).agg = ProdK(i - 1, lev, T)) THEN 321   \* running product
    ELSE IF ~(\A i \in 1..NCells : \A lev \in Levels(T) \ Levels(R) :
                 /\ LvOf(recs[i], lev).k = LvOf(recs[i], FinerRunLevel(lev)).k
                 /\ LvOf(recs[i], lev).agg = LvOf(recs[i], FinerRunLevel(lev)).agg) THEN 322
                                                                           \* inferred repeat descendant
    ELSE 0

Finish(recs) ==
    /\ FinalErr(recs) = 0
    /\ phase' = "done"
    /\ UNCHANGED <<run, R, recon, nextRow, cur, asg, vk, errs>>

\* the run ended with an error before any result: allowed only when the marker table is
\* unusable in one of the ways of C08 (C01: everything else is mapped without error)
FailErr == IF ~(phase = "run" /\ nextRow = 0) THEN 131
           ELSE IF errs = {} /\ ~MayFail(R, RunTable(run.table, run.flat), QG) THEN 130 ELSE 0
Fail == /\ FailErr = 0 /\ phase' = "failed"
        /\ UNCHANGED <<run, R, recon, nextRow, cur, asg, vk, errs>>

----------------------------------------------------------------------------
\* invariants of the state machine itself
TypeOK == /\ nextRow \in 0..NCells
          /\ \A i \in DOMAIN asg : DOMAIN asg[i] \subseteq Levels(R)
\* assignments made so far form a path of the run tree (C01 mechanism)
PathInv == \A i \in DOMAIN asg : \A p \in 2..Len(R.hier) :
              (R.hier[p] \in DOMAIN asg[i]) =>
                 /\ R.hier[p - 1] \in DOMAIN asg[i]
                 /\ Parent(R, R.hier[p], asg[i][R.hier[p]]) = asg[i][R.hier[p - 1]]
VotesInv == \A i \in DOMAIN vk : \A lev \in DOMAIN vk[i] : vk[i][lev] \in 1..run.B
=============================================================================
