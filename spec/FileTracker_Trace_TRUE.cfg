SPECIFICATION TSpec
CONSTANTS Paths = {"a", "b"} UseTmp = TRUE MaxOps = 99
CONSTRAINT Track
POSTCONDITION Report
CHECK_DEADLOCK FALSE
