----------------------------- MODULE ScratchFS_MC -----------------------------
(***************************************************************************)
(* Design check: two runs sharing one scratch directory that was seeded    *)
(* with stale entries.  A run is a disciplined client: it creates entries  *)
(* under fresh names (mkdtemp: Fresh(run, i)) or - the timestamp naming of *)
(* validate_h5ad(output_dir=...) - under a name both runs may compute      *)
(* (Stamp); it works below its own entries and removes them before it      *)
(* ends.  With fresh names only, no interleaving makes a run touch a       *)
(* foreign entry and both end with an empty scratch directory; with a      *)
(* timestamp name the model finds the collision (finding F6).              *)
(***************************************************************************)
EXTENDS ScratchFS, Sequences

CONSTANTS Runs, UseStamp, MaxEntries

VARIABLES pcs, mine, bad
vars == <<owner, written, ended, pcs, mine, bad>>

Fresh(r, i) == 100 * r + i
Stamp == 7
Stale == {901, 902}

Init == /\ FSInit(Stale) /\ pcs = [r \in Runs |-> "work"] /\ mine = [r \in Runs |-> {}] /\ bad = 0

Ev(r, op, top, isTop) == [run |-> r, op |-> op, cls |-> "scratch", top |-> top, isTop |-> isTop]

Do(r, e) == LET c == EventErr(e, FALSE) IN
            IF c = 0 THEN Apply(e) /\ bad' = bad ELSE UNCHANGED fsvars /\ bad' = c

Create(r) == /\ pcs[r] = "work" /\ Cardinality(mine[r]) < MaxEntries
             /\ \E t \in {Fresh(r, Cardinality(mine[r]) + 1)} \cup (IF UseStamp THEN {Stamp} ELSE {}) :
                  /\ t \notin mine[r]
                  /\ Do(r, Ev(r, "mk", t, TRUE))
                  /\ mine' = [mine EXCEPT ![r] = @ \cup {t}]
             /\ UNCHANGED pcs
Use(r) == /\ pcs[r] = "work" /\ \E t \in mine[r] : Do(r, Ev(r, "wr", t, FALSE))
          /\ UNCHANGED <<pcs, mine>>
Remove(r) == /\ pcs[r] \in {"work", "cleanup"} /\ \E t \in mine[r] :
                  /\ Do(r, Ev(r, "rm", t, TRUE)) /\ mine' = [mine EXCEPT ![r] = @ \ {t}]
             /\ pcs' = [pcs EXCEPT ![r] = "cleanup"]
End(r) == /\ pcs[r] \in {"work", "cleanup"} /\ mine[r] = {}
          /\ Do(r, [run |-> r, op |-> "end", cls |-> "scratch", top |-> 0, isTop |-> FALSE])
          /\ pcs' = [pcs EXCEPT ![r] = "ended"] /\ UNCHANGED mine

Next == \E r \in Runs : Create(r) \/ Use(r) \/ Remove(r) \/ End(r)
Spec == Init /\ [][Next]_vars

NoViolation == bad = 0
StaleUntouched == \A t \in Stale : t \in DOMAIN owner /\ owner[t] = 0
=============================================================================
