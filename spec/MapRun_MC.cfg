SPECIFICATION Spec
CONSTANTS MaxLevels = 3 MaxLeaves = 3 MaxCells = 2 MaxChunk = 2 MaxP = 2 BB = 2 KK = 1
INVARIANT TypeOK
INVARIANT PathInv
INVARIANT VotesInv
INVARIANT C01Holds
INVARIANT NoStuck
CHECK_DEADLOCK FALSE
