SPECIFICATION Spec
CONSTANTS A = 3 B = 3 MaxLd = 3 MaxEl = 3 Slices = TRUE
INVARIANT PtrMonotone
INVARIANT Correct
INVARIANT CursorInv
INVARIANT ParallelJoinCorrect
CHECK_DEADLOCK FALSE
