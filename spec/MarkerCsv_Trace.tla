--------------------------- MODULE MarkerCsv_Trace ---------------------------
(***************************************************************************)
(* Real calls of marker_lookup_from_tree_and_csv.  One NDJSON line each:   *)
(*  {"tree", "names": [[lev, node, [[num, id, slash]..]]..],               *)
(*   "files": [[idx, [[num,id,slash]..], [genes..]]..], "ok", "missing":   *)
(*   [[lev,node]..], "table": [[[lev,node],[genes..]]..]}                  *)
(* Clause numbers 25xx.                                                    *)
(***************************************************************************)
EXTENDS MarkerCsv, TLC, Json, IOUtils
Traces == ndJsonDeserialize(IOEnv.TRACE_FILE)
N == Len(Traces)
VARIABLES tid, l
vars == <<tid, l>>
SRng(s) == {s[i] : i \in 1..Len(s)}
Tok(x) == [num |-> x[1], id |-> x[2], slash |-> x[3]]
Toks(s) == [i \in 1..Len(s) |-> Tok(s[i])]
TreeOf(j) ==
    LET L == Len(j.hier)
        idx(lv) == CHOOSE i \in 1..L : j.hier[i] = lv
        lv == SRng(j.keys)
    IN [hier  |-> j.hier, keys |-> lv,
        nodes |-> [x \in lv |-> SRng(j.nodes[idx(x)])],
        kids  |-> [x \in lv |-> [n \in SRng(j.nodes[idx(x)]) |->
                     LET e == CHOOSE i \in 1..Len(j.kids[idx(x)]) : j.kids[idx(x)][i][1] = n
                     IN SRng(j.kids[idx(x)][e][2])]],
        cells |-> [n \in SRng(j.nodes[L]) |-> {}]]
Err(t) ==
    LET T == TreeOf(t.tree)
        NameOf(lev, n) == Toks(t.names[CHOOSE i \in 1..Len(t.names) : t.names[i][1] = lev /\ t.names[i][2] = n][3])
        keyOf(f) == <<f[1], Toks(f[2])>>
        files == {keyOf(t.files[i]) : i \in 1..Len(t.files)}
        content == [k \in files |-> t.files[CHOOSE i \in 1..Len(t.files) : keyOf(t.files[i]) = k][3]]
        par(x) == IF x[1] = 0 THEN Root ELSE <<x[1], x[2]>>
        missing == {par(t.missing[i]) : i \in 1..Len(t.missing)}
        table == [p \in {par(t.table[i][1]) : i \in 1..Len(t.table)} |->
                     t.table[CHOOSE i \in 1..Len(t.table) : par(t.table[i][1]) = p][2]]
    IN CsvErr(T, NameOf, files, content, t.ok, missing, table)
ASSUME \A i \in 1..(2 * N) : TLCSet(i, 0)
Init == tid \in 1..N /\ l = 1
Step == /\ l = 1
        /\ LET c == Err(Traces[tid]) IN
           IF c = 0 THEN l' = 2 /\ UNCHANGED tid ELSE TLCSet(N + tid, c) /\ FALSE
Spec == Init /\ [][Step]_vars
Track == IF TLCGet(tid) < l THEN TLCSet(tid, l) ELSE TRUE
Report == \A i \in 1..N : PrintT(<<"VERDICT", i, TLCGet(i), 2, TLCGet(N + i)>>)
=============================================================================
