--------------------------- MODULE FileTracker_Trace ---------------------------
(***************************************************************************)
(* Histories replayed into the real FileTracker on a real file system.     *)
(* One NDJSON line per history:                                            *)
(*  {"init": {path: kind}, "events": [{"op","p","io","v","outcome",        *)
(*    "kind": {path: kind}, "data": {path: int}, "tmp": {path: int},       *)
(*    "scratch": bool}]}                                                   *)
(* (all traces of one TLC run share UseTmp).  Clause numbers 24xx.         *)
(***************************************************************************)
EXTENDS FileTracker, TLC, Json, IOUtils
Traces == ndJsonDeserialize(IOEnv.TRACE_FILE)
N == Len(Traces)
VARIABLES tid, l
tvars == <<vars, tid, l>>
Stop(code) == TLCSet(N + tid, code) /\ FALSE
TInit == /\ tid \in 1..N /\ l = 1
         /\ kind = [p \in Paths |-> Traces[tid].init[p]]
         /\ data = [p \in Paths |-> IF kind[p] = "file" THEN 1 ELSE 0]
         /\ loc = <<>> /\ tmpdata = <<>> /\ pre = <<>> /\ towrite = <<>>
         /\ alive = TRUE /\ tmpdir = UseTmp /\ nops = 0 /\ last = "init"
Matches(e) ==
    IF ~(last' = e.outcome) THEN 2401                                          \* outcome of the call
    ELSE IF ~(\A p \in Paths : kind'[p] = e.kind[p]) THEN 2402                 \* what exists at the user's paths
    ELSE IF ~(\A p \in Paths : data'[p] = e.data[p]) THEN 2403                 \* content at the user's paths
    ELSE IF ~(tmpdir' = e.scratch) THEN 2404                                   \* scratch directory present / gone
    ELSE IF ~(alive' => \A p \in DOMAIN loc' : Working(p)' = e.tmp[p]) THEN 2405   \* content of the working copies
    ELSE 0
Step == /\ l <= Len(Traces[tid].events)
        /\ LET e == Traces[tid].events[l] IN
           /\ \/ e.op = "add" /\ Add(e.p, e.io)
              \/ e.op = "write" /\ Write(e.p, e.v)
              \/ e.op = "release" /\ Release
           /\ LET c == Matches(e) IN IF c = 0 THEN TRUE ELSE Stop(c)
        /\ l' = l + 1 /\ UNCHANGED tid
TSpec == TInit /\ [][Step]_tvars
ASSUME \A i \in 1..(2 * N) : TLCSet(i, 0)
Track == IF TLCGet(tid) < l THEN TLCSet(tid, l) ELSE TRUE
Report == \A i \in 1..N : PrintT(<<"VERDICT", i, TLCGet(i), Len(Traces[i].events) + 1, TLCGet(N + i)>>)
=============================================================================
