------------------------------- MODULE Outputs -------------------------------
(***************************************************************************)
(* The three serialisations of a mapping result (utils/output_utils.py:    *)
(* blob_to_csv / blob_to_df, blob_to_hdf5 / hdf5_to_blob;                  *)
(* cli/from_specified_markers.py) as views of one abstract record.         *)
(*                                                                         *)
(* Abstract record of a cell: [id, lv : [Level -> [a, k, ru, direct]]]     *)
(*   a node, k winner votes (of B), ru sequence of <<node, votes>>,        *)
(*   direct: voted (TRUE) or inferred (FALSE; then ru = <<>>).             *)
(***************************************************************************)
EXTENDS Integers, Sequences, FiniteSets, FiniteSetsExt

(***************************************************************************)
(* CSV confidence column: the JSON value to four decimals.  For a vote     *)
(* share k/B the printed integer v (= value * 10^4) is decided exactly;    *)
(* when k*10^4/B falls on a half the binary float may print either         *)
(* neighbour.                                                              *)
(***************************************************************************)
Round4(k, B) ==
    LET t == 2 * k * 10000 + B            \* 2B * (k*10^4/B + 1/2)
        up == t \div (2 * B)
    IN IF t % (2 * B) = 0 THEN {up - 1, up} ELSE {up}

(***************************************************************************)
(* HDF5 view: per level a table node -> integer (position in the level's   *)
(* node list), runner-up arrays of fixed width K padded with -1.           *)
(***************************************************************************)
IndexOf(seq, x) == CHOOSE i \in 1..Len(seq) : seq[i] = x

\* encode one level entry; order = sequence of the level's nodes (int_to_node)
EncodeLevel(e, order, K) ==
    [a |-> IndexOf(order, e.a) - 1, k |-> e.k,
     ru |-> [i \in 1..K |-> IF i <= Len(e.ru) THEN IndexOf(order, e.ru[i][1]) - 1 ELSE -1],
     rk |-> [i \in 1..K |-> IF i <= Len(e.ru) THEN e.ru[i][2] ELSE 0]]

\* decode: the reader keeps runner-ups until the first padding value
RECURSIVE TakeValid(_, _, _, _)
TakeValid(ru, rk, order, i) ==
    IF i > Len(ru) \/ ru[i] < 0 THEN <<>>
    ELSE <<<<order[ru[i] + 1], rk[i]>>>> \o TakeValid(ru, rk, order, i + 1)

DecodeLevel(h, order, direct) ==
    [a |-> order[h.a + 1], k |-> h.k,
     ru |-> IF direct THEN TakeValid(h.ru, h.rk, order, 1) ELSE <<>>,
     direct |-> direct]

(***************************************************************************)
(* Relations between the views of one cell (used by Outputs_Trace).        *)
(* j, h : sequences over levels of [lev, a, k, ru, direct]                 *)
(* c    : sequence over levels of [lev, label, name, alias, conf]          *)
(* Name(lev, a) / Alias(lev, a): the taxonomy's name tables (identity when *)
(* absent).  B1: a single iteration was run (confidence = correlation,     *)
(* compared by the projection as a numeric leaf: conf = -1 here).          *)
(***************************************************************************)
SameEntry(x, y) == /\ x.lev = y.lev /\ x.a = y.a /\ x.k = y.k /\ x.direct = y.direct
                   /\ Len(x.ru) = Len(y.ru)
                   /\ \A i \in 1..Len(x.ru) : x.ru[i][1] = y.ru[i][1] /\ x.ru[i][2] = y.ru[i][2]

H5Err(j, h) ==
    IF ~(Len(j) = Len(h)) THEN 1501
    ELSE IF ~(\A i \in 1..Len(j) : SameEntry(j[i], h[i])) THEN 1502
    ELSE 0

CsvErr(j, c, hier, leaf, Name(_, _), Alias(_, _), B) ==
    IF ~(Len(c) = Len(hier)) THEN 1510
    ELSE IF ~(\A i \in 1..Len(hier) : c[i].lev = hier[i]) THEN 1511
    ELSE LET J(lev) == j[CHOOSE i \in 1..Len(j) : j[i].lev = lev] IN
         IF ~(\A i \in 1..Len(c) : c[i].label = J(c[i].lev).a) THEN 1512
         ELSE IF ~(\A i \in 1..Len(c) : c[i].name = Name(c[i].lev, c[i].label)) THEN 1513
         ELSE IF ~(\A i \in 1..Len(c) : IF c[i].lev = leaf THEN c[i].alias = Alias(leaf, c[i].label)
                                                          ELSE c[i].alias = -1) THEN 1514
         ELSE IF ~(B = 1 \/ \A i \in 1..Len(c) : c[i].conf \in Round4(J(c[i].lev).k, B)) THEN 1515
         ELSE 0

(***************************************************************************)
(* Fourth view: the data frame stored under obsm[key] of the query file    *)
(* (blob_to_df).  o : sequence over levels of                              *)
(*   [lev, label, name, alias, k, ru, direct] (alias = -1 off the leaf).   *)
(* Votes are stored as the probability itself (not rounded to 4 decimals). *)
(***************************************************************************)
ObsmErr(j, o, hier, leaf, Name(_, _), Alias(_, _)) ==
    IF ~(Len(o) = Len(hier)) THEN 1540
    ELSE IF ~(\A i \in 1..Len(hier) : o[i].lev = hier[i]) THEN 1541
    ELSE LET J(lev) == j[CHOOSE i \in 1..Len(j) : j[i].lev = lev] IN
         IF ~(\A i \in 1..Len(o) : o[i].label = J(o[i].lev).a) THEN 1542
         ELSE IF ~(\A i \in 1..Len(o) : o[i].name = Name(o[i].lev, o[i].label)) THEN 1543
         ELSE IF ~(\A i \in 1..Len(o) : IF o[i].lev = leaf THEN o[i].alias = Alias(leaf, o[i].label)
                                                          ELSE o[i].alias = -1) THEN 1544
         ELSE IF ~(\A i \in 1..Len(o) : o[i].k = J(o[i].lev).k /\ o[i].direct = J(o[i].lev).direct) THEN 1545
         ELSE IF ~(\A i \in 1..Len(o) : LET x == o[i].ru y == J(o[i].lev).ru IN
                      Len(x) = Len(y) /\ \A r \in 1..Len(x) : x[r][1] = y[r][1] /\ x[r][2] = y[r][2]) THEN 1546
         ELSE IF ~(\A i \in 1..Len(o) : o[i].f = J(o[i].lev).f) THEN 1547          \* floats, quantised to 1e-8
         ELSE 0
=============================================================================
