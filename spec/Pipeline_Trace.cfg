SPECIFICATION Spec
CONSTRAINT Track
POSTCONDITION Report
POSTCONDITION ReportPremise
CHECK_DEADLOCK FALSE
