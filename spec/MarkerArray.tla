---------------------------- MODULE MarkerArray ----------------------------
(***************************************************************************)
(* MarkerGeneArray (marker_selection/marker_array.py): the table of        *)
(* reference markers as the query-marker selection holds it in memory.     *)
(*                                                                         *)
(* A reference-marker file F lists genes and leaf pairs (both ordered) and *)
(* says, for a gene and a pair, whether the gene is an up marker, a down   *)
(* marker or no marker of the pair.  The class keeps FOUR index-based      *)
(* views - up / down, each by pair and by gene - and every operation       *)
(* rebuilds two of them from one source view and obtains the other two by  *)
(* transposition (through scratch files).  The actions below are written   *)
(* after the code, view by view; the invariants say what a user relies on: *)
(* whatever the history of loads and down-samplings, the four views agree, *)
(* and the array says about the genes and pairs it still holds exactly     *)
(* what the file says about them.                                          *)
(***************************************************************************)
EXTENDS Integers, Sequences, FiniteSets, SequencesExt

SRng(s) == {s[i] : i \in 1..Len(s)}
IdxOf(s, x) == CHOOSE i \in 1..Len(s) : s[i] = x
Distinct(s) == \A i, j \in 1..Len(s) : i # j => s[i] # s[j]

\* rows : [1..n -> SUBSET 1..m]; the transposed table has m rows over 1..n
Transpose(rows, n, m) == [c \in 1..m |-> {r \in 1..n : c \in rows[r]}]
\* keep the rows listed in idx (a sequence of row numbers), in that order
KeepRows(rows, idx) == [k \in 1..Len(idx) |-> rows[idx[k]]]

\* a file: genes, pairs : sequences of distinct names; up, down : sets of <<gene name, pair name>>
WellFormedFile(F) == /\ Distinct(F.genes) /\ Distinct(F.pairs)
                     /\ F.up \cap F.down = {}
                     /\ \A x \in F.up \cup F.down : x[1] \in SRng(F.genes) /\ x[2] \in SRng(F.pairs)

ByPair(F, rel) == [j \in 1..Len(F.pairs) |-> {i \in 1..Len(F.genes) : <<F.genes[i], F.pairs[j]>> \in rel}]
ByGene(F, rel) == [i \in 1..Len(F.genes) |-> {j \in 1..Len(F.pairs) : <<F.genes[i], F.pairs[j]>> \in rel}]

\* from_cache_path(query_gene_names = None) : the four views as stored
LoadNaive(F) == [genes |-> F.genes, pairs |-> F.pairs,
                 upP |-> ByPair(F, F.up), dnP |-> ByPair(F, F.down),
                 upG |-> ByGene(F, F.up), dnG |-> ByGene(F, F.down)]

\* from_cache_path(query_gene_names = Q) : the rows of the by-gene views whose gene the query has, in file order;
\* the by-pair views are transposed from them.  All genes present -> the naive load; none -> refused.
Mask(F, Q) == SelectSeq([i \in 1..Len(F.genes) |-> i], LAMBDA i : F.genes[i] \in Q)
LoadOutcome(F, Q) == IF Mask(F, Q) = <<>> THEN "no_overlap" ELSE "ok"
LoadQuery(F, Q) ==
    LET idx == Mask(F, Q)
        ng  == Len(idx)
        np  == Len(F.pairs)
        ug  == KeepRows(ByGene(F, F.up), idx)
        dg  == KeepRows(ByGene(F, F.down), idx)
    IN  IF ng = Len(F.genes) THEN LoadNaive(F)
        ELSE [genes |-> [k \in 1..ng |-> F.genes[idx[k]]], pairs |-> F.pairs,
              upG |-> ug, dnG |-> dg, upP |-> Transpose(ug, ng, np), dnP |-> Transpose(dg, ng, np)]

\* downsample_genes / downsample_genes_to_other(gene_idx_array)
DownGenes(A, idx) ==
    LET ng == Len(idx)
        np == Len(A.pairs)
        ug == KeepRows(A.upG, idx)
        dg == KeepRows(A.dnG, idx)
    IN  [genes |-> [k \in 1..ng |-> A.genes[idx[k]]], pairs |-> A.pairs,
         upG |-> ug, dnG |-> dg, upP |-> Transpose(ug, ng, np), dnP |-> Transpose(dg, ng, np)]

\* downsample_pairs_to_other(only_keep_pairs) : ps a sequence of pair names the array holds
PairsOutcome(A, ps) == IF \A k \in 1..Len(ps) : ps[k] \in SRng(A.pairs) THEN "ok" ELSE "unknown_pair"
DownPairs(A, ps) ==
    LET np  == Len(ps)
        ng  == Len(A.genes)
        idx == [k \in 1..np |-> IdxOf(A.pairs, ps[k])]
        up  == KeepRows(A.upP, idx)
        dp  == KeepRows(A.dnP, idx)
    IN  [genes |-> A.genes, pairs |-> ps,
         upP |-> up, dnP |-> dp, upG |-> Transpose(up, np, ng), dnG |-> Transpose(dp, np, ng)]

\* ------------------------------------------------------------------ what a user relies on
ViewsAgree(A) ==
    LET ng == Len(A.genes)
        np == Len(A.pairs)
    IN  /\ DOMAIN A.upP = 1..np /\ DOMAIN A.dnP = 1..np /\ DOMAIN A.upG = 1..ng /\ DOMAIN A.dnG = 1..ng
        /\ A.upG = Transpose(A.upP, np, ng) /\ A.dnG = Transpose(A.dnP, np, ng)
NeverBoth(A) == \A j \in 1..Len(A.pairs) : A.upP[j] \cap A.dnP[j] = {}
\* the array repeats the file on what it still holds
Faithful(A, F) ==
    \A i \in 1..Len(A.genes), j \in 1..Len(A.pairs) :
        /\ (i \in A.upP[j]) <=> (<<A.genes[i], A.pairs[j]>> \in F.up)
        /\ (i \in A.dnP[j]) <=> (<<A.genes[i], A.pairs[j]>> \in F.down)

\* the queries of the class
MarkerMaskFromGene(A, i) == [marker |-> A.upG[i] \cup A.dnG[i], up |-> A.upG[i]]
MarkerMaskFromPair(A, j) == [marker |-> A.upP[j] \cup A.dnP[j], up |-> A.upP[j]]
UpCount(A, js, i)   == Cardinality({k \in 1..Len(js) : i \in A.upP[js[k]]})      \* up_mask_from_pair_idx_batch
DownCount(A, js, i) == Cardinality({k \in 1..Len(js) : i \in A.dnP[js[k]]})
=============================================================================
