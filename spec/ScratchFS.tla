------------------------------ MODULE ScratchFS ------------------------------
(***************************************************************************)
(* File-system discipline of a pipeline stage (C19).                       *)
(*                                                                         *)
(* The scratch directory holds top-level entries (files or directories     *)
(* created with mkdtemp / mkstemp, or - validate_h5ad(output_dir=...) -    *)
(* named from a timestamp).  owner[t] is the run that created entry t;     *)
(* owner 0 = planted before any run (stale).  A run may create new         *)
(* entries, write/read/remove below entries it owns, write its requested   *)
(* outputs, and read its inputs; when it ends it must own nothing in       *)
(* scratch.  Each rule is a clause (19xx) so that a rejected syscall trace *)
(* names what was broken.                                                  *)
(*                                                                         *)
(* Event: [run, op, cls, top, isTop]                                       *)
(*   op  : "mk" create directory/file, "wr" open for writing, "rd" open    *)
(*         for reading, "rm" unlink / rmdir, "end" the call returned /     *)
(*         raised                                                          *)
(*   cls : "scratch" | "output" (a requested output path) | "outdir"       *)
(*         (elsewhere in an output directory) | "input" | "elsewhere"      *)
(*   top : name of the top-level scratch entry (or the file name)          *)
(*   isTop : the path is the top-level entry itself                        *)
(***************************************************************************)
EXTENDS Integers, FiniteSets, TLC

VARIABLES owner,      \* [top-level scratch entry -> run]
          written,    \* set of <<run, output name>>
          ended       \* runs that have ended
fsvars == <<owner, written, ended>>

FSInit(stale) == /\ owner = [t \in stale |-> 0] /\ written = {} /\ ended = {}

\* mayWriteInput: the query file may be written when results are stored in it (obsm_key)
EventErr(e, mayWriteInput) ==
    IF e.run \in ended /\ e.op # "end" THEN 1901                  \* activity after the stage ended
    ELSE IF e.op = "end" THEN
        (IF \E t \in DOMAIN owner : owner[t] = e.run THEN 1910 ELSE 0)   \* scratch not empty at the end
    ELSE IF e.cls = "elsewhere" /\ e.op \in {"mk", "wr", "rm"} THEN 1905  \* file outside scratch / outputs
    ELSE IF e.cls = "outdir" /\ e.op \in {"mk", "wr", "rm"} THEN 1906     \* unrequested file in an output dir
    ELSE IF e.cls = "input" /\ e.op \in {"mk", "wr", "rm"} /\ ~mayWriteInput THEN 1907   \* input modified
    ELSE IF e.cls = "scratch" THEN
        (IF e.top \notin DOMAIN owner
         THEN (IF e.op = "mk" \/ (e.op = "wr" /\ e.isTop) THEN 0 ELSE 1902)   \* use of a path nobody created
         ELSE IF owner[e.top] = e.run THEN 0
         ELSE IF owner[e.top] = 0 THEN 1903                        \* touches a stale entry
         ELSE 1904)                                                \* touches another run's entry
    ELSE 0

Apply(e) ==
    /\ owner' = IF e.cls = "scratch" /\ e.top \notin DOMAIN owner /\ e.op \in {"mk", "wr"}
                THEN [t \in (DOMAIN owner) \cup {e.top} |-> IF t = e.top THEN e.run ELSE owner[t]]
                ELSE IF e.cls = "scratch" /\ e.op = "rm" /\ e.isTop
                THEN [t \in (DOMAIN owner) \ {e.top} |-> owner[t]]
                ELSE owner
    /\ written' = IF e.cls = "output" /\ e.op \in {"mk", "wr"} THEN written \cup {<<e.run, e.top>>} ELSE written
    /\ ended' = IF e.op = "end" THEN ended \cup {e.run} ELSE ended

Step(e, mayWriteInput) == EventErr(e, mayWriteInput) = 0 /\ Apply(e)

\* state invariants
NoSharedOwner == TRUE
EndedOwnNothing == \A r \in ended : ~\E t \in DOMAIN owner : owner[t] = r
=============================================================================
