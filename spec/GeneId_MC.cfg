SPECIFICATION Spec
CONSTANTS MaxLen = 3 MaxCalls = 3
INVARIANT InvFresh
PROPERTY NeverReissued
CHECK_DEADLOCK FALSE
