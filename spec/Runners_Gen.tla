---------------------------- MODULE Runners_Gen ----------------------------
\* scenario source of X10: every list of statistics files with the names the reference-marker runner must give
EXTENDS Runners_MC
ASSUME EmitNames(0)
=============================================================================
