----------------------------- MODULE RefMarkers_MC -----------------------------
(***************************************************************************)
(* The restricted Holm correction of the code (only p-values below the     *)
(* threshold are corrected, the count is padded with the others) takes the *)
(* same decision "corrected p < threshold" as the full step-down           *)
(* procedure, for every vector of NG p-values on a grid; Holm is monotone  *)
(* in every component (used for the interval atoms).                       *)
(***************************************************************************)
EXTENDS RefMarkers
CONSTANTS NG, Grid, Th
VARIABLES p
Init == p \in [1..NG -> Grid]
Next == UNCHANGED p
Spec == Init /\ [][Next]_p
SameDecision == \A g \in 1..NG : (Holm(p, g) < Th) <=> (HolmRestricted(p, Th, g) < Th)
Monotone == \A j \in 1..NG : \A v \in Grid : v >= p[j] =>
               \A g \in 1..NG : Holm([p EXCEPT ![j] = v], g) >= Holm(p, g) \/ g = j
AdjustedNotBelowRaw == \A g \in 1..NG : Holm(p, g) >= p[g] \/ Holm(p, g) = Unit
=============================================================================
