---------------------------- MODULE H5Copy_Trace ----------------------------
(***************************************************************************)
(* Real calls of copy_h5_excluding_data / _get_slices_for_copy against     *)
(* H5Copy.tla.  One NDJSON line per call:                                  *)
(*  walk : {"kind":"walk", "nodes":[{"path":[names], "kind":"g"|"d"}],     *)
(*          "xg":[[names]], "xd":[[names]], "ok":bool,                     *)
(*          "dst":[{"path":[names], "kind":.., "same":bool}],              *)
(*          "shape":[], "m":0, "runs":[]}                                  *)
(*  tiles: {"kind":"tiles", "shape":[n..], "m":int, "runs":[[[i0,i1]..]..]}*)
(* Clause numbers 28xx.                                                    *)
(***************************************************************************)
EXTENDS H5Copy, Json, IOUtils
Traces == ndJsonDeserialize(IOEnv.TRACE_FILE)
N == Len(Traces)
VARIABLES tid, l
vars == <<tid, l>>
SRng(s) == {s[i] : i \in 1..Len(s)}
FileOf(t) == LET ns == {r.path : r \in SRng(t.nodes)} IN
             [nodes |-> ns, kind |-> [p \in ns |-> (CHOOSE r \in SRng(t.nodes) : r.path = p).kind],
              val |-> [p \in ns |-> 0]]
ErrWalk(t) ==
    LET S  == FileOf(t)
        K  == Kept(S, SRng(t.xg), SRng(t.xd))
        ds == {r.path : r \in SRng(t.dst)}
    IN  IF ~WellFormed(S) THEN 2800
        ELSE IF ~t.ok THEN 2804
        ELSE IF ds # K THEN 2801
        ELSE IF \E r \in SRng(t.dst) : r.kind # S.kind[r.path] THEN 2802
        ELSE IF \E r \in SRng(t.dst) : ~r.same THEN 2803
        ELSE 0
ErrTiles(t) ==
    LET d == Len(t.shape) IN
    IF Len(t.runs) # d THEN 2811
    ELSE IF ~(\E per \in PerDim(t.m, d) : \A a \in 1..d :
                 {<<r[1], r[2]>> : r \in SRng(t.runs[a])} = Runs(t.shape[a], RunLen(t.shape[a], per))) THEN 2812
    ELSE IF ~(\A a \in 1..d : PartitionOK(t.shape[a], {<<r[1], r[2]>> : r \in SRng(t.runs[a])})
                              /\ Len(t.runs[a]) = Cardinality(SRng(t.runs[a]))) THEN 2813
    ELSE 0
Err(t) == IF t.kind = "walk" THEN ErrWalk(t) ELSE ErrTiles(t)
ASSUME \A i \in 1..(2 * N) : TLCSet(i, 0)
Init == tid \in 1..N /\ l = 1
Step == /\ l = 1
        /\ LET c == Err(Traces[tid]) IN
           IF c = 0 THEN l' = 2 /\ UNCHANGED tid ELSE TLCSet(N + tid, c) /\ FALSE
Spec == Init /\ [][Step]_vars
Track == IF TLCGet(tid) < l THEN TLCSet(tid, l) ELSE TRUE
Report == \A i \in 1..N : PrintT(<<"VERDICT", i, TLCGet(i), 2, TLCGet(N + i)>>)
=============================================================================
